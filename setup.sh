#!/bin/bash
# Offline build of the Lean side: compiled driver + the property modules of all claimed checks.
set -e
cd "$(dirname "$0")/lean"
lake build toqdriver Toq
