"""Generators of exact quantum objects (states, ensembles, unitaries) for scheme B."""
from __future__ import annotations

from fractions import Fraction

import numpy as np


def int_vector(rng, d, cplx, lim=6):
    while True:
        v = rng.integers(-lim, lim + 1, size=d).astype(complex)
        if cplx:
            v = v + 1j * rng.integers(-lim, lim + 1, size=d)
        if np.any(v != 0):
            return v


def unit(v):
    v = np.asarray(v, dtype=complex)
    return v / np.linalg.norm(v)


def rand_density(rng, d, rank, cplx):
    """random density matrix of the given rank with rational structure (float output)"""
    vs = [int_vector(rng, d, cplx) for _ in range(rank)]
    w = rng.integers(1, 6, size=rank).astype(float)
    rho = sum(wi * np.outer(unit(v), unit(v).conj()) for wi, v in zip(w, vs))
    rho = rho / np.trace(rho).real
    return (rho + rho.conj().T) / 2


def dyadic_probs(rng, k, bits=5, allow_uniform=True):
    """priors that are exact dyadic floats summing to 1"""
    if allow_uniform and rng.integers(3) == 0 and (k & (k - 1)) == 0:
        return [1.0 / k] * k
    tot = 1 << bits
    while True:
        cuts = sorted(rng.integers(1, tot, size=k - 1).tolist())
        parts = [b - a for a, b in zip([0] + cuts, cuts + [tot])]
        if all(p > 0 for p in parts):
            return [p / tot for p in parts]


def cayley_unitary(rng, d, cplx=True, lim=3):
    """exact-rational unitary U = (I - S)(I + S)^-1 for a random rational skew-Hermitian S (returned as floats;
    unitary up to rounding 1e-16)"""
    A = rng.integers(-lim, lim + 1, size=(d, d)).astype(complex)
    if cplx:
        A = A + 1j * rng.integers(-lim, lim + 1, size=(d, d))
    S = (A - A.conj().T) / 4.0
    I = np.eye(d)
    return (I - S) @ np.linalg.inv(I + S)
