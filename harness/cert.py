"""Exact certificate construction for scheme B (untrusted helper: everything it produces is re-checked
by the verified Lean checker).  Exact matrices are complex dyadic rationals: integer mantissa arrays
(object dtype, Python ints) with one shared binary exponent."""
from __future__ import annotations

from fractions import Fraction

import numpy as np


class DM:
    """exact complex dyadic matrix: (re + i im) / 2^e, re/im object arrays of Python ints"""

    def __init__(self, re, im, e):
        self.re = np.asarray(re, dtype=object)
        self.im = np.asarray(im, dtype=object)
        self.e = int(e)

    # ---- constructors
    @staticmethod
    def from_float(a, bits=40):
        a = np.asarray(a, dtype=complex)
        s = 1 << bits
        f = np.vectorize(lambda x: int(round(x * s)), otypes=[object])
        if a.size == 0:
            return DM(np.zeros(a.shape, dtype=object), np.zeros(a.shape, dtype=object), bits)
        return DM(f(a.real), f(a.imag), bits)

    @staticmethod
    def exact_float(a):
        """exact image of a float array (every double is dyadic); exponent chosen minimal"""
        a = np.asarray(a, dtype=complex)
        fr = [Fraction(float(x)) for x in np.concatenate([a.real.reshape(-1), a.imag.reshape(-1)])]
        e = max([f.denominator.bit_length() - 1 for f in fr] + [0])
        s = 1 << e
        n = a.size
        re = np.array([int(f * s) for f in fr[:n]], dtype=object).reshape(a.shape)
        im = np.array([int(f * s) for f in fr[n:]], dtype=object).reshape(a.shape)
        return DM(re, im, e)

    @staticmethod
    def from_int(a):
        a = np.asarray(a)
        if np.iscomplexobj(a):
            re = np.vectorize(lambda x: int(round(x.real)), otypes=[object])(a)
            im = np.vectorize(lambda x: int(round(x.imag)), otypes=[object])(a)
        else:
            re = np.vectorize(int, otypes=[object])(a)
            im = np.zeros(a.shape, dtype=object)
            im[...] = 0
        return DM(re, im, 0)

    @staticmethod
    def eye(n, e=0):
        re = np.zeros((n, n), dtype=object)
        re[...] = 0
        for i in range(n):
            re[i, i] = 1 << e
        im = np.zeros((n, n), dtype=object)
        im[...] = 0
        return DM(re, im, e)

    # ---- arithmetic (exact)
    def at(self, e):
        """same value with a larger exponent"""
        assert e >= self.e
        k = 1 << (e - self.e)
        return DM(self.re * k, self.im * k, e)

    def _al(self, o):
        e = max(self.e, o.e)
        return self.at(e), o.at(e)

    def __add__(self, o):
        a, b = self._al(o)
        return DM(a.re + b.re, a.im + b.im, a.e)

    def __sub__(self, o):
        a, b = self._al(o)
        return DM(a.re - b.re, a.im - b.im, a.e)

    def __matmul__(self, o):
        return DM(self.re.dot(o.re) - self.im.dot(o.im), self.re.dot(o.im) + self.im.dot(o.re), self.e + o.e)

    def H(self):
        return DM(self.re.T.copy(), -self.im.T.copy(), self.e)

    def T(self):
        return DM(self.re.T.copy(), self.im.T.copy(), self.e)

    def conj(self):
        return DM(self.re.copy(), -self.im, self.e)

    def scale_dy(self, m: int, k: int):
        """multiply by the dyadic m / 2^k"""
        return DM(self.re * m, self.im * m, self.e + k)

    def herm_part(self):
        """(A + A^H)/2 exactly"""
        return DM(self.re + self.re.T, self.im - self.im.T, self.e + 1)

    def trace_re(self) -> Fraction:
        return Fraction(int(sum(self.re[i, i] for i in range(self.re.shape[0]))), 1 << self.e)

    def frac(self, i, j):
        return Fraction(int(self.re[i, j]), 1 << self.e), Fraction(int(self.im[i, j]), 1 << self.e)

    def to_float(self):
        s = float(1 << self.e) if self.e < 1000 else None
        re = np.array([[Fraction(int(x), 1 << self.e) for x in row] for row in self.re.reshape(self.re.shape[0], -1)], dtype=object).astype(float)
        im = np.array([[Fraction(int(x), 1 << self.e) for x in row] for row in self.im.reshape(self.im.shape[0], -1)], dtype=object).astype(float)
        return (re + 1j * im).reshape(self.re.shape)

    def is_herm(self):
        return bool((self.re == self.re.T).all() and (self.im == -self.im.T).all())

    def json(self):
        return {"e": self.e, "re": [int(x) for x in self.re.reshape(-1)], "im": [int(x) for x in self.im.reshape(-1)]}


def frac_json(q: Fraction):
    q = Fraction(q)
    return [q.numerator, q.denominator]


def chol_factor(Af, bits=44, delta=None):
    """untrusted: a dyadic L with A - L L^H (hopefully) diagonally dominant; Af float Hermitian with a
    positive margin.  Returns None when the float Cholesky fails."""
    Af = np.asarray(Af, dtype=complex)
    n = Af.shape[0]
    scale = max(1.0, float(np.max(np.abs(Af)))) if n else 1.0
    if delta is None:
        delta = scale * 2.0 ** -30
    try:
        Lf = np.linalg.cholesky((Af + Af.conj().T) / 2 - delta * np.eye(n))
    except np.linalg.LinAlgError:
        return None
    return DM.from_float(Lf, bits)


def py_psd_cert(A: DM, L: DM) -> bool:
    """Python replica of EMat.psdCert (for diagnostics only; the Lean checker is the judge)"""
    if not A.is_herm():
        return False
    R = A - (L @ L.H())
    if not R.is_herm():
        return False
    n = R.re.shape[0]
    for i in range(n):
        off = sum(abs(int(R.re[i, j])) + abs(int(R.im[i, j])) for j in range(n) if j != i)
        if int(R.re[i, i]) < off:
            return False
    return True


def min_eig(Af):
    Af = np.asarray(Af, dtype=complex)
    return float(np.min(np.linalg.eigvalsh((Af + Af.conj().T) / 2)))


def repair_povm(Ms, eps_bits=22, bits=40):
    """untrusted: from approximate POVM elements (float arrays) build exact dyadic elements that are
    Hermitian, strictly positive and sum to the identity exactly.  M' = (1-eps) M + eps I/k, slack into the first."""
    k = len(Ms)
    d = Ms[0].shape[0]
    out = []
    I = DM.eye(d)
    for M in Ms:
        Mh = DM.from_float((np.asarray(M) + np.asarray(M).conj().T) / 2, bits)
        Mh = Mh.herm_part()  # exactly Hermitian
        # (1 - 2^-eps_bits) M + 2^-eps_bits I / k  -- use dyadic 1/k approximation: floor(2^30/k)/2^30
        a = Mh.scale_dy((1 << eps_bits) - 1, eps_bits)
        b = I.scale_dy((1 << 30) // k, 30 + eps_bits)
        out.append(a + b)
    S = out[0]
    for M in out[1:]:
        S = S + M
    out[0] = out[0] + (I - S)
    return out
