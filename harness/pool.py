"""Process pool for SDP-heavy correspondence checks.  Workers get (task, seed) and return a Result
that the parent folds into the run context (cases, violations, counts), so evidence stays in one place."""
from __future__ import annotations

import multiprocessing as mp
import os
import signal
import traceback

from .common import CorrespondenceBroken, Driver, InfraError

_driver = None


def worker_driver() -> Driver:
    global _driver
    if _driver is None:
        _driver = Driver()
    return _driver


class Result:
    def __init__(self):
        self.cases = []  # (desc, nontrivial, branch)
        self.violations = []  # (what, info)
        self.counts = {}
        self.notes = []
        self.extra = {}

    def case(self, desc, nontrivial, branch=None):
        self.cases.append((desc, bool(nontrivial), branch))

    def violation(self, what, info):
        self.violations.append((what, info))

    def count(self, key, k=1):
        self.counts[key] = self.counts.get(key, 0) + k

    def note(self, s):
        self.notes.append(s)


class TaskTimeout(BaseException):  # not an Exception: harness code catching Exception around toqito calls must not swallow it
    pass


def _alarm(signum, frame):
    raise TaskTimeout()


TASK_TIMEOUT_S = int(os.environ.get("VERIF_TASK_TIMEOUT", "60"))


def _run(args):
    func, task = args
    os.environ.setdefault("OMP_NUM_THREADS", "1")
    res = Result()
    signal.signal(signal.SIGALRM, _alarm)
    signal.alarm(TASK_TIMEOUT_S)
    try:
        func(task, res)
    except TaskTimeout:
        # a solver that does not terminate on this instance: runtime behaviour, counted and reported in evidence
        res.count("task-timeout")
        global _driver
        if _driver is not None:
            _driver.close()
            _driver = None
    except CorrespondenceBroken as e:
        res.extra["broken"] = str(e)
    except InfraError as e:
        res.extra["infra"] = str(e)
    except Exception as e:  # a crash of the harness itself is infrastructure, not a verdict
        res.extra["infra"] = f"{type(e).__name__}: {e}\n{traceback.format_exc()[-1500:]}"
    finally:
        signal.alarm(0)
    return res


def run_pool(ctx, func, tasks, procs=None):
    """func(task, res: Result) must be a module-level function; tasks a list of picklable objects"""
    procs = procs or min(16, os.cpu_count() or 4)
    if not tasks:
        return
    # import the heavy solver stacks once in the parent: forked workers then share them, and a task timeout can
    # never land inside a half-finished first import
    for mod in ("cvxpy", "picos", "cvxopt", "scs", "clarabel", "scipy.linalg"):
        try:
            __import__(mod)
        except Exception:
            pass
    with mp.get_context("fork").Pool(procs) as pool:
        for res in pool.imap(_run, [(func, t) for t in tasks], chunksize=1):
            fold(ctx, res)


def fold(ctx, res: Result):
    if "infra" in res.extra:
        raise InfraError(res.extra["infra"])
    if "broken" in res.extra:
        ctx.broken.append(res.extra["broken"])
    for desc, nt, br in res.cases:
        ctx.case(desc, nt, br)
    for k, v in res.counts.items():
        ctx.count(k, v)
    for s in res.notes:
        ctx.note(s)
    for what, info in res.violations:
        ctx.violation(what, info)
