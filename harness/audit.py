"""Build the Lean project, audit axioms of the property theorems, grep for forbidden constructs."""
from __future__ import annotations

import hashlib
import json
import os
import re
import subprocess

from .common import ALLOWED_AXIOMS, LEAN_DIR

FORBIDDEN = re.compile(r"\b(sorry|admit|native_decide|bv_decide|implemented_by|unsafe)\b|^\s*axiom\s|maxHeartbeats\s+0\b", re.M)


def strip_comments(src: str) -> str:
    # block comments (possibly nested) and line comments
    out = []
    i, depth = 0, 0
    while i < len(src):
        if src.startswith("/-", i):
            depth += 1
            i += 2
        elif src.startswith("-/", i) and depth > 0:
            depth -= 1
            i += 2
        elif depth > 0:
            i += 1
        elif src.startswith("--", i):
            while i < len(src) and src[i] != "\n":
                i += 1
        else:
            out.append(src[i])
            i += 1
    return "".join(out)


def lean_sources():
    files = []
    for root, _, names in os.walk(os.path.join(LEAN_DIR, "Toq")):
        for n in names:
            if n.endswith(".lean"):
                files.append(os.path.join(root, n))
    files.append(os.path.join(LEAN_DIR, "Main.lean"))
    files.append(os.path.join(LEAN_DIR, "Toq.lean"))
    return sorted(files)


def source_hash() -> str:
    h = hashlib.sha1()
    for f in lean_sources():
        h.update(f.encode())
        h.update(open(f, "rb").read())
    return h.hexdigest()


def build(pid: str | None = None) -> tuple[bool, str]:
    target = f"Toq.Properties.{pid}" if pid else "Toq"
    r = subprocess.run(["lake", "build", target, "toqdriver"], cwd=LEAN_DIR, capture_output=True, text=True)
    return r.returncode == 0, (r.stdout + r.stderr)[-4000:]


def import_closure(pid: str):
    """Lean files of this project that Properties/<pid>.lean and the driver transitively import"""
    roots = [os.path.join(LEAN_DIR, "Toq", "Properties", f"{pid}.lean"), os.path.join(LEAN_DIR, "Main.lean")]
    seen, todo = set(), [r for r in roots if os.path.exists(r)]
    while todo:
        f = todo.pop()
        if f in seen:
            continue
        seen.add(f)
        for m in re.finditer(r"^import\s+(Toq[\w.]*)", open(f).read(), re.M):
            g = os.path.join(LEAN_DIR, *m.group(1).split(".")) + ".lean"
            if os.path.exists(g):
                todo.append(g)
    return sorted(seen)


def forbidden_hits(pid: str):
    hits = []
    for f in import_closure(pid):
        src = strip_comments(open(f).read())
        for m in FORBIDDEN.finditer(src):
            hits.append(f"{os.path.relpath(f, LEAN_DIR)}: {m.group(0).strip()}")
    return hits


def theorem_names(pid: str):
    path = os.path.join(LEAN_DIR, "Toq", "Properties", f"{pid}.lean")
    if not os.path.exists(path):
        return [], None
    src = strip_comments(open(path).read())
    ns = re.search(r"^namespace\s+(\S+)", src, re.M)
    names = re.findall(r"^(?:protected\s+)?theorem\s+(\S+)", src, re.M)
    return names, (ns.group(1) if ns else None)


def leancheck(pid: str) -> tuple[bool, str]:
    """thorough tier: replay the declarations of the property module and of every project module it imports
    through leanchecker (the toolchain's independent re-checker of compiled .olean files); cached by source hash"""
    mods = []
    for f in import_closure(pid):
        rel = os.path.relpath(f, LEAN_DIR)[:-5].replace(os.sep, ".")
        if rel.startswith("Toq.") and not rel.startswith("Toq.Driver"):
            mods.append(rel)
    adir = os.path.join(LEAN_DIR, ".lake", "audit")
    os.makedirs(adir, exist_ok=True)
    cache = os.path.join(adir, f"{pid}.leanchecker.json")
    key = source_hash()
    if os.path.exists(cache):
        c = json.load(open(cache))
        if c.get("key") == key:
            return c["ok"], c["out"]
    r = subprocess.run(["lake", "env", "leanchecker"] + sorted(set(mods)), cwd=LEAN_DIR, capture_output=True, text=True)
    ok, out = r.returncode == 0, (r.stdout + r.stderr)[-1500:]
    json.dump({"key": key, "ok": ok, "out": out, "modules": sorted(set(mods))}, open(cache, "w"))
    return ok, out


def audit(pid: str, use_cache: bool = True, tier: str = "quick") -> dict:
    """returns dict(obligations, discharged, theorems, axioms_used, problems, checker_cmd)"""
    names, ns = theorem_names(pid)
    res = {
        "obligations": len(names),
        "discharged": 0,
        "theorems": names,
        "axioms_used": [],
        "problems": [],
        "checker_cmd": f"cd lean && lake build Toq.Properties.{pid} toqdriver && lake env lean .lake/audit/{pid}.lean  (#print axioms for every theorem of Toq/Properties/{pid}.lean)",
    }
    ok, log = build(pid if os.path.exists(os.path.join(LEAN_DIR, 'Toq', 'Properties', f'{pid}.lean')) else None)
    if not ok:
        res["problems"].append("lake build failed: " + log[-1500:])
        return res
    bad = forbidden_hits(pid)
    if bad:
        res["problems"].append("forbidden constructs: " + "; ".join(bad[:10]))
    if not names:
        res["problems"].append(f"no theorems found in Toq/Properties/{pid}.lean")
        return res
    adir = os.path.join(LEAN_DIR, ".lake", "audit")
    os.makedirs(adir, exist_ok=True)
    key = source_hash()
    cache = os.path.join(adir, f"{pid}.json")
    out = None
    if use_cache and os.path.exists(cache):
        c = json.load(open(cache))
        if c.get("key") == key:
            out = c["out"]
    if out is None:
        lf = os.path.join(adir, f"{pid}.lean")
        with open(lf, "w") as f:
            f.write(f"import Toq.Properties.{pid}\n")
            if ns:
                f.write(f"open {ns}\n")
            for n in names:
                f.write(f"#print axioms {n}\n")
        r = subprocess.run(["lake", "env", "lean", lf], cwd=LEAN_DIR, capture_output=True, text=True)
        out = r.stdout + r.stderr
        if r.returncode != 0:
            res["problems"].append("axiom audit failed to compile: " + out[-1500:])
            return res
        json.dump({"key": key, "out": out}, open(cache, "w"))
    used = set()
    ok_names = set()
    for m in re.finditer(r"'([^']+)' depends on axioms: \[([^\]]*)\]", out, re.S):
        ax = {a.strip() for a in m.group(2).replace("\n", " ").split(",") if a.strip()}
        used |= ax
        if ax <= ALLOWED_AXIOMS:
            ok_names.add(m.group(1).split(".")[-1])
        else:
            res["problems"].append(f"theorem {m.group(1)} uses axioms {sorted(ax - ALLOWED_AXIOMS)}")
    for m in re.finditer(r"'([^']+)' does not depend on any axioms", out):
        ok_names.add(m.group(1).split(".")[-1])
    if tier == "thorough":
        ok_lc, out_lc = leancheck(pid)
        res["leanchecker"] = "ok" if ok_lc else out_lc
        if not ok_lc:
            res["problems"].append("leanchecker: " + out_lc[-600:])
    res["axioms_used"] = sorted(used)
    res["discharged"] = sum(1 for n in names if n.split(".")[-1] in ok_names)
    if res["discharged"] != len(names):
        missing = [n for n in names if n.split(".")[-1] not in ok_names]
        res["problems"].append(f"theorems not discharged: {missing}")
    return res
