"""Entry point: python -m harness.run <Cxx> <quick|thorough> [--replay file]"""
from __future__ import annotations

import importlib
import json
import os
import sys
import time
import traceback

from . import audit as audit_mod
from .common import CorrespondenceBroken, Ctx, InfraError, write_evidence


def main(argv):
    if len(argv) < 2:
        print("usage: check <Cxx> quick|thorough [--replay file]")
        return 2
    pid = argv[0]
    tier = os.environ.get("VERIF_TIER") or argv[1]
    if tier not in ("quick", "thorough"):
        tier = "quick"
    seed = int(os.environ.get("VERIF_SEED", "0") or 0)
    replay = None
    if "--replay" in argv:
        replay = argv[argv.index("--replay") + 1]
    ctx = Ctx(pid, tier, seed)
    mod = importlib.import_module(f"harness.corr.{pid.lower()}")
    try:
        aud = audit_mod.audit(pid, tier=tier)
    except Exception as e:  # infrastructure
        print(f"audit crashed: {e}")
        traceback.print_exc()
        return 2
    proof_ok = not aud["problems"]
    try:
        if replay:
            mod.replay(ctx, json.load(open(replay)))
        else:
            mod.run(ctx, model_ok=os.path.exists(audit_mod.os.path.join(audit_mod.LEAN_DIR, ".lake", "build", "bin", "toqdriver")) and "lake build failed" not in " ".join(aud["problems"]))
    except CorrespondenceBroken as e:
        ctx.broken.append(str(e))
    except InfraError as e:
        print(f"infrastructure failure: {e}")
        traceback.print_exc()
        return 2
    finally:
        if ctx.driver:
            ctx.driver.close()
    if not proof_ok and not ctx.violations:
        # a proof obligation no longer checks and the search found no failing input
        ctx.unproved("proof obligations of " + pid + " no longer check: " + "; ".join(aud["problems"])[:1500], {"problems": aud["problems"], "theorems": aud["theorems"]})
    if ctx.broken:
        uniq = sorted(set(ctx.broken))
        print(f"correspondence broken ({len(ctx.broken)} instances): {uniq[0][:300]}")
        if not ctx.violations:
            # the implementation no longer has the modelled structure and the search found no failing input
            ctx.unproved("correspondence of " + pid + " no longer checks: " + " | ".join(uniq)[:1500], {"correspondence": uniq[:20], "count": len(ctx.broken)})
    write_evidence(ctx, aud, getattr(mod, "RULE", ""), getattr(mod, "ASSUMPTIONS", []))
    n_viol = len(ctx.violations)
    print(f"{pid} {tier} seed={seed}: theorems {aud['discharged']}/{aud['obligations']} evaluations={ctx.evaluations} "
          f"distinct_nontrivial={len(ctx.nontrivial)} known={sum(ctx.known_hit.values())} violations={n_viol} wall={time.time()-ctx.t0:.1f}s")
    return 1 if n_viol else 0


if __name__ == "__main__":
    sys.exit(main(sys.argv[1:]))
