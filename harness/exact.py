"""Exact comparison helpers: integer-valued complex arrays <-> Python ints."""
from __future__ import annotations

import numpy as np
import scipy.sparse as sp


class NotExact(Exception):
    pass


def split_int(arr):
    """complex/real/object array with integer-valued entries -> (re ints, im ints) flat row-major lists"""
    if sp.issparse(arr):
        arr = arr.toarray()
    a = np.asarray(arr)
    re, im = [], []
    for x in a.reshape(-1):
        if isinstance(x, (complex, np.complexfloating)):
            r, i = x.real, x.imag
        else:
            r, i = x, 0
        if isinstance(r, int) and isinstance(i, int):
            pass
        elif float(r) != int(r) or float(i) != int(i):
            raise NotExact(f"non-integer entry {x!r}")
        re.append(int(r))
        im.append(int(i))
    return list(a.shape), re, im


def call(fn, *a, kinds=("InvalidPerm", "InvalidDim", "InvalidSys"), **k):
    try:
        return ("ok", fn(*a, **k))
    except ValueError as e:
        msg = str(e)
        for kind in kinds:
            if kind in msg:
                return ("reject", kind)
        return ("raise", f"ValueError: {msg[:200]}")
    except Exception as e:
        return ("raise", f"{type(e).__name__}: {str(e)[:200]}")


def rand_int_matrix(rng, shape, dtype, bits=12):
    if dtype == "uint8":
        return rng.integers(128, 256, size=shape).astype(np.uint8)      # block sums exceed the range of the dtype
    if dtype == "int16":
        return rng.integers(-32768, 32768, size=shape).astype(np.int16)
    if dtype == "bool":
        return rng.integers(0, 2, size=shape).astype(bool)
    lim = 1 << bits
    re = rng.integers(-lim + 1, lim, size=shape)
    if dtype == "complex128":
        return (re + 1j * rng.integers(-lim + 1, lim, size=shape)).astype(np.complex128)
    if dtype == "object":
        big = rng.integers(-lim + 1, lim, size=shape).astype(object) * (1 << 70) + re.astype(object)
        return big
    return re.astype(dtype)


def present(rng, a, allow_dtype=True):
    """The same array values in a different presentation: memory layout (C / Fortran / strided view) and, when the values
    allow it, a narrower dtype (real float64 or int64 instead of complex128).  Functions of the values must not care."""
    a = np.asarray(a)
    if a.dtype == object or a.ndim != 2:
        return a
    if allow_dtype and np.iscomplexobj(a) and not np.any(a.imag):
        k = int(rng.integers(3))
        if k == 1:
            a = a.real.copy()
        elif k == 2 and np.all(a.real == np.round(a.real)) and np.max(np.abs(a.real), initial=0) < 2**52:
            a = a.real.astype(np.int64)
    k = int(rng.integers(4))
    if k == 1:
        return np.asfortranarray(a)
    if k == 2:
        big = np.zeros((a.shape[0] * 2, a.shape[1] * 2), dtype=a.dtype)
        big[::2, ::2] = a
        return big[::2, ::2]          # non-contiguous view
    if k == 3:
        return np.ascontiguousarray(a.T).T   # F-contiguous via transpose of a C array
    return a


# ------------------------------------------------------------------------------------------------
# presentation variation for arrays of any rank / lists of arrays, and purity (caller's arguments untouched) snapshots.
# Used by the SDP harnesses (c08..c13, c15, c20): the VALUES never change, so oracles / certified intervals stay valid.


def present_nd(rng, a, allow_dtype=True, int_ok=True, bool_ok=False):
    """The same values in another presentation, for arrays of any rank >= 1 (rank 0 / object arrays are returned as they are):
    dtype: complex128 with zero imaginary part -> float64 or (integer values, int_ok) int64; float64 with integer values -> int64
           (int_ok); values in {0, 1} -> bool (bool_ok); only when allow_dtype;
    layout: C-contiguous, Fortran-contiguous, strided (every second element of a larger buffer along every axis), or a
            permuted-axes copy viewed back (arbitrary stride order).
    rng None -> the array itself."""
    a = np.asarray(a)
    if rng is None or a.dtype == object or a.ndim == 0 or a.size == 0:
        return a
    # every draw is unconditional: the decisions are a function of the generator state and the VALUES only
    k, kb, kl = int(rng.integers(3)), int(rng.integers(3)), int(rng.integers(4))
    perm = [int(x) for x in rng.permutation(a.ndim)]
    if allow_dtype:
        if np.iscomplexobj(a) and not np.any(a.imag) and k >= 1:
            a = a.real.copy()
        if k == 2 and a.dtype.kind == "f" and int_ok and np.all(np.isfinite(a)) and np.all(a == np.round(a)) and np.max(np.abs(a), initial=0) < 2 ** 52:
            a = a.astype(np.int64)
        if bool_ok and kb == 0 and not np.iscomplexobj(a) and a.dtype.kind in "fi" and np.all((a == 0) | (a == 1)):
            a = a.astype(bool)
    if kl == 1:
        return np.asfortranarray(a)
    if kl == 2:
        big = np.zeros(tuple(2 * s for s in a.shape), dtype=a.dtype)
        sl = tuple(slice(None, None, 2) for _ in a.shape)
        big[tuple(slice(1, None, 2) for _ in a.shape)] = 1   # the gaps are not zero: reading through the strides matters
        big[sl] = a
        return big[sl]
    if kl == 3 and a.ndim >= 2:
        inv = [perm.index(i) for i in range(a.ndim)]
        return np.ascontiguousarray(a.transpose(perm)).transpose(inv)
    return np.ascontiguousarray(a)


def present_list(rng, arrs, force_real=(), **kw):
    """every element presented independently: mixed dtypes and layouts occur within one list (a new list object).
    Elements whose index is in force_real and whose imaginary part vanishes are handed over with a real dtype for certain
    (the generator made them real-valued on purpose: real first element followed by complex ones, and the reverse)."""
    out = []
    for i, a in enumerate(arrs):
        a = np.asarray(a)
        if rng is not None and i in force_real and np.iscomplexobj(a) and not np.any(a.imag):
            a = a.real.copy()
        out.append(present_nd(rng, a, **kw))
    return out


def call_rng(pres, *key):
    """generator for the presentation of one call: a function of the task's presentation seed and the call's identity only, so a
    replay of that single call reproduces the presentation; None (no variation) when the task carries no seed"""
    import zlib
    if not pres:
        return None
    return np.random.default_rng([int(pres), zlib.crc32(repr(key).encode())])


def describe(x):
    """short text for evidence / violation records: dtype and layout of an array (or of every element of a list)"""
    if isinstance(x, (list, tuple)):
        return [describe(e) for e in x]
    if not isinstance(x, np.ndarray):
        return type(x).__name__
    lay = "C" if x.flags["C_CONTIGUOUS"] else ("F" if x.flags["F_CONTIGUOUS"] else "strided")
    if x.ndim >= 2 and x.flags["C_CONTIGUOUS"] and x.flags["F_CONTIGUOUS"]:
        lay = "CF"
    return f"{x.dtype}/{lay}"


def snapshot(obj):
    """deep record of caller-visible state of an argument: arrays (identity, dtype, shape, values), lists / tuples / dicts
    (identity, length, element identities, recursively), plain scalars / strings / None by value; other objects by identity only"""
    if isinstance(obj, np.ndarray):
        return ("nd", id(obj), obj.dtype, obj.shape, obj.strides, np.array(obj, copy=True, order="K"))
    if isinstance(obj, (list, tuple)):
        return ("seq", id(obj), type(obj), len(obj), [id(e) for e in obj], [snapshot(e) for e in obj])
    if isinstance(obj, dict):
        return ("map", id(obj), sorted(map(repr, obj.keys())), {k: snapshot(v) for k, v in obj.items()})
    if obj is None or isinstance(obj, (bool, int, float, complex, str, np.generic)):
        return ("val", obj)
    return ("obj", id(obj))


def snapshot_diff(snap, obj, path="arg"):
    """None when obj still is what `snapshot` recorded, else a short description of the first difference"""
    kind = snap[0]
    if kind == "nd":
        _, i, dt, sh, st, val = snap
        if not isinstance(obj, np.ndarray) or id(obj) != i:
            return f"{path}: replaced by another object"
        if obj.dtype != dt:
            return f"{path}: dtype {dt} -> {obj.dtype}"
        if obj.shape != sh:
            return f"{path}: shape {sh} -> {obj.shape}"
        if obj.strides != st:
            return f"{path}: strides {st} -> {obj.strides}"
        if not np.array_equal(obj, val, equal_nan=(obj.dtype.kind in "fc")):
            w = np.argwhere(np.asarray(obj != val))
            j = tuple(int(t) for t in w[0]) if len(w) else ()
            return f"{path}: values changed (first at index {j}: {val[j]!r} -> {obj[j]!r})" if len(w) else f"{path}: values changed"
        return None
    if kind == "seq":
        _, i, ty, n, ids, subs = snap
        if id(obj) != i or type(obj) is not ty:
            return f"{path}: replaced by another object"
        if len(obj) != n:
            return f"{path}: length {n} -> {len(obj)}"
        for j, (e, ei, es) in enumerate(zip(obj, ids, subs)):
            if id(e) != ei and es[0] not in ("val",):
                return f"{path}[{j}]: element replaced by another object ({describe(e)})"
            d = snapshot_diff(es, e, f"{path}[{j}]")
            if d:
                return d
        return None
    if kind == "map":
        _, i, keys, subs = snap
        if id(obj) != i or sorted(map(repr, obj.keys())) != keys:
            return f"{path}: keys changed"
        for k, es in subs.items():
            d = snapshot_diff(es, obj[k], f"{path}[{k!r}]")
            if d:
                return d
        return None
    if kind == "val":
        v = snap[1]
        same = (type(obj) is type(v)) and (obj == v or (isinstance(v, float) and v != v and obj != obj))
        return None if same else f"{path}: {v!r} -> {obj!r}"
    return None if id(obj) == snap[1] else f"{path}: replaced by another object"


class Pure:
    """purity guard around one call:  g = Pure(args...);  out = f(args...);  why = g.modified()  (None = untouched)"""

    def __init__(self, *args, **kwargs):
        self.args, self.kwargs = args, kwargs
        self.snap = snapshot(list(args)), snapshot(dict(kwargs))

    def modified(self):
        d = None
        for j, (a, s) in enumerate(zip(self.args, self.snap[0][5])):
            d = d or snapshot_diff(s, a, f"arg{j}")
        for k, s in self.snap[1][3].items():
            d = d or snapshot_diff(s, self.kwargs[k], k)
        return d


# ------------------------------------------------------------------------------------------------
# group-A hardening (c04, c06, c07, c14, c16..c19): a presentation generator that depends on the CASE only (so a replay of the
# case sees the same presentation and the harness's data stream ctx.rng is not disturbed), and presentation of nested containers.


def case_rng(*parts):
    """numpy Generator determined by the given JSON-able parts (case seed / case description / call-site tag) alone"""
    import hashlib
    import json

    h = hashlib.sha256(json.dumps(parts, sort_keys=True, default=str).encode()).digest()
    return np.random.default_rng(int.from_bytes(h[:8], "little"))


def present_obj(rng, obj, **kw):
    """present_nd on every ndarray inside nested lists / tuples (new containers of the same types, each leaf presented
    independently, so mixed dtypes / layouts occur inside one list); everything else is returned as it is"""
    if isinstance(obj, np.ndarray):
        return present_nd(rng, obj, **kw)
    if isinstance(obj, list):
        return [present_obj(rng, e, **kw) for e in obj]
    if isinstance(obj, tuple):
        return tuple(present_obj(rng, e, **kw) for e in obj)
    return obj


def vary_ensemble(prs, inst, kinds=("random", "near", "mixed", "prod_ent"), zero_prior_one_in=0):
    """In place, for the ensemble dictionaries of c10 / c11 / c12 (keys states, cplx, kind, probs, optionally vecs):
    * inst["pres"]: seed of the presentation of every call on this instance (see call_rng);
    * complex ensembles of the listed kinds, one in three: some states are replaced by REAL-valued ones (real part of the state vector,
      renormalised; (rho + conj rho)/2 for mixed density operators; one in three a computational basis vector, integer-valued) so that a
      real-dtype first element is followed by genuinely complex ones, or a complex first element by real ones: inst["real_idx"];
    * zero_prior_one_in = n > 0: one in n instances with k >= 3 gets a prior with an exact zero entry.
    Values change here (before anything is certified), never afterwards."""
    inst["pres"] = int(prs.integers(1, 2 ** 31))
    inst["real_idx"] = []
    states = inst["states"]
    k = len(states)
    if inst.get("cplx") and inst.get("kind") in kinds and k >= 2 and int(prs.integers(3)) == 0:
        if int(prs.integers(2)):
            idx = [0] + [i for i in range(1, k - 1) if int(prs.integers(4)) == 0]
        else:
            idx = [i for i in range(1, k) if int(prs.integers(2))] or [k - 1]
        for i in idx:
            a = np.asarray(states[i])
            basis = int(prs.integers(3)) == 0 and inst.get("kind") != "near"
            j = int(prs.integers(a.shape[0]))
            vec_form = a.ndim == 1 or 1 in a.shape
            vecs = inst.get("vecs")
            if vec_form or vecs is not None or np.linalg.matrix_rank(a, tol=1e-9) == 1:
                if vec_form:
                    v = a.reshape(-1)
                elif vecs is not None:
                    v = np.asarray(vecs[i]).reshape(-1)
                else:
                    v = np.linalg.eigh((a + a.conj().T) / 2)[1][:, -1]
                    m = int(np.argmax(np.abs(v)))
                    v = v * np.exp(-1j * np.angle(v[m]))
                r = np.real(v).astype(float)
                if basis:
                    r = np.zeros(v.shape[0])
                    r[j] = 1.0
                if np.linalg.norm(r) < 1e-3:
                    continue
                r = (r / np.linalg.norm(r)).astype(complex)
                if vecs is not None:
                    vecs[i] = r.copy()
                states[i] = r.reshape(a.shape) if vec_form else np.outer(r, r.conj())
            else:
                states[i] = np.real(a).astype(complex)
            inst["real_idx"].append(i)
    if zero_prior_one_in and k >= 3 and int(prs.integers(zero_prior_one_in)) == 0:
        from . import qgen
        z = int(prs.integers(k))
        rest = qgen.dyadic_probs(prs, k - 1)
        inst["probs"] = rest[:z] + [0.0] + rest[z:]
        inst["probs_given"] = True
    return inst


# ------------------------------------------------------------------------------------------------
# independence of NumPy's global floating-point error state


class StrictFP:
    """context: NumPy's floating-point error state set to 'raise' for invalid / divide / overflow (underflow stays ignored: denormal results
    of legitimate arithmetic are not errors) and RuntimeWarnings of category 'invalid value' / 'divide by zero' turned into exceptions.
    A function whose VALUE is specified for an input must return that value in this state too: evaluating 0/0, sqrt or log of a slightly
    negative rounding residue and discarding the result afterwards (np.where) is invisible in the default state and raises here."""

    def __enter__(self):
        import warnings
        self._err = np.seterr(invalid="raise", divide="raise", over="raise", under="ignore")
        self._cw = warnings.catch_warnings()
        self._cw.__enter__()
        warnings.filterwarnings("error", message=".*invalid value.*", category=RuntimeWarning)
        warnings.filterwarnings("error", message=".*divide by zero.*", category=RuntimeWarning)
        return self

    def __exit__(self, *exc):
        self._cw.__exit__(*exc)
        np.seterr(**self._err)
        return False


def strict_fp_call(fn, *a, **k):
    """('ok', value) or ('raise', 'Type: message') for fn(*a, **k) evaluated under StrictFP"""
    try:
        with StrictFP():
            return "ok", fn(*a, **k)
    except BaseException as e:  # noqa: BLE001  (FloatingPointError, RuntimeWarning as error, anything else)
        if isinstance(e, (KeyboardInterrupt, SystemExit)):
            raise
        return "raise", f"{type(e).__name__}: {str(e)[:200]}"
