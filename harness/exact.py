"""Exact comparison helpers: integer-valued complex arrays <-> Python ints."""
from __future__ import annotations

import numpy as np
import scipy.sparse as sp


class NotExact(Exception):
    pass


def split_int(arr):
    """complex/real/object array with integer-valued entries -> (re ints, im ints) flat row-major lists"""
    if sp.issparse(arr):
        arr = arr.toarray()
    a = np.asarray(arr)
    re, im = [], []
    for x in a.reshape(-1):
        if isinstance(x, (complex, np.complexfloating)):
            r, i = x.real, x.imag
        else:
            r, i = x, 0
        if isinstance(r, int) and isinstance(i, int):
            pass
        elif float(r) != int(r) or float(i) != int(i):
            raise NotExact(f"non-integer entry {x!r}")
        re.append(int(r))
        im.append(int(i))
    return list(a.shape), re, im


def call(fn, *a, kinds=("InvalidPerm", "InvalidDim", "InvalidSys"), **k):
    try:
        return ("ok", fn(*a, **k))
    except ValueError as e:
        msg = str(e)
        for kind in kinds:
            if kind in msg:
                return ("reject", kind)
        return ("raise", f"ValueError: {msg[:200]}")
    except Exception as e:
        return ("raise", f"{type(e).__name__}: {str(e)[:200]}")


def rand_int_matrix(rng, shape, dtype, bits=12):
    lim = 1 << bits
    re = rng.integers(-lim + 1, lim, size=shape)
    if dtype == "complex128":
        return (re + 1j * rng.integers(-lim + 1, lim, size=shape)).astype(np.complex128)
    if dtype == "object":
        big = rng.integers(-lim + 1, lim, size=shape).astype(object) * (1 << 70) + re.astype(object)
        return big
    return re.astype(dtype)


def present(rng, a, allow_dtype=True):
    """The same array values in a different presentation: memory layout (C / Fortran / strided view) and, when the values
    allow it, a narrower dtype (real float64 or int64 instead of complex128).  Functions of the values must not care."""
    a = np.asarray(a)
    if a.dtype == object or a.ndim != 2:
        return a
    if allow_dtype and np.iscomplexobj(a) and not np.any(a.imag):
        k = int(rng.integers(3))
        if k == 1:
            a = a.real.copy()
        elif k == 2 and np.all(a.real == np.round(a.real)) and np.max(np.abs(a.real), initial=0) < 2**52:
            a = a.real.astype(np.int64)
    k = int(rng.integers(4))
    if k == 1:
        return np.asfortranarray(a)
    if k == 2:
        big = np.zeros((a.shape[0] * 2, a.shape[1] * 2), dtype=a.dtype)
        big[::2, ::2] = a
        return big[::2, ::2]          # non-contiguous view
    if k == 3:
        return np.ascontiguousarray(a.T).T   # F-contiguous via transpose of a C array
    return a
