"""Exact, structured generators shared by the correspondence modules."""
from __future__ import annotations

import itertools

import numpy as np


def rand_dims(rng, n, lo=1, hi=4, max_total=4096):
    while True:
        d = [int(x) for x in rng.integers(lo, hi + 1, size=n)]
        if int(np.prod(d)) <= max_total:
            return d


def rand_perm(rng, n):
    return [int(x) for x in rng.permutation(n)]


def cycle_type(p):
    n = len(p)
    seen = [False] * n
    ct = []
    for i in range(n):
        if not seen[i]:
            c, j = 0, i
            while not seen[j]:
                seen[j] = True
                j = p[j]
                c += 1
            ct.append(c)
    return tuple(sorted(ct, reverse=True))


def is_involution(p):
    return all(p[p[i]] == i for i in range(len(p)))


def gauss_int(rng, shape, bits=8, cplx=True):
    """random (Gaussian) integers with |re|,|im| < 2^bits, returned as complex128 (exact)"""
    lim = 1 << bits
    re = rng.integers(-lim + 1, lim, size=shape)
    if cplx:
        im = rng.integers(-lim + 1, lim, size=shape)
        return re + 1j * im
    return re.astype(float)


def all_dim_vectors(n, lo, hi, max_total):
    for d in itertools.product(range(lo, hi + 1), repeat=n):
        if int(np.prod(d)) <= max_total:
            yield list(d)
