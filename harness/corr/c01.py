"""C01: permute_systems / swap / permutation_operator / swap_operator against the Lean mirror model
(proved equal to the tensor-factor relabelling spec).  Inputs are arange-labelled, so equality of
outputs is equality of the index maps for that configuration, for every entry value at once."""
from __future__ import annotations

import itertools

import numpy as np
import scipy.sparse as sp

from toqito.perms import permutation_operator, permute_systems, swap, swap_operator

from .. import gen
from ..exact import present, strict_fp_call

RULE = ("configurations (input form, n, local dims, perm, flags, dtype) drawn by the seeded generator or enumerated "
        "(thorough); inputs are arange-labelled so one case settles the whole gather map; non-trivial = perm is not the "
        "identity and at least two distinct local dimensions > 1 are present (or row/col dims differ); distinct = hash of the configuration")
ASSUMPTIONS = [
    "NumPy data-movement primitives (reshape, transpose, fancy indexing) are dtype-parametric",
    "the Lean mirror model is compared at the public API boundary only",
]

DTYPES = ["int64", "float64", "complex128", "object"]


def _label(shape, dtype):
    n = int(np.prod(shape))
    a = np.arange(n).reshape(shape)
    if dtype == "complex128":
        return a.astype(np.complex128) + 1j * (2 * a + 1)  # a stray conjugation changes the labels
    if dtype == "object":
        return a.astype(object)
    return a.astype(dtype)


def _to_ints(out):
    if sp.issparse(out):
        out = out.toarray()
    out = np.asarray(out)
    flat = out.reshape(-1)
    vals = []
    for x in flat:
        if isinstance(x, (complex, np.complexfloating)):
            if x.imag != 0 and x.imag != 2 * x.real + 1:
                raise ValueError("label value changed (imaginary part altered: conjugated?)")
            x = x.real
        if float(x) != int(x):
            raise ValueError("non-integer label")
        vals.append(int(x))
    return list(out.shape), vals


def _call(fn, *a, **k):
    try:
        return ("ok", fn(*a, **k))
    except ValueError as e:
        msg = str(e)
        for kind in ("InvalidPerm", "InvalidDim", "InvalidSys"):
            if kind in msg:
                return ("reject", kind)
        return ("raise", f"ValueError: {msg[:200]}")
    except Exception as e:  # any other exception on a valid call is a candidate failure
        return ("raise", f"{type(e).__name__}: {str(e)[:200]}")


def _compare(ctx, what, args_desc, impl, model):
    """impl: result of _call; model: driver json"""
    if "reject" in model:
        if impl[0] == "reject" and impl[1] == model["reject"]:
            return True
        return not ctx.violation(f"{what}: model rejects with {model['reject']} but implementation gives {impl[0]}:{str(impl[1])[:100]}",
                                 {"function": what, "args": args_desc, "impl": str(impl)[:400], "model": model, "theorem": "permuteVec_eq_spec"})
    if impl[0] != "ok":
        return not ctx.violation(f"{what}: implementation {impl[0]} ({impl[1]}) on a valid call; model returns the relabelled array",
                                 {"function": what, "args": args_desc, "impl": str(impl), "model_head": model["data"][:16], "theorem": "permuteVec_eq_spec"})
    try:
        shape, vals = _to_ints(impl[1])
    except ValueError as e:
        return not ctx.violation(f"{what}: output is not a rearrangement of the labels ({e})", {"function": what, "args": args_desc})
    if vals != model["data"] or int(np.prod(shape)) != int(np.prod(model["shape"])):
        bad = [i for i, (a, b) in enumerate(zip(vals, model["data"])) if a != b][:5]
        return not ctx.violation(
            f"{what}: output differs from tensor-factor relabelling at flat positions {bad}",
            {"function": what, "args": args_desc, "impl": vals[:64], "model": model["data"][:64], "theorem": "permuteVec_eq_spec / permuteMat_eq_spec"})
    return True


def _flag(v, *key):
    """the same truth value in one of the forms callers use for a boolean flag (bool / int 0,1 as the library itself passes / numpy bool as a
    comparison returns), chosen as a function of the case so that a run is reproducible without consuming the generator"""
    import zlib
    k = zlib.crc32(repr(key).encode()) % 3
    return (bool(v), int(bool(v)), np.bool_(bool(v)))[k]


def _scribble(obj):
    """overwrite a returned operator in place (what a caller may legitimately do with its own result)"""
    if sp.issparse(obj):
        if obj.data.size:
            obj.data[:] = -7
        return True
    if isinstance(obj, np.ndarray) and obj.flags.writeable and obj.size:
        obj[...] = -7
        return True
    return False


def check_permute(ctx, form, dims_r, dims_c, perm, row_only, inv, dtype, dim_form, sparse=False):
    n = len(perm)
    R, C = int(np.prod(dims_r)), int(np.prod(dims_c))
    if form == "vec1d":
        shape = [C]
    elif form == "col":
        shape = [R, 1]
    else:
        shape = [R, C]
    X = _label(shape, dtype)
    if dim_form == "omitted":
        dim_py, dim_js = None, None
    elif dim_form == "list":
        d = dims_c if form == "vec1d" else dims_r
        dim_py, dim_js = list(d), list(d)
    elif dim_form == "array":
        d = dims_c if form == "vec1d" else dims_r
        dim_py, dim_js = np.array(d), list(d)
    else:  # two-row
        dim_py, dim_js = [list(dims_r), list(dims_c)], [list(dims_r), list(dims_c)]
    Xin = sp.csr_matrix(X.real.astype(float)) if sparse else (present(ctx.rng, X, allow_dtype=False) if X.ndim == 2 else X)
    impl = _call(permute_systems, Xin, list(perm), dim_py, _flag(row_only, "ro", form, dims_r, dims_c, perm, dim_form), _flag(inv, "inv", form, dims_r, dims_c, perm, dim_form))
    args = {"shape": shape, "data": list(range(int(np.prod(shape)))), "perm": list(perm), "dim": dim_js,
            "row_only": int(row_only), "inv": int(inv)}
    model = ctx.lean().ask("permute_systems", args)
    desc = {"fn": "permute_systems", "form": form, "dims_r": dims_r, "dims_c": dims_c, "perm": perm, "row_only": row_only,
            "inv": inv, "dim_form": dim_form, "dtype": dtype, "sparse": sparse}
    d_eff = [x for x in (dims_c if form == "vec1d" else dims_r) if x > 1]
    nontriv = perm != sorted(perm) and (len(set(d_eff)) >= 2 or dims_r != dims_c)
    ctx.case(desc, nontriv, f"permute/{form}/{dim_form}/inv={int(inv)}/row_only={int(row_only)}")
    if sorted(perm) == list(range(n)):
        ctx.count("cycle_type/" + str(gen.cycle_type(perm)))
    del args["data"]
    ok = _compare(ctx, "permute_systems", desc, impl, model)
    # a relabelling moves entries and does nothing else: the same input times 2^-40 (entries ~1e-11, exact in floating point) must give the
    # result times 2^-40 - "clean-up" steps with absolute tolerances are invisible on labels of order 1..1000
    if ok and impl[0] == "ok" and not sparse and dtype in ("float64", "complex128") and ctx.evaluations % 5 == 0:
        outs = _call(permute_systems, np.asarray(X) * 2.0 ** -40, list(perm), dim_py, row_only, inv)
        ctx.count("permute/scaled/2^-40")
        if outs[0] != "ok" or not np.array_equal(np.asarray(outs[1]), np.asarray(impl[1]) * 2.0 ** -40):
            ctx.violation("permute_systems: the input scaled by 2^-40 does not give the output scaled by 2^-40", {"function": "permute_systems", "args": dict(desc, scale_exp=-40), "theorem": "permute_eq_spec (entries are moved, never changed)"})
            return False
    return ok


def check_swap(ctx, form, dims_r, dims_c, sys, row_only, dim_form):
    R, C = int(np.prod(dims_r)), int(np.prod(dims_c))
    shape = [C] if form == "vec1d" else ([R, 1] if form == "col" else [R, C])
    X = _label(shape, "float64")
    if dim_form == "omitted":
        dim_py, dim_js = None, None
    elif dim_form == "scalar":
        dim_py = int(dims_r[0])
        # the code builds [[d, r/d],[d, c/d]]
        dim_js = [[dims_r[0], (1 if form == "vec1d" else R) // dims_r[0]], [dims_r[0], C // dims_r[0]]] if form != "vec1d" else None
    elif dim_form == "list":
        d = dims_c if form == "vec1d" else dims_r
        dim_py, dim_js = list(d), list(d)
    else:
        dim_py, dim_js = [list(dims_r), list(dims_c)], [list(dims_r), list(dims_c)]
    sys_nd = bool(ctx.rng.integers(3) == 0)          # the documented forms of `sys`: list or ndarray
    sys_arg = np.array(sys) if sys_nd else list(sys)
    impl = _call(swap, X, sys_arg, dim_py, row_only)
    if sys_nd:
        # caller data must not be modified, and a second call with the same objects must give the same result
        again = _call(swap, X, sys_arg, dim_py, row_only)
        same = impl[0] == again[0] and (impl[0] != "ok" or np.array_equal(np.asarray(impl[1]), np.asarray(again[1])))
        if not np.array_equal(sys_arg, np.array(sys)) or not same:
            ctx.violation("swap: caller's `sys` array was modified / a repeated call with the same arguments gives a different result",
                          {"function": "swap", "args": {"fn": "swap", "form": form, "dims_r": dims_r, "dims_c": dims_c, "sys": sys, "row_only": row_only, "dim_form": dim_form},
                           "sys_after": sys_arg.tolist(), "theorem": "swap_eq_transposition (a function of its arguments)"})
    args = {"shape": shape, "data": list(range(int(np.prod(shape)))), "sys": list(sys), "dim": dim_js, "row_only": int(row_only)}
    model = ctx.lean().ask("swap", args)
    desc = {"fn": "swap", "form": form, "dims_r": dims_r, "dims_c": dims_c, "sys": sys, "row_only": row_only, "dim_form": dim_form}
    d_eff = dims_c if form == "vec1d" else dims_r
    nontriv = sys[0] != sys[1] and d_eff[sys[0] - 1] != d_eff[sys[1] - 1]
    ctx.case(desc, nontriv, f"swap/{form}/{dim_form}")
    return _compare(ctx, "swap", desc, impl, model)


def check_permop(ctx, dims, perm, inv, sparse):
    impl = _call(permutation_operator, list(dims), list(perm), _flag(inv, "inv", dims, perm, sparse), _flag(sparse, "sp", dims, perm, inv))
    model = ctx.lean().ask("permutation_operator", {"dim": list(dims), "perm": list(perm), "inv": int(inv)})
    desc = {"fn": "permutation_operator", "dims": dims, "perm": perm, "inv": inv, "sparse": sparse}
    ctx.case(desc, perm != sorted(perm) and len(set(d for d in dims if d > 1)) >= 2, f"permop/sparse={int(sparse)}/inv={int(inv)}")
    ok = _compare(ctx, "permutation_operator", desc, impl, model)
    if ok and impl[0] == "ok":
        # operator laws on the implementation side: P is a permutation matrix and acts like row_only
        P = impl[1].toarray() if sp.issparse(impl[1]) else np.array(impl[1], copy=True)
        N = P.shape[0]
        if not (np.array_equal(P @ P.T, np.eye(N)) and set(np.unique(P)) <= {0.0, 1.0}):
            ctx.violation("permutation_operator is not a permutation matrix", {"function": "permutation_operator", "args": desc})
        X = np.arange(N * 3).reshape(N, 3).astype(float)
        lhs = P @ X
        rhs = _call(permute_systems, X, list(perm), list(dims), True, inv)
        if rhs[0] != "ok" or not np.array_equal(lhs, rhs[1]):
            ctx.violation("row_only permute_systems differs from left multiplication by permutation_operator",
                          {"function": "permute_systems(row_only)", "args": desc, "theorem": "rowOnly_eq_permOp_mul"})
        # every call returns its own operator: overwriting a returned operator must not change what the next identical call returns
        if _scribble(impl[1]):
            again = _call(permutation_operator, list(dims), list(perm), inv, sparse)
            ctx.count("permop/fresh-object-checks")
            if again[0] != "ok" or not np.array_equal(again[1].toarray() if sp.issparse(again[1]) else np.asarray(again[1]), P):
                ctx.violation("permutation_operator: a second identical call returns something else after the first result was overwritten in place "
                              "(the returned operator is shared between calls)", {"function": "permutation_operator", "args": desc, "check": "fresh-object"})
    return ok


def check_swapop(ctx, dim, sparse):
    impl = _call(swap_operator, dim, sparse)
    dims = [dim, dim] if isinstance(dim, int) else list(dim)
    model = ctx.lean().ask("permutation_operator", {"dim": dims, "perm": [1, 0], "inv": 0})
    desc = {"fn": "swap_operator", "dim": dim, "sparse": sparse}
    ctx.case(desc, dims[0] != dims[1] and min(dims) > 1, f"swapop/sparse={int(sparse)}")
    ok = _compare(ctx, "swap_operator", desc, impl, model)
    if ok and impl[0] == "ok":
        P = impl[1].toarray() if sp.issparse(impl[1]) else np.array(impl[1], copy=True)
        if _scribble(impl[1]):
            again = _call(swap_operator, dim, sparse)
            if again[0] != "ok" or not np.array_equal(again[1].toarray() if sp.issparse(again[1]) else np.asarray(again[1]), P):
                ctx.violation("swap_operator: a second identical call returns something else after the first result was overwritten in place",
                              {"function": "swap_operator", "args": desc, "check": "fresh-object"})
    return ok


def check_roundtrip(ctx, dims, perm):
    """inverse option undoes the forward call when given the permuted dimensions (implementation side)"""
    N = int(np.prod(dims))
    X = np.arange(N * N).reshape(N, N)
    fwd = _call(permute_systems, X, list(perm), list(dims))
    desc = {"fn": "roundtrip", "dims": dims, "perm": perm}
    ctx.case(desc, perm != sorted(perm) and len(set(dims)) > 1, "roundtrip")
    if fwd[0] != "ok":
        return
    pd = [dims[p] for p in perm]
    back = _call(permute_systems, fwd[1], list(perm), pd, False, True)
    if back[0] != "ok" or not np.array_equal(back[1], X):
        ctx.violation("inverse call with the permuted dimensions does not undo the forward call",
                      {"function": "permute_systems", "args": desc, "theorem": "permute_inv_undoes"})


def corpus(ctx):
    # past failures / named corner cases, run first
    check_permute(ctx, "vec1d", [1, 1, 1], [4, 4, 4], [1, 2, 0], False, False, "int64", "omitted")  # float cube root
    check_permute(ctx, "square", [5, 5, 5], [5, 5, 5], [2, 0, 1], False, False, "float64", "omitted")
    check_permute(ctx, "square", [2, 3, 2], [2, 3, 2], [1, 2, 0], False, True, "complex128", "list")
    check_permute(ctx, "rect", [2, 3], [3, 2], [1, 0], False, False, "float64", "two")
    # very wide / very tall operators: more than 256 columns with few rows and the reverse (index vectors in a narrow integer type wrap)
    check_permute(ctx, "rect", [2, 2], [17, 16], [1, 0], False, False, "float64", "two")
    check_permute(ctx, "rect", [17, 16], [2, 2], [1, 0], False, True, "complex128", "two")
    check_permute(ctx, "rect", [2, 1, 2], [5, 11, 6], [2, 0, 1], False, False, "int64", "two")
    check_permute(ctx, "vec1d", [1, 1, 1, 1], [2, 3, 2, 4], [3, 0, 2, 1], False, True, "int64", "list")
    check_swap(ctx, "square", [2, 3, 4], [2, 3, 4], [1, 3], False, "list")
    check_permop(ctx, [2, 3, 2], [1, 2, 0], False, True)


def strict_fp_stream(ctx):
    """the four functions under NumPy's floating-point error state 'raise' (harness/exact.py StrictFP): a relabelling moves entries and may not
    evaluate anything that signals; zero, rank-one and labelled inputs, subsystems of dimension 1, sparse output forms.  Same outcome as
    in the default state, entry for entry."""
    def same(a, b):
        if a[0] != b[0]:
            return False
        if a[0] != "ok":
            return True
        x, y = a[1], b[1]
        x = x.toarray() if sp.issparse(x) else np.asarray(x)
        y = y.toarray() if sp.issparse(y) else np.asarray(y)
        return x.shape == y.shape and x.dtype == y.dtype and np.array_equal(x, y)
    u, v = np.arange(1.0, 4.0), np.arange(1.0, 5.0) * (1 + 1j)
    cases = [
        ("permute_systems", permute_systems, (np.zeros((12, 12)), [1, 2, 0], [2, 3, 2]), {}),
        ("permute_systems", permute_systems, (np.outer(np.kron(u, v[:2]), np.kron(u, v[:2]).conj()), [1, 0], [3, 2]), {}),
        ("permute_systems", permute_systems, (np.arange(24.0), [2, 0, 1], [2, 3, 4]), {}),
        ("permute_systems", permute_systems, (np.arange(36.0).reshape(6, 6), [1, 0, 2], [2, 1, 3]), {}),
        ("permute_systems", permute_systems, (np.arange(48.0).reshape(6, 8), [1, 0], [[2, 3], [4, 2]], False, True), {}),
        ("permute_systems", permute_systems, (np.arange(64.0).reshape(8, 8) * 1j, [2, 1, 0]), {}),
        ("swap", swap, (np.zeros((6, 6)), [1, 2], [2, 3]), {}),
        ("swap", swap, (np.arange(36.0).reshape(6, 6), [1, 2], [2, 3]), {}),
        ("swap", swap, (np.arange(16.0).reshape(4, 4),), {}),
        ("permutation_operator", permutation_operator, ([2, 1, 3], [2, 0, 1]), {}),
        ("permutation_operator", permutation_operator, ([2, 3], [1, 0], True, True), {}),
        ("permutation_operator", permutation_operator, (2, [1, 0]), {}),
        ("swap_operator", swap_operator, (3,), {}),
        ("swap_operator", swap_operator, ([2, 3], True), {}),
        ("swap_operator", swap_operator, (1,), {}),
    ]
    for name, fn, a, k in cases:
        plain = _call(fn, *[x.copy() if isinstance(x, np.ndarray) else x for x in a], **k)
        st = strict_fp_call(fn, *[x.copy() if isinstance(x, np.ndarray) else x for x in a], **k)
        strict = ("ok", st[1]) if st[0] == "ok" else (("reject", "x") if plain[0] == "reject" and "Invalid" in st[1] else ("raise", st[1]))
        ctx.case({"fn": name, "stream": "strict-fp", "args": [np.asarray(x).shape if isinstance(x, np.ndarray) else x for x in a]}, True, f"strict-fp/{name}")
        if not same(plain, strict):
            ctx.violation(f"{name}: value depends on NumPy's floating-point error state (default state: {plain[0]}; invalid/divide/overflow set to 'raise': {strict[0]} {strict[1] if strict[0] != 'ok' else ''})",
                          {"function": name, "args": {"fn": name, "stream": "strict-fp", "argv": [np.asarray(x).tolist() if isinstance(x, np.ndarray) and x.size <= 64 else str(np.asarray(x).shape) if isinstance(x, np.ndarray) else x for x in a]}, "check": "strict-fp"})


def run(ctx, model_ok=True):
    rng = ctx.rng
    corpus(ctx)
    strict_fp_stream(ctx)
    quick = ctx.tier == "quick"
    n_rand = 1500 if quick else 6000
    for it in range(n_rand):
        n = int(rng.choice([1, 2, 2, 3, 3, 3, 4, 4, 5]))
        form = str(rng.choice(["vec1d", "col", "square", "square", "rect"]))
        if n == 1 and form == "rect":
            form = "square"
        perm = gen.rand_perm(rng, n)
        inv = bool(rng.integers(2))
        dtype = str(rng.choice(DTYPES))
        cap = 1024 if form in ("vec1d", "col") else (48 if quick else 64)
        dims_r = gen.rand_dims(rng, n, 1, 4, cap)
        while int(np.prod(dims_r)) < 2:  # the property quantifies over totals >= 2
            dims_r = gen.rand_dims(rng, n, 1, 4, cap)
        row_only = False
        sparse = False
        if form == "vec1d":
            dims_c, dims_r = dims_r, [1] * n
            dim_form = str(rng.choice(["list", "array", "two"] if n > 1 else ["list", "array"]))
        elif form == "col":
            dims_c = [1] * n
            dim_form = str(rng.choice(["list", "array", "two"] if n > 1 else ["list", "array"]))
        elif form == "square":
            dims_c = list(dims_r)
            dim_form = str(rng.choice(["list", "array", "two"] if n > 1 else ["list", "array"]))
            row_only = bool(rng.integers(4) == 0)
            sparse = bool(rng.integers(5) == 0)
        else:
            dims_c = gen.rand_dims(rng, n, 1, 4, cap)
            while int(np.prod(dims_c)) < 2:
                dims_c = gen.rand_dims(rng, n, 1, 4, cap)
            dim_form = "two"
            row_only = bool(rng.integers(4) == 0)
        if rng.integers(12) == 0 and n > 1:
            # uniform dims with the dimension argument omitted
            d = int(rng.integers(2, 5 if n <= 3 else 3))
            dims_r = [d] * n
            dims_c = [d] * n
            if form == "vec1d":
                dims_r = [1] * n
            if form == "col":
                dims_c = [1] * n
            if form == "rect":
                form = "square"
            dim_form = "omitted"
            row_only = False
        if sparse and dtype in ("object",):
            dtype = "float64"
        check_permute(ctx, form, dims_r, dims_c, perm, row_only, inv, dtype, dim_form, sparse)
    # malformed stream
    for it in range(60 if quick else 300):
        n = int(rng.integers(2, 5))
        dims = gen.rand_dims(rng, n, 2, 3, 64)
        perm = gen.rand_perm(rng, n)
        kind = int(rng.integers(3))
        if kind == 0:
            perm[int(rng.integers(n))] = int(rng.integers(n))  # maybe duplicate
        elif kind == 1:
            dims2 = list(dims)
            dims2[0] += 1
            ctx.count("malformed/dim")
            check_permute(ctx, "square", dims, dims, perm, False, False, "float64", "list") if False else None
            # wrong product: compare rejection
            N = int(np.prod(dims))
            X = np.arange(N * N).reshape(N, N)
            impl = _call(permute_systems, X, perm, dims2)
            model = ctx.lean().ask("permute_systems", {"shape": [N, N], "data": list(range(N * N)), "perm": perm, "dim": dims2, "row_only": 0, "inv": 0})
            ctx.case({"fn": "permute_systems", "malformed": "dim", "dims": dims2, "perm": perm}, False, "malformed/dim")
            _compare(ctx, "permute_systems", {"malformed": "dim", "dims": dims2, "perm": perm}, impl, model)
            continue
        else:
            perm[0] = n  # out of range
        ctx.count("malformed/perm")
        check_permute(ctx, "square", dims, dims, perm, False, False, "float64", "list")
    # swap
    for it in range(300 if quick else 1500):
        n = int(rng.integers(2, 6))
        form = str(rng.choice(["vec1d", "col", "square", "rect"]))
        cap = 1024 if form in ("vec1d", "col") else 48
        dims_r = gen.rand_dims(rng, n, 1, 4, cap)
        dims_c = list(dims_r)
        dim_form = "list"
        if form == "vec1d":
            dims_c, dims_r = dims_r, [1] * n
        elif form == "col":
            dims_c = [1] * n
        elif form == "rect":
            dims_c = gen.rand_dims(rng, n, 1, 4, cap)
            dim_form = "two"
        s = [int(x) + 1 for x in rng.choice(n, size=2, replace=bool(rng.integers(8) == 0))]
        if form == "rect" and n != 2:
            # len(dim) of a 2 x n array is 2: only n == 2 is meaningful for the two-row form in swap
            dims_r, dims_c = dims_r[:2], dims_c[:2]
            s = [int(x) + 1 for x in rng.permutation(2)]
        check_swap(ctx, form, dims_r, dims_c, s, bool(rng.integers(4) == 0) and form in ("square", "rect"), dim_form)
    for d in range(1, 6):
        check_swap(ctx, "square", [d, d], [d, d], [1, 2], False, "omitted")
        check_swap(ctx, "vec1d", [1, 1], [d, d], [2, 1], False, "omitted")
    for d0, d1 in itertools.product(range(1, 5), repeat=2):
        check_swap(ctx, "square", [d0, d1], [d0, d1], [1, 2], False, "scalar")
    # operators
    for it in range(150 if quick else 600):
        n = int(rng.integers(1, 5))
        dims = gen.rand_dims(rng, n, 1, 4, 48)
        if int(np.prod(dims)) < 2:
            continue
        check_permop(ctx, dims, gen.rand_perm(rng, n), bool(rng.integers(2)), bool(rng.integers(2)))
    for d in range(2, 6):
        for s in (False, True):
            check_swapop(ctx, d, s)
    for d0, d1 in itertools.product(range(1, 5), repeat=2):
        if d0 * d1 < 2:
            continue
        check_swapop(ctx, [d0, d1], bool((d0 + d1) % 2))
    for it in range(100 if quick else 500):
        n = int(rng.integers(2, 5))
        dims = gen.rand_dims(rng, n, 1, 4, 48)
        if int(np.prod(dims)) >= 2:
            check_roundtrip(ctx, dims, gen.rand_perm(rng, n))
    if not quick:
        # exhaustive small configuration space: all perms for n <= 4 (n = 5: all perms, dims product <= 32)
        for n in range(1, 6):
            for dims in gen.all_dim_vectors(n, 1, 4, 64 if n <= 4 else 32):
                if int(np.prod(dims)) < 2:
                    continue
                for perm in itertools.permutations(range(n)):
                    for inv in (False, True):
                        check_permute(ctx, "vec1d", [1] * n, dims, list(perm), False, inv, "int64", "list")
                        if int(np.prod(dims)) <= 24:
                            check_permute(ctx, "square", dims, dims, list(perm), False, inv, "float64", "list")
        ctx.extra["exhaustive_small_space"] = "all perms x all dim vectors (entries 1..4, product <= 64; n=5: <= 32) x inv, vector form; product <= 24 also matrix form"


def replay(ctx, rec):
    a = rec.get("args", {})
    if a.get("fn") == "permute_systems" or rec.get("function") == "permute_systems":
        check_permute(ctx, a["form"], a["dims_r"], a["dims_c"], a["perm"], a["row_only"], a["inv"], a["dtype"], a["dim_form"], a.get("sparse", False))
    elif a.get("fn") == "swap":
        check_swap(ctx, a["form"], a["dims_r"], a["dims_c"], a["sys"], a["row_only"], a["dim_form"])
    elif a.get("fn") == "permutation_operator":
        check_permop(ctx, a["dims"], a["perm"], a["inv"], a["sparse"])
