"""C09, stream `prog_embedding`: feasibility embedding into the cvxpy programs that toqito builds for quantum hedging
(`QuantumHedging.{max,min}_prob_outcome_a_{primal,dual}`, one and two repetitions) and optimal cloning
(`optimal_clone(states, probs, num_reps, strategy)` -> `primal_problem` / `dual_problem`).

The value stream of c09.py compares the optimal VALUES returned by SCS (tolerance 1e-3) with intervals certified by the verified Lean
checkers.  This stream ties the CONSTRAINT SYSTEMS to the Lean model: the `cvxpy.Problem` object each function builds is recorded
(`c09._capture`: `cvxpy.Problem.solve` replaced by a recorder in this process, restored afterwards), its single variable is identified
(anything unexpected -> `CorrespondenceBroken`), exact points are written into the variable with `save_value`, and

 (a) every captured constraint and every declared variable attribute must hold (`c09._residuals`, tolerance 1e-10 * scale: the points are
     exact dyadic matrices converted to float),
 (b) the captured objective expression must take the value the verified Lean checker returns for the point (exact rational Re tr(Q X) of
     `c09_hedge_primal` / `c09_hedge2_primal` / `c09_clone2_primal`, tr Y of `c09_hedge*_max_dual` / `_min_dual` / `c09_clone2_max_dual`) to 1e-10:
     a point accepted by the Lean checker (`checkHedgeMaxPrimal_sound`, `checkHedgeMinPrimal_sound`, `checkHedgeMaxDual_sound`,
     `checkHedgeMinDual_sound`, two repetitions through `checkHedge*_reindex_sound`) is a feasible point of the program toqito builds and
     has the same objective value there,
 (c) negative controls: points that are NOT feasible (wrong partial trace: a multiple of a matrix unit added, the point left in the order
     (outputs, inputs); dual point shifted by 2^-10 * 1 beyond its slack; transposed dual point for complex Q) must be rejected by the
     captured constraints whenever an independent numpy replica of the modelled constraint is violated by more than 1e-6; a control that is
     not detected is an `InfraError` (blind evaluation machinery), raised by the parent after the pool unless the same run of this stream
     reported failing inputs (a program that is wrong at feasible points may accept control points too); controls run only after the
     feasible point itself passed (a) and (b).

Points: reference solves (untrusted, CLARABEL) on the operator in the order (outputs, inputs), rounded and repaired exactly as the value
stream does (`c09.repair_primal`, Y +- 2^-23 * 1), certified by the Lean checker; for two repetitions additionally the PRODUCT points
X1 (x) X2 and Y1 (x) Y2 of two certified single-shot points (product of feasible points is feasible, values multiply; Y1 (x) Y2 for the
max-dual needs Q1, Q2 >= 0), compared with the product of the two single-shot Lean values to 1e-9.

Orders.  Hedging n = 2: toqito's variable lives on Y1 X1 Y2 X2; a point Xs in the order (outputs, inputs) = Y1 Y2 X1 X2 is
X = Xs[ix(inv, inv)], inv = argsort(SIG_H2).  Cloning n = 2, dual: Y on X1 X2, constraint in the order Y1 Y2 Z1 Z2 X1 X2.
Cloning n = 2, primal (see CLONE2_NOTE): the objective operator is pperm (Q1 (x) Q1) pperm^H (order Y1 Y2 Z1 Z2 X1 X2) but the partial
trace keeps positions 2 and 5 of the variable; the point plugged is the certified point in the order (outputs, inputs) with tensor
positions 2 and 4 exchanged."""
from __future__ import annotations

import time as _t
import warnings
from fractions import Fraction

import numpy as np

from ..cert import DM, chol_factor
from ..common import CorrespondenceBroken, InfraError
from ..exact import Pure, call_rng, describe, present_list, present_nd
from ..pool import Result, fold, run_pool, worker_driver
from . import c09 as base

PROG_TOL = 1e-10      # constraints / objective at certified points (exact dyadic points converted to float)
PROD_TOL = 1e-9       # objective at product points against the product of two Lean values
NEG_BITS = 10         # negative controls: shift of the dual point / weight of the matrix unit = 2^-NEG_BITS
NEG_MARGIN = 1e-6     # a negative control is applicable when an independent numpy replica of the constraint is violated by more than this
THM_PROD = ("hedging_reps_product_feasible / hedging_reps_dual_product / hedge2_product_bracket / clone2_product_bracket (product of feasible points is "
            "feasible and the values multiply; single-shot factors certified by checkHedge*Primal_sound / checkHedgeMaxDual_sound)")
CLONE2_NOTE = ("optimal_clone(num_reps=2, strategy=True): the objective of primal_problem is tr(real(pperm (Q1 (x) Q1)^H pperm^H X)), an operator in the order "
               "Y1 Y2 Z1 Z2 X1 X2, but its constraint partial_trace(X, [0,1,3,4], [2]*6) == 1 keeps positions 2 and 5 of X, which in that order are Z1 and X2, "
               "not X1 and X2.  The program has the right optimum only because Q1 = sum p |psi psi conj(psi)><psi psi conj(psi)| is invariant under exchanging "
               "its second and third tensor factor for REAL states (the only ones the function accepts).  The embedding therefore plugs the certified point in "
               "the order (outputs, inputs) with tensor positions 2 and 4 (Z1 and X1) exchanged: feasible, objective = the Lean value; the un-exchanged point "
               "violates the equality constraint (negative control) and the point in the order of Q1 (x) Q1 is feasible with another objective value; the "
               "invariance of Q1 is checked on every instance (S Q1 S^T == Q1 to 1e-15)")


# ------------------------------------------------------------------------------------------------
# index helpers (exact on float arrays: pure gathers)


def _bits(p, w):
    return [(p >> (w - 1 - k)) & 1 for k in range(w)]


def _swap_idx(w, i, j):
    """index array of the permutation exchanging tensor positions i and j of w qubits (an involution)"""
    out = []
    for p in range(1 << w):
        b = _bits(p, w)
        b[i], b[j] = b[j], b[i]
        out.append(sum(v << (w - 1 - k) for k, v in enumerate(b)))
    return np.array(out)


SW_C2 = _swap_idx(6, 2, 4)    # W = permutation_operator(2, [0, 1, 4, 3, 2, 5]) as a gather
SW_Q1 = _swap_idx(3, 1, 2)    # S = permutation_operator(2, [0, 2, 1])


def _perm(M, idx):
    return np.asarray(M)[np.ix_(idx, idx)]


def _ptrace_keep(M, w, keep):
    """partial trace of a 2^w x 2^w matrix over all qubit positions not in `keep` (numpy replica, independent of toqito and cvxpy)"""
    M = np.asarray(M, dtype=complex).reshape([2] * (2 * w))
    row = list(range(w))
    col = [w + k if k in keep else k for k in range(w)]
    out = [k for k in range(w) if k in keep] + [w + k for k in range(w) if k in keep]
    d = 1 << len(keep)
    return np.einsum(M, [*row, *col], out).reshape(d, d)


def _dm_kron(A: DM, B: DM) -> DM:
    kr = lambda x, y: np.kron(np.asarray(x, dtype=object), np.asarray(y, dtype=object))  # noqa: E731
    return DM(kr(A.re, B.re) - kr(A.im, B.im), kr(A.re, B.im) + kr(A.im, B.re), A.e + B.e)


def _dm_real(A: DM) -> DM:
    z = np.zeros(A.im.shape, dtype=object)
    z[...] = 0
    return DM(A.re.copy(), z, A.e)


def _frac(r):
    return Fraction(int(r["ok"][0]), int(r["ok"][1]))


# ------------------------------------------------------------------------------------------------
# certified points (adapted from c09.certify_programs: same rounding / repair, but the exact points are returned)


def certified_points(drv, Q0: DM, a, b, mode, want_min, refs, eps_bits=22, shift_bits=23, real_dual=False):
    """mode 'n1' | 'hedge2' | 'clone2' as in c09.certify_programs.  Returns {name: point} for name in max_primal, max_dual (min_primal, min_dual):
    primal point: {"Xs": DM (order outputs, inputs), "X": DM (toqito's order, what the Lean op receives), "val": Fraction | None, "why"};
    dual point:   {"Y": DM, "val": Fraction | None, "why"}"""
    n = a * b
    sig = {"n1": np.arange(n), "hedge2": base.SIG_H2, "clone2": base.SIG_C2}[mode]
    inv = np.argsort(sig)
    Qs = base._dm_perm(Q0, sig)
    pre = {"n1": "c09_hedge", "hedge2": "c09_hedge2", "clone2": "c09_clone2"}[mode]
    ab = {"a": a, "b": b} if mode == "n1" else {}

    def primal(Xf):
        Xs = base.repair_primal(np.asarray(Xf, dtype=complex), a, b, eps_bits)
        X = base._dm_perm(Xs, inv)
        pt = {"Xs": Xs, "X": X, "val": None, "why": None}
        L = chol_factor(Xs.to_float(), bits=44)
        if L is None:
            pt["why"] = "cholesky"
            return pt
        r = drv.ask(pre + "_primal", dict(ab, Q=Q0.json(), X=X.json(), L=L.json()))
        if "ok" in r:
            pt["val"] = _frac(r)
        else:
            pt["why"] = str(r.get("reject", "?"))
        return pt

    def dual(Yf, is_max):
        Yf = np.asarray(Yf, dtype=complex)
        Y = DM.from_float((Yf + Yf.conj().T) / 2, 40).herm_part()
        if real_dual:
            Y = _dm_real(Y)
        Y = Y + DM.eye(b).scale_dy(1, shift_bits) if is_max else Y - DM.eye(b).scale_dy(1, shift_bits)
        pt = {"Y": Y, "val": None, "why": None}
        S = (base.kron_I(a, Y) - Qs) if is_max else (Qs - base.kron_I(a, Y))
        L = chol_factor(S.to_float(), bits=44)
        if L is None:
            pt["why"] = "cholesky"
            return pt
        r = drv.ask(pre + ("_max_dual" if is_max else "_min_dual"), dict(ab, Q=Q0.json(), Y=Y.json(), L=L.json()))
        if "ok" in r:
            pt["val"] = _frac(r)
        else:
            pt["why"] = str(r.get("reject", "?"))
        return pt

    out = {"max_primal": primal(refs["Xmax"]), "max_dual": dual(refs["Ymax"], True)}
    if want_min:
        out["min_primal"] = primal(refs["Xmin"])
        out["min_dual"] = dual(refs["Ymin"], False)
    return out


# ------------------------------------------------------------------------------------------------
# captured program: identification and evaluation


def _identify(probs, what, var_shape, kinds, shapes=None):
    if len(probs) != 1:
        raise CorrespondenceBroken(f"{what}: expected one cvxpy problem, captured {len(probs)}")
    P = probs[0]
    vs = P.variables()
    if len(vs) != 1:
        raise CorrespondenceBroken(f"{what}: expected one variable, the captured problem has {[(v.name(), v.shape) for v in vs]}")
    v = vs[0]
    if tuple(v.shape) != tuple(var_shape):
        raise CorrespondenceBroken(f"{what}: the variable has shape {tuple(v.shape)}, the modelled program has {tuple(var_shape)}")
    got = sorted(type(c).__name__ for c in P.constraints)
    if got != sorted(kinds):
        raise CorrespondenceBroken(f"{what}: constraints of the captured problem are {got}, the modelled program has {sorted(kinds)}")
    for c in P.constraints:
        want = (shapes or {}).get(type(c).__name__)
        if want is not None and tuple(c.args[0].shape) != tuple(want):
            raise CorrespondenceBroken(f"{what}: the {type(c).__name__} constraint acts on an expression of shape {tuple(c.args[0].shape)}, the modelled program has {tuple(want)}")
    return P, v


def _rows_of(P, kind):
    return [i for i, c in enumerate(P.constraints) if type(c).__name__ == kind]


class _Prog:
    """one captured program with its bookkeeping"""

    def __init__(self, res, P, var, fn_name, branch, args, sense, primal, theorem):
        self.res, self.P, self.var = res, P, var
        self.fn, self.branch, self.args = fn_name, branch, args
        self.primal, self.theorem = primal, theorem
        self.worst = 0.0
        self.worst_obj = 0.0
        got = type(P.objective).__name__
        res.count("prog/problems-captured")
        res.count("prog/constraints-captured", len(P.constraints))
        if got != sense:
            res.violation(f"{fn_name}: the captured program is a {got} problem, the modelled program is a {sense} problem",
                          {"function": fn_name, "args": dict(args, fn=fn_name), "impl": got, "model": sense, "theorem": theorem})

    def evaluate(self, val):
        self.var.save_value(np.array(val, dtype=complex))
        return base._residuals(self.P)

    def plug(self, label, val, lean: Fraction, tol_obj, nontrivial, scale, theorem=None, extra=None):
        """writes the point, checks (a) and (b); returns True when both hold"""
        res = self.res
        desc = dict(self.args, fn=self.fn, point=label)
        res.case(desc, nontrivial, f"{self.branch}/{label}")
        res.count("prog/points-plugged")
        w, rows = self.evaluate(val)
        tol = PROG_TOL * scale
        prodpt = label.startswith("product")
        origin = "product of two single-shot points accepted by the verified Lean checker" if prodpt else "point accepted by the verified Lean checker"
        bad = base._bad(rows, tol)
        obj = float(np.real(self.P.objective.expr.value))
        ok = True
        if bad:
            ok = False
            res.violation(
                f"{self.fn}: the {label} {'primal' if self.primal else 'dual'} point ({origin}) violates {len(bad)} of the {len(self.P.constraints)} constraints / "
                f"variable declarations of the program the code builds, e.g. {bad[0]}: the program excludes a feasible point of the modelled program",
                {"function": self.fn, "args": desc, "violated": bad[:6], "lean_value": str(lean), "tolerance": tol, "theorem": theorem or self.theorem, **(extra or {})})
        else:
            self.worst = max(self.worst, w)
        dev = abs(Fraction(obj) - lean) if np.isfinite(obj) else Fraction(1)
        if not dev <= Fraction(tol_obj):
            ok = False
            res.violation(
                f"{self.fn}: the captured objective at the {label} point is {obj!r}; " + (
                    f"the product of the two single-shot values returned by the verified Lean checker is {float(lean)!r}" if prodpt else
                    f"the verified Lean checker returns {float(lean)!r} ({'Re tr(Q X)' if self.primal else 'tr Y'}) for the same point"),
                {"function": self.fn + " (objective)", "args": desc, "impl": obj, "model": str(lean), "tolerance": tol_obj, "theorem": theorem or self.theorem, **(extra or {})})
        else:
            self.worst_obj = max(self.worst_obj, float(dev))
        return ok

    def control(self, key, val, rows_kind, tol):
        """negative control: the point must violate a captured constraint of kind rows_kind"""
        _, rows = self.evaluate(val)
        idx = set(_rows_of(self.P, rows_kind))
        hit = [r for r in base._bad(rows, tol) if r[0] in idx]
        return bool(hit)

    def finish(self):
        self.res.count(f"prog/max-residual-bucket/{base._bucket(self.worst)}")
        self.res.count(f"prog/max-objective-deviation-bucket/{base._bucket(self.worst_obj)}")


def _control_failed(res, prog, msg):
    """a negative control that is not detected: recorded (the parent raises InfraError after the pool unless the same run has reported
    failing inputs of this stream: a program that excludes feasible points / has another objective may also accept the control points)"""
    res.count("prog/neg/failed")
    key = "prog/neg/failed/" + prog.fn + ": " + msg.split(": ", 1)[-1].split(" has a partial trace off by")[0].split(" beyond its slack")[0].split(" violates the modelled constraint by")[0][:90]
    if key not in res.counts:
        res.note(msg[:400])
    res.count(key)
    return False


def _neg_primal(prog: _Prog, res, Xf, w, keep, tag, misordered=None):
    """X + 2^-NEG_BITS E_00 (still Hermitian and positive, partial trace wrong) must violate the equality constraint; the same for a
    mis-ordered copy of the point when its partial trace (numpy replica, qubit positions `keep` of w kept) is off by more than NEG_MARGIN"""
    X2 = np.array(Xf, dtype=complex)
    X2[0, 0] += 2.0 ** -NEG_BITS
    if not prog.control("unit", X2, "Equality", PROG_TOL):
        return _control_failed(res, prog, f"negative control ({prog.fn}): the point X + 2^-{NEG_BITS} E_00 passes the captured equality constraint: the evaluation machinery is blind "
                         "or the program no longer fixes the partial trace")
    res.count(f"prog/neg/{tag}/primal-matrix-unit-detected")
    res.count("prog/neg/detected")
    # the same with the trace unchanged: + 2^-NEG_BITS (E_00 - E_jj), j = the same output with another input (last qubit position is an input
    # in every program here), so that Tr_outputs changes by 2^-NEG_BITS (|0><0| - |1><1|) on that input
    X3 = np.array(Xf, dtype=complex)
    X3[0, 0] += 2.0 ** -NEG_BITS
    X3[1, 1] -= 2.0 ** -NEG_BITS
    if not prog.control("traceless", X3, "Equality", PROG_TOL):
        return _control_failed(res, prog, f"negative control ({prog.fn}): the point X + 2^-{NEG_BITS} (E_00 - E_11) (trace unchanged, partial trace wrong) passes the captured equality "
                         "constraint: the evaluation machinery is blind or the program no longer fixes the partial trace")
    res.count(f"prog/neg/{tag}/primal-traceless-detected")
    res.count("prog/neg/detected")
    if misordered is not None:
        _neg_order(prog, res, misordered, w, keep, tag, "primal-misordered")


def _neg_order(prog: _Prog, res, Xmis, w, keep, tag, key):
    """a point left in another order of the tensor factors must violate the equality constraint whenever its partial trace (numpy replica:
    qubit positions `keep` of w kept) is off by more than NEG_MARGIN (symmetric instances, e.g. Wiesner's, are legitimately not applicable)"""
    d = 1 << len(keep)
    dev = float(np.max(np.abs(_ptrace_keep(Xmis, w, keep) - np.eye(d))))
    if dev > NEG_MARGIN:
        if not prog.control("order", Xmis, "Equality", PROG_TOL):
            return _control_failed(res, prog, f"negative control ({prog.fn}, {key}): the point in the wrong order of tensor factors has a partial trace off by {dev:.3g} "
                             "but passes the captured equality constraint")
        res.count(f"prog/neg/{tag}/{key}-detected")
        res.count("prog/neg/detected")
    else:
        res.count(f"prog/neg/{tag}/{key}-not-applicable")


def _neg_dual(prog: _Prog, res, Yf, Qs_f, a, is_max, cplx, tag):
    """Y -/+ 2^-NEG_BITS 1 must violate the PSD constraint when the slack of Y is smaller; Y^T for complex Q when it violates the modelled constraint"""
    t = 2.0 ** -NEG_BITS
    b = Yf.shape[0]
    slack_min = _slack_min(Qs_f, a, Yf, is_max)
    if slack_min < t - NEG_MARGIN:
        Y2 = Yf - t * np.eye(b) if is_max else Yf + t * np.eye(b)
        if not prog.control("shift", Y2, "PSD", PROG_TOL):
            return _control_failed(res, prog, f"negative control ({prog.fn}): the dual point shifted by 2^-{NEG_BITS} beyond its slack {slack_min:.3g} passes the captured PSD constraint")
        res.count(f"prog/neg/{tag}/dual-shift-detected")
        res.count("prog/neg/detected")
    else:
        res.count(f"prog/neg/{tag}/dual-shift-not-applicable")
    if cplx:
        # Y^T: infeasible in general for complex Q; legitimately feasible when Y is real or the transposed point happens to keep a slack
        # (numpy replica of the modelled constraint 1 (x) Y^T - Qs in the order (outputs, inputs) decides whether the control applies)
        st = _slack_min(Qs_f, a, Yf.T, is_max)
        hit = prog.control("transpose", Yf.T, "PSD", PROG_TOL)
        if st < -NEG_MARGIN:
            if not hit:
                return _control_failed(res, prog, f"negative control ({prog.fn}): the transposed dual point violates the modelled constraint by {-st:.3g} but passes the captured PSD constraint")
            res.count(f"prog/neg/{tag}/dual-transpose-detected")
            res.count("prog/neg/detected")
        else:
            res.count(f"prog/neg/{tag}/dual-transpose-not-applicable" + ("-real-Y" if float(np.max(np.abs(Yf.imag))) < 1e-9 else "-slack-kept"))


def _slack_min(Qs_f, a, Yf, is_max):
    S = np.kron(np.eye(a), Yf) - Qs_f
    if not is_max:
        S = -S
    return float(np.linalg.eigvalsh((S + S.conj().T) / 2)[0])


def _away(v, lo, hi):
    return bool(lo + 1e-2 <= v <= hi - 1e-2)


# ------------------------------------------------------------------------------------------------
# hedging

HEDGE_FNS = (("max_prob_outcome_a_primal", "max_primal", "Maximize"), ("max_prob_outcome_a_dual", "max_dual", "Minimize"),
             ("min_prob_outcome_a_primal", "min_primal", "Minimize"), ("min_prob_outcome_a_dual", "min_dual", "Maximize"))
HEDGE_THM = {"max_primal": "checkHedgeMaxPrimal_sound", "max_dual": "checkHedgeMaxDual_sound", "min_primal": "checkHedgeMinPrimal_sound", "min_dual": "checkHedgeMinDual_sound"}


def _herm_exact(Q, cplx):
    Q0 = DM.exact_float(Q)
    if not Q0.is_herm():
        Q0 = Q0.herm_part()
        Q = Q0.to_float() if cplx else Q0.to_float().real
    return Q, Q0


def work_prog_hedge(task, res: Result):
    from toqito.nonlocal_games.quantum_hedging import QuantumHedging
    warnings.filterwarnings("ignore")
    inst = task
    drv = worker_driver()
    n, cplx = int(inst["n"]), bool(inst["cplx"])
    Q, Q0 = _herm_exact(np.asarray(inst["Q"]), cplx)
    a = b = 2 ** n
    mode = "n1" if n == 1 else "hedge2"
    Qf = Q0.to_float()
    sig = np.arange(a * b) if n == 1 else base.SIG_H2
    Qs = _perm(Qf, sig)
    factors = inst.get("factors")
    args = {"part": "prog", "sub": "hedge", "kind": inst["kind"], "n": n, "cplx": cplx, "Q": base._ri(Q), "pres": inst.get("pres"),
            "factors": [base._ri(f) for f in factors] if factors else None}
    lam = float(np.linalg.eigvalsh(Qf)[-1])
    trq = float(np.trace(Qf).real) / a
    differ = bool(factors) and not np.array_equal(np.asarray(factors[0]), np.asarray(factors[1]))
    # ---- points
    try:
        refs = base.ref_points(Qs, a, b, True)
        pts = certified_points(drv, Q0, a, b, mode, True, refs)
    except RuntimeError:
        res.count("prog/uncertified/hedge-ref-solve")
        pts = {}
    prod = {}
    if factors and n == 2:
        try:
            fp = []
            for F in factors:
                F, F0 = _herm_exact(np.asarray(F), np.iscomplexobj(F))
                fp.append(certified_points(drv, F0, 2, 2, "n1", True, base.ref_points(F0.to_float(), 2, 2, True)))
            for key in ("max_primal", "min_primal"):
                if fp[0][key]["val"] is not None and fp[1][key]["val"] is not None:
                    # Q = Q1 (x) Q2 on Y1 X1 Y2 X2: X1 (x) X2 is in toqito's order
                    prod[key] = (_dm_kron(fp[0][key]["X"], fp[1][key]["X"]), fp[0][key]["val"] * fp[1][key]["val"])
            if fp[0]["max_dual"]["val"] is not None and fp[1]["max_dual"]["val"] is not None:
                # 1 (x) Y1 >= Q1 >= 0 and 1 (x) Y2 >= Q2 >= 0: pi (1 (x) Y1 (x) Y2) pi^* = (1 (x) Y1) (x) (1 (x) Y2) >= Q1 (x) Q2
                prod["max_dual"] = (_dm_kron(fp[0]["max_dual"]["Y"], fp[1]["max_dual"]["Y"]), fp[0]["max_dual"]["val"] * fp[1]["max_dual"]["val"])
        except RuntimeError:
            res.count("prog/uncertified/hedge-factor-ref-solve")
    # ---- the programs
    prng = call_rng(inst.get("pres"), "prog-hedge")
    a_Q = present_nd(prng, np.array(Q, copy=True))
    guard = Pure(a_Q)
    h = QuantumHedging(a_Q, n)
    broken = []
    for name, key, sense in HEDGE_FNS:
        primal = key.endswith("primal")
        is_max = key.startswith("max")
        fn_name = f"QuantumHedging.{name}"
        branch = f"prog/hedge/n{n}/{key}/{'c' if cplx else 'r'}"
        theorem = HEDGE_THM[key] + ("" if n == 1 else " via checkHedge" + ("Primal" if primal else ("MaxDual" if is_max else "MinDual")) + "_reindex_sound (hedgeSigma2)")
        try:
            probs = base._capture(getattr(h, name))
        except Exception as e:  # noqa: BLE001
            res.case(dict(args, fn=fn_name), True, branch + "/raise")
            res.violation(f"{fn_name} (n={n}) raises {type(e).__name__}: {str(e)[:160]} while building its program",
                          {"function": fn_name, "args": dict(args, fn=fn_name), "exception": f"{type(e).__name__}: {str(e)[:300]}", "presentation": describe(a_Q), "theorem": theorem})
            continue
        if guard is not None and guard.modified() is not None:
            res.violation(f"{fn_name}: caller's arguments were modified while the program was built ({guard.modified()})",
                          {"function": fn_name, "args": dict(args, fn=fn_name), "modified": guard.modified(), "presentation": describe(a_Q), "check": "purity"})
            guard = None
        try:
            P, var = _identify(probs, f"{fn_name} (n={n})", (4 ** n, 4 ** n) if primal else (2 ** n, 2 ** n), ["Equality", "PSD"] if primal else ["PSD"],
                               {"Equality": (2 ** n, 2 ** n), "PSD": (4 ** n, 4 ** n)})
        except CorrespondenceBroken as e:   # the other programs of the instance are still examined
            broken.append(str(e))
            continue
        prog = _Prog(res, P, var, fn_name, branch, args, sense, primal, theorem)
        lo_hi = (trq, b * lam) if is_max else (0.0, trq)
        pt = pts.get(key)
        if pt is None or pt["val"] is None:
            res.count(f"prog/uncertified/hedge/{key}:{(pt or {}).get('why', 'ref')}"[:70])
        elif primal:
            Xf, Xsf = pt["X"].to_float(), pt["Xs"].to_float()
            scale = max(1.0, float(np.max(np.abs(Xf))), float(np.max(np.abs(Qf))))
            if prog.plug("certified", Xf, pt["val"], PROG_TOL * scale, cplx or differ or _away(float(pt["val"]), *lo_hi), scale):
                _neg_primal(prog, res, Xf, 2 * n, [2 * k + 1 for k in range(n)], f"hedge/n{n}", misordered=Xsf if n == 2 else None)
        else:
            Yf = pt["Y"].to_float()
            scale = max(1.0, float(np.max(np.abs(Yf))), float(np.max(np.abs(Qf))))
            if prog.plug("certified", Yf, pt["val"], PROG_TOL * scale, cplx or differ or _away(float(pt["val"]), *lo_hi), scale):
                _neg_dual(prog, res, Yf, Qs, a, is_max, cplx, f"hedge/n{n}")
        if key in prod:
            Pd, val = prod[key]
            Pf = Pd.to_float()
            scale = max(1.0, float(np.max(np.abs(Pf))), float(np.max(np.abs(Qf))))
            prog.plug("product", Pf, val, PROD_TOL * scale, True, scale, theorem=THM_PROD)
        prog.finish()
    if broken:
        raise CorrespondenceBroken(" | ".join(sorted(set(broken))))


# ------------------------------------------------------------------------------------------------
# cloning


def _clone_q1(states, probs):
    Q1f = base.clone_q_float(states, probs).real
    Q1_0 = DM.exact_float(Q1f)
    if not Q1_0.is_herm():
        Q1_0 = Q1_0.herm_part()
    return Q1_0.to_float().real, Q1_0


def work_prog_clone(task, res: Result):
    import importlib
    oc = importlib.import_module("toqito.state_opt.optimal_clone")
    warnings.filterwarnings("ignore")
    inst = task
    drv = worker_driver()
    states = [np.asarray(s, dtype=float).reshape(2, 1) for s in inst["states"]]
    probs = [float(p) for p in inst["probs"]]
    n = int(inst["n"])
    args = {"part": "prog", "sub": "clone", "kind": inst["kind"], "n": n, "states": [s.reshape(-1).tolist() for s in states], "probs": probs, "pres": inst.get("pres")}
    Q1f, Q1_0 = _clone_q1(states, probs)
    sym = float(np.max(np.abs(_perm(Q1f, SW_Q1) - Q1f)))
    # ---- single-shot points: near-optimal (X1, Y1) and a second feasible pair (X1', Y1') well inside the feasible sets
    p1 = p1b = None
    try:
        r1 = base.ref_points(Q1f, 4, 2, False)
        r1["Ymax"] = np.asarray(r1["Ymax"]).real   # Q real: the real part of a feasible Hermitian Y is feasible; only real(Y) enters toqito's program
        p1 = certified_points(drv, Q1_0, 4, 2, "n1", False, r1, real_dual=True)
        p1b = certified_points(drv, Q1_0, 4, 2, "n1", False, r1, eps_bits=3, shift_bits=3, real_dual=True)
    except RuntimeError:
        res.count("prog/uncertified/clone-ref-solve")
    if n == 1:
        Qf, a, b = Q1f, 4, 2
    else:
        Qf = np.kron(Q1f, Q1f)
        a, b = 16, 4
    Q0 = DM.exact_float(Qf)
    if not Q0.is_herm():
        Q0 = Q0.herm_part()
    Qf = Q0.to_float().real
    sig = np.arange(8) if n == 1 else base.SIG_C2
    Qs = _perm(Qf, sig)
    lam = float(np.linalg.eigvalsh(Qf)[-1])
    trq = float(np.trace(Qf)) / a
    lo_hi = (trq, min(1.0, b * lam))
    ok1 = p1 is not None and all(p1[k]["val"] is not None for k in ("max_primal", "max_dual"))
    ok1b = p1b is not None and all(p1b[k]["val"] is not None for k in ("max_primal", "max_dual"))
    pts2 = None
    if n == 2 and ok1:
        X1f, Y1f = p1["max_primal"]["Xs"].to_float(), p1["max_dual"]["Y"].to_float()
        refs2 = {"Xmax": _perm(np.kron(X1f, X1f), base.SIG_C2), "Ymax": np.kron(Y1f, Y1f)}
        pts2 = certified_points(drv, Q0, 16, 4, "clone2", False, refs2, real_dual=True)
    broken = []
    for name, strat, sense in (("primal", True, "Maximize"), ("dual", False, "Minimize")):
        primal = strat
        fn_name = f"optimal_clone(strategy={strat}, num_reps={n})"
        branch = f"prog/clone/n{n}/{name}"
        theorem = ("checkHedgeMaxPrimal_sound" if primal else "checkHedgeMaxDual_sound") + " / cloning_weak_duality" + (
            "" if n == 1 else " via checkHedge" + ("Primal" if primal else "MaxDual") + "_reindex_sound (cloneSigma2)")
        a_states, a_probs = present_list(call_rng(inst.get("pres"), "prog-clone", name), states), list(probs)
        guard = Pure(a_states, a_probs)
        try:
            captured = base._capture(lambda: oc.optimal_clone(a_states, a_probs, n, strat))
        except Exception as e:  # noqa: BLE001
            res.case(dict(args, fn=fn_name), True, branch + "/raise")
            res.violation(f"{fn_name} raises {type(e).__name__}: {str(e)[:160]} while building its program",
                          {"function": "optimal_clone", "args": dict(args, fn=fn_name, strategy=strat), "exception": f"{type(e).__name__}: {str(e)[:300]}", "presentation": describe(a_states), "theorem": theorem})
            continue
        if guard.modified() is not None:
            res.violation(f"{fn_name}: caller's arguments were modified while the program was built ({guard.modified()})",
                          {"function": "optimal_clone", "kind": "purity", "args": dict(args, fn=fn_name, strategy=strat), "modified": guard.modified(), "presentation": describe(a_states), "check": "purity"})
        try:
            P, var = _identify(captured, fn_name, (8 ** n, 8 ** n) if primal else (2 ** n, 2 ** n), ["Equality", "PSD"] if primal else ["PSD"],
                               {"Equality": (2 ** n, 2 ** n), "PSD": (8 ** n, 8 ** n)})
        except CorrespondenceBroken as e:
            broken.append(str(e))
            continue
        pargs = dict(args, strategy=strat)
        prog = _Prog(res, P, var, fn_name, branch, pargs, sense, primal, theorem)
        qmax = float(np.max(np.abs(Qf)))
        if n == 1:
            for label, pp, okp in (("certified", p1, ok1), ("interior", p1b, ok1b)):
                if not okp:
                    res.count(f"prog/uncertified/clone/n1/{name}/{label}")
                    continue
                pt = pp["max_primal" if primal else "max_dual"]
                Vf = (pt["X"] if primal else pt["Y"]).to_float()
                scale = max(1.0, float(np.max(np.abs(Vf))), qmax)
                ok = prog.plug(label, Vf, pt["val"], PROG_TOL * scale, _away(float(pt["val"]), *lo_hi), scale)
                if ok and label == "certified":
                    if primal:
                        _neg_primal(prog, res, Vf, 3, [2], "clone/n1")
                    else:
                        _neg_dual(prog, res, Vf, Qs, a, True, False, "clone/n1")
        else:
            if primal and not sym <= 1e-15:
                res.count("prog/clone2/primal-not-symmetric")
                prog.finish()
                continue
            # generic certified point of the two-repetition checker (built, as in the value stream, from the single-shot reference points)
            pt = (pts2 or {}).get("max_primal" if primal else "max_dual")
            if pt is None or pt["val"] is None:
                res.count(f"prog/uncertified/clone/n2/{name}:{(pt or {}).get('why', 'single-shot')}"[:70])
            elif primal:
                Xsf, Xqf = pt["Xs"].to_float(), pt["X"].to_float()
                Xw = _perm(Xsf, SW_C2)   # W pperm X pperm^T W^T
                scale = max(1.0, float(np.max(np.abs(Xw))), qmax)
                if prog.plug("certified", Xw, pt["val"], PROG_TOL * scale, _away(float(pt["val"]), *lo_hi), scale, extra={"note": CLONE2_NOTE}):
                    _neg_primal(prog, res, Xw, 6, [2, 5], "clone/n2", misordered=Xsf)
                # the point in the order of Q1 (x) Q1 is feasible for the captured constraints but has another objective value (counted)
                _, rows = prog.evaluate(Xqf)
                objq = float(np.real(P.objective.expr.value))
                res.count("prog/clone2/q-order-point-" + ("infeasible" if base._bad(rows, PROG_TOL * scale) else "feasible") +
                          ("-other-objective" if abs(objq - float(pt["val"])) > NEG_MARGIN else "-same-objective"))
            else:
                Yf = pt["Y"].to_float()
                scale = max(1.0, float(np.max(np.abs(Yf))), qmax)
                if prog.plug("certified", Yf, pt["val"], PROG_TOL * scale, _away(float(pt["val"]), *lo_hi), scale):
                    _neg_dual(prog, res, Yf, Qs, a, True, False, "clone/n2")
            # product points X1 (x) X1', Y1 (x) Y1' of two different certified single-shot points
            if ok1 and ok1b:
                k1 = "max_primal" if primal else "max_dual"
                val = p1[k1]["val"] * p1b[k1]["val"]
                for label, A, B in (("product", p1, p1b), ("product-rev", p1b, p1)):
                    if primal:
                        Xq = _dm_kron(A[k1]["X"], B[k1]["X"]).to_float()     # order Y1 Z1 X1 Y2 Z2 X2
                        Xs_ = _perm(Xq, base.SIG_C2)                          # pperm Xq pperm^T: order Y1 Y2 Z1 Z2 X1 X2
                        Vf = _perm(Xs_, SW_C2)
                    else:
                        Vf = _dm_kron(A[k1]["Y"], B[k1]["Y"]).to_float()
                    scale = max(1.0, float(np.max(np.abs(Vf))), qmax)
                    ok = prog.plug(label, Vf, val, PROD_TOL * scale, True, scale, theorem=THM_PROD, extra={"note": CLONE2_NOTE} if primal else None)
                    if ok and primal and label == "product":
                        # pperm (X1 (x) X1') pperm^T without the exchange of positions 2 and 4
                        _neg_order(prog, res, Xs_, 6, [2, 5], "clone/n2", "primal-unswapped-product")
            else:
                res.count(f"prog/uncertified/clone/n2/{name}/product")
        prog.finish()
    if broken:
        raise CorrespondenceBroken(" | ".join(sorted(set(broken))))


# ------------------------------------------------------------------------------------------------
# tasks, stream, replay


def prog_tasks(rng, quick):
    """(hedge_tasks, clone_tasks); every random choice from rng"""
    q0, q1 = base.mw_ops()
    ht = [{"kind": "mw-q0", "Q": q0, "n": 1, "cplx": False}, {"kind": "mw-q1", "Q": q1, "n": 1, "cplx": False},
          {"kind": "mw-q0q0", "Q": np.kron(q0, q0), "n": 2, "cplx": False, "factors": [q0, q0]},
          {"kind": "mw-q1q1", "Q": np.kron(q1, q1), "n": 2, "cplx": False, "factors": [q1, q1]},
          {"kind": "mw-q0q1", "Q": np.kron(q0, q1), "n": 2, "cplx": False, "factors": [q0, q1]}]
    for i in range(16 if quick else 80):
        cplx = bool(i % 2)
        ht.append({"kind": "random", "Q": base.gen_q4(rng, cplx, 1 + (i // 2) % 4), "n": 1, "cplx": cplx})
    for i in range(6 if quick else 40):
        c1, c2 = [(True, True), (False, False), (False, True)][i % 3]
        while True:
            F1, F2 = base.gen_q4(rng, c1, int(rng.integers(1, 5))), base.gen_q4(rng, c2, int(rng.integers(1, 5)))
            if F1.shape != F2.shape or not np.array_equal(F1, F2):
                break
        ht.append({"kind": "product", "Q": np.kron(F1, F2), "n": 2, "cplx": c1 or c2, "factors": [F1, F2]})
    for i in range(2 if quick else 8):
        cplx = bool(i % 2 == 0)
        V = rng.integers(-3, 4, size=(16, 5)).astype(complex) + (1j * rng.integers(-3, 4, size=(16, 5)) if cplx else 0)
        Q = V @ V.conj().T
        Q = Q / float(1 << int(np.ceil(np.log2(max(1.0, np.trace(Q).real)))))
        ht.append({"kind": "generic16", "Q": Q if cplx else Q.real, "n": 2, "cplx": cplx})
    e0, e1 = np.array([[1.0], [0.0]]), np.array([[0.0], [1.0]])
    ep, em = (e0 + e1) / np.sqrt(2), (e0 - e1) / np.sqrt(2)
    ct = [{"kind": "wiesner", "states": [e0, e1, ep, em], "probs": [0.25] * 4, "n": 1},
          {"kind": "wiesner", "states": [e0, e1, ep, em], "probs": [0.25] * 4, "n": 2},
          {"kind": "zero-prior", "states": [e0, ep, e1], "probs": [0.5, 0.0, 0.5], "n": 1},
          {"kind": "zero-prior", "states": [ep, e0, e1, ep, em], "probs": [0.0, 0.25, 0.25, 0.25, 0.25], "n": 1},
          {"kind": "zero-prior", "states": [ep, e0, e1, ep, em], "probs": [0.0, 0.25, 0.25, 0.25, 0.25], "n": 2}]
    for _ in range(8 if quick else 40):
        st, pr = base.gen_ensemble(rng)
        ct.append({"kind": "random", "states": st, "probs": pr, "n": 1})
    for _ in range(3 if quick else 12):
        st, pr = base.gen_ensemble(rng)
        ct.append({"kind": "random", "states": st, "probs": pr, "n": 2})
    for t in ht + ct:
        t["pres"] = int(rng.integers(1, 2 ** 31))
    # the slow tasks first (64 x 64 certificates)
    ct.sort(key=lambda t: -t["n"])
    ht.sort(key=lambda t: -t["n"])
    return ht, ct


def work_prog(task, res: Result):
    """dispatcher: one pool for both kinds of task, so that the 64 x 64 cloning certificates overlap with the hedging tasks"""
    (work_prog_clone if "states" in task else work_prog_hedge)(task, res)


def _controls_verdict(ctx, before):
    """negative controls that were not detected: infrastructure failure (blind evaluation machinery), unless this stream has reported failing
    inputs / a broken correspondence in the same run (a program that is wrong at feasible points may accept the control points as well)"""
    failed = ctx.hist.get("prog/neg/failed", 0) - before[3]
    if failed <= 0:
        return
    what = sorted(kk[len("prog/neg/failed/"):] for kk in ctx.hist if kk.startswith("prog/neg/failed/"))
    if (len(ctx.violations), len(ctx.broken), sum(ctx.known_hit.values())) != before[:3]:
        ctx.note(f"prog_embedding: {failed} negative controls not detected next to reported failing inputs: {what[:4]}")
        return
    raise InfraError(f"prog_embedding: {failed} negative controls were not detected and no failing input was found: {' | '.join(what[:4])}")


def prog_embedding(ctx, quick, prs):
    t0 = _t.time()
    # the modules under test once in the parent: forked workers share the import
    import toqito.nonlocal_games.quantum_hedging  # noqa: F401
    import toqito.state_opt.optimal_clone  # noqa: F401
    ht, ct = prog_tasks(prs, quick)
    tasks = ct + ht
    tasks.sort(key=lambda t: (0 if "states" in t else 1) if t["n"] == 2 else 2)   # stable: cloning n = 2, hedging n = 2, the rest
    before = (len(ctx.violations), len(ctx.broken), sum(ctx.known_hit.values()), ctx.hist.get("prog/neg/failed", 0))
    run_pool(ctx, work_prog, tasks)
    _controls_verdict(ctx, before)
    h = ctx.hist

    def _mx(prefix):
        bs = [kk[len(prefix):] for kk in h if kk.startswith(prefix)]
        order = lambda bk: -1e9 if bk == "0" else (1e9 if bk == "inf" else float(bk[2:]))  # noqa: E731
        return max(bs, key=order) if bs else None

    def _sum(prefix, suffix=""):
        return sum(v for kk, v in h.items() if kk.startswith(prefix) and kk.endswith(suffix))
    ctx.extra["prog_embedding"] = {
        "instances": {"hedging": len(ht), "cloning": len(ct)},
        "problems_captured": h.get("prog/problems-captured", 0), "constraints_captured": h.get("prog/constraints-captured", 0),
        "points_plugged": h.get("prog/points-plugged", 0),
        "points_by_program": {kk[len("prog/"):]: v for kk, v in sorted(h.items()) if kk.startswith("prog/hedge/") or kk.startswith("prog/clone/")},
        "product_points": _sum("prog/hedge/", "/product") + _sum("prog/clone/", "/product") + _sum("prog/clone/", "/product-rev"),
        "uncertified_points": _sum("prog/uncertified/"),
        "max_residual_bucket": _mx("prog/max-residual-bucket/"), "max_objective_deviation_bucket": _mx("prog/max-objective-deviation-bucket/"),
        "negative_controls_detected": h.get("prog/neg/detected", 0),
        "negative_controls": {kk[len("prog/neg/"):]: v for kk, v in sorted(h.items()) if kk.startswith("prog/neg/") and kk != "prog/neg/detected"},
        "clone2_primal_not_symmetric": h.get("prog/clone2/primal-not-symmetric", 0),
        "clone2_primal_note": CLONE2_NOTE,
        "tolerances": {"constraints_and_objective": PROG_TOL, "product_objective": PROD_TOL, "negative_control_shift": 2.0 ** -NEG_BITS, "negative_control_margin": NEG_MARGIN}}
    ctx.extra.setdefault("phase_wall_s", {})["prog_embedding"] = round(_t.time() - t0, 1)


def replay_prog(ctx, rec):
    """re-runs the instance of one recorded failing input (rec["args"]["part"] == "prog")"""
    a = rec.get("args", {})
    res = Result()
    if a.get("sub") == "clone":
        work_prog_clone({"kind": a.get("kind", "replay"), "states": [np.array(s, dtype=float).reshape(2, 1) for s in a["states"]], "probs": a["probs"], "n": a["n"], "pres": a.get("pres")}, res)
    else:
        cplx = bool(a.get("cplx", False))
        Q = base._from_ri(a["Q"])
        fac = [base._from_ri(f) for f in a["factors"]] if a.get("factors") else None
        if cplx:
            Q = np.asarray(Q, dtype=complex)
        work_prog_hedge({"kind": a.get("kind", "replay"), "Q": Q, "n": a["n"], "cplx": cplx, "factors": fac, "pres": a.get("pres")}, res)
    before = (len(ctx.violations), len(ctx.broken), sum(ctx.known_hit.values()), ctx.hist.get("prog/neg/failed", 0))
    fold(ctx, res)
    _controls_verdict(ctx, before)
