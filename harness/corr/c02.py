"""C02: partial_trace against the Lean mirror model (proved equal to the index contraction)."""
from __future__ import annotations

import itertools

import numpy as np

from toqito.channels import partial_trace

from .. import gen
from ..exact import NotExact, call, present, rand_int_matrix, split_int

RULE = ("configurations (dims, traced set with listing order, sys/dim argument form, dtype, numeric or cvxpy Variable) from the seeded "
        "generator, plus all subsets/orders for small dims (thorough); entries are random (Gaussian) integers so float arithmetic is exact and "
        "equality is demanded; non-trivial = at least one kept and one traced subsystem of dimension > 1; distinct = configuration hash")
ASSUMPTIONS = ["a linear map agreeing with the model on a random big-integer point of a box of side 2^13 differs from it with probability <= 2^-13 per case (Schwartz-Zippel); the thorough tier also runs the full E_ij basis on small sizes"]


def check(ctx, dims, sys_arg, dim_form, dtype, variable=False, basis=None):
    N = int(np.prod(dims))
    if basis is not None:
        X = np.zeros((N, N))
        X[basis] = 1
    else:
        X = rand_int_matrix(ctx.rng, (N, N), dtype)
    if dim_form == "list":
        dim_py = list(dims)
    elif dim_form == "array":
        dim_py = np.array(dims)
    elif dim_form == "scalar":
        dim_py = int(dims[0])
    elif dim_form == "list1":
        dim_py = [int(dims[0])]
    else:
        dim_py = None
    dim_js = None if dim_py is None else (dim_py if isinstance(dim_py, int) else [int(d) for d in dim_py])
    sys_js = sys_arg if sys_arg is None or isinstance(sys_arg, int) else list(sys_arg)
    if variable:
        import cvxpy
        V = cvxpy.Variable((N, N), complex=(dtype == "complex128"))
        V.value = np.asarray(X, dtype=complex if dtype == "complex128" else float)
        impl = call(partial_trace, V, sys_arg, dim_py)
        if impl[0] == "ok":
            impl = ("ok", np.asarray(impl[1].value))
    else:
        impl = call(partial_trace, present(ctx.rng, X, allow_dtype=False), sys_arg, dim_py)
    _, re, im = split_int(X)
    desc = {"fn": "partial_trace", "dims": dims, "sys": sys_js, "dim_form": dim_form, "dtype": dtype, "variable": variable,
            "basis": basis}
    sl = [sys_arg] if isinstance(sys_arg, int) else ([1] if sys_arg is None else list(sys_arg))
    eff = dims if dim_form not in ("scalar", "list1", "omitted") else [dims[0], N // dims[0]]
    try:
        nontriv = any(eff[s] > 1 for s in sl) and any(eff[k] > 1 for k in range(len(eff)) if k not in sl)
    except IndexError:
        nontriv = False
    ctx.case(desc, nontriv, f"ptrace/{dim_form}/{'var' if variable else dtype}/sysform={'int' if isinstance(sys_arg, int) else ('none' if sys_arg is None else 'list')}")
    mre = ctx.lean().ask("partial_trace", {"n": N, "data": re, "sys": sys_js, "dim": dim_js})
    if "reject" in mre:
        if impl[0] == "reject" or (impl[0] == "raise" and "Invalid" in impl[1]):
            return True
        return not ctx.violation(f"partial_trace: model rejects ({mre['reject']}) but implementation returns", {"function": "partial_trace", "args": desc, "impl": str(impl)[:300]})
    mim = ctx.lean().ask("partial_trace", {"n": N, "data": im, "sys": sys_js, "dim": dim_js}) if any(im) else {"data": [0] * len(mre["data"])}
    if impl[0] != "ok":
        return not ctx.violation(f"partial_trace: implementation {impl[0]} ({impl[1]}) on a valid call", {"function": "partial_trace", "args": desc, "theorem": "ptrace_eq_spec"})
    try:
        shape, ire, iim = split_int(impl[1])
    except NotExact as e:
        return not ctx.violation(f"partial_trace: output not integral on integer input ({e})", {"function": "partial_trace", "args": desc})
    if ire != mre["data"] or iim != mim["data"] or shape != mre["shape"]:
        return not ctx.violation("partial_trace: output differs from the index contraction over the traced subsystems",
                                 {"function": "partial_trace", "args": desc, "input_re": re[:256], "input_im": im[:256], "impl_re": ire[:64], "model_re": mre["data"][:64],
                                  "impl_shape": shape, "model_shape": mre["shape"], "theorem": "ptrace_eq_spec"})
    return True


def rand_subset(rng, n):
    k = int(rng.integers(1, n + 1))
    return [int(x) for x in rng.permutation(n)[:k]]


def run(ctx, model_ok=True):
    rng = ctx.rng
    quick = ctx.tier == "quick"
    # corpus
    check(ctx, [2, 3, 2], [2, 0], "list", "complex128")
    check(ctx, [1, 2, 3], [2, 0], "list", "int64")
    check(ctx, [3, 2], 1, "scalar", "float64")
    check(ctx, [3, 3], None, "omitted", "float64")
    check(ctx, [1, 3, 1, 1, 1, 1, 1, 1, 2], [0, 2, 3, 4, 5, 6, 7], "list", "int64")  # kept {1, 8}: set iteration order
    for it in range(700 if quick else 4000):
        n = int(rng.choice([1, 2, 2, 3, 3, 4, 5]))
        dims = gen.rand_dims(rng, n, 1, 4, 36 if quick else 64)
        if int(np.prod(dims)) < 2:
            continue
        S = rand_subset(rng, n)
        sys_arg = S[0] if len(S) == 1 and rng.integers(2) else S
        dtype = str(rng.choice(["int64", "float64", "complex128", "object", "uint8", "int16", "bool"]))   # narrow integer dtypes: sums must not wrap
        check(ctx, dims, sys_arg, str(rng.choice(["list", "array"])), dtype)
    # many subsystems (most of dimension 1): the kept subsystems must stay in their original order for any n
    for it in range(120 if quick else 600):
        n = int(rng.integers(6, 13))
        dims = [1] * n
        big = [int(x) for x in rng.choice(n, size=int(rng.integers(2, 4)), replace=False)]
        for b, d in zip(big, [2, 3, 2]):
            dims[b] = d
        S = [int(x) for x in rng.permutation(n)[: int(rng.integers(1, n - 1))]]
        check(ctx, dims, S, "list", "int64")
    # scalar / one-element / omitted dimension arguments
    for it in range(120 if quick else 600):
        d0, d1 = int(rng.integers(1, 7)), int(rng.integers(1, 7))
        if d0 * d1 < 2:
            continue
        form = str(rng.choice(["scalar", "list1"]))
        sys_arg = [None, 0, 1, [0], [1], [1, 0]][int(rng.integers(6))]
        check(ctx, [d0, d1], sys_arg, form, str(rng.choice(["float64", "complex128"])))
        check(ctx, [d0, d0], [None, 0, 1, [0]][int(rng.integers(4))], "omitted", "float64") if d0 > 1 else None
    # malformed: scalar dim not dividing
    for N, d in [(6, 4), (9, 2), (8, 3)]:
        X = rand_int_matrix(rng, (N, N), "float64")
        impl = call(partial_trace, X, [1], d)
        _, re, _ = split_int(X)
        m = ctx.lean().ask("partial_trace", {"n": N, "data": re, "sys": [1], "dim": d})
        ctx.case({"fn": "partial_trace", "malformed": [N, d]}, False, "malformed/scalar-dim")
        if ("reject" in m) != (impl[0] != "ok"):
            ctx.violation("partial_trace: rejection of a non-dividing scalar dim differs from the model", {"function": "partial_trace", "args": {"N": N, "dim": d}, "impl": str(impl)[:200]})
    # cvxpy Variable path
    for it in range(25 if quick else 150):
        n = int(rng.choice([2, 2, 3]))
        dims = gen.rand_dims(rng, n, 1, 3, 9)
        if int(np.prod(dims)) < 2:
            continue
        S = rand_subset(rng, n)
        check(ctx, dims, S[0] if len(S) == 1 and rng.integers(2) else S, "list", str(rng.choice(["float64", "complex128"])), variable=True)
    if not quick:
        # all subsets in all listing orders for all dim vectors with product <= 24, n <= 4
        for n in range(1, 5):
            for dims in gen.all_dim_vectors(n, 1, 4, 24):
                if int(np.prod(dims)) < 2:
                    continue
                for k in range(1, n + 1):
                    for S in itertools.permutations(range(n), k):
                        check(ctx, dims, list(S), "list", "complex128")
        # full E_ij basis determination on small sizes
        for dims, S in [([2, 3], [0]), ([2, 3], [1]), ([2, 2, 2], [2, 0]), ([3, 2, 2], [1]), ([2, 1, 3], [0, 1])]:
            N = int(np.prod(dims))
            for i in range(N):
                for j in range(N):
                    check(ctx, dims, S, "list", "float64", basis=(i, j))
        ctx.extra["exhaustive_small_space"] = "all subsets x listing orders x dim vectors (entries 1..4, product <= 24, n <= 4); E_ij bases for 5 configurations"


def replay(ctx, rec):
    a = rec["args"]
    s = a["sys"]
    check(ctx, a["dims"], s, a["dim_form"], a["dtype"], a.get("variable", False), tuple(a["basis"]) if a.get("basis") else None)
