"""C02: partial_trace against the Lean mirror model (proved equal to the index contraction)."""
from __future__ import annotations

import itertools

import numpy as np

from toqito.channels import partial_trace

from .. import gen
from ..exact import NotExact, call, present, rand_int_matrix, split_int

RULE = ("configurations (dims, traced set with listing order, sys/dim argument form, dtype, numeric or cvxpy Variable) from the seeded "
        "generator, plus all subsets/orders for small dims (thorough); entries are random (Gaussian) integers so float arithmetic is exact and "
        "equality is demanded; the cvxpy Variable branch (real / complex / symmetric / hermitian / PSD variables) is determined completely by evaluating "
        "the returned expression on a basis of the variable's domain and compared with the Lean model run on the free expression type; raw argument "
        "forms (omitted / scalar / one-element / list dim, None / int / list sys incl. repeated, negative, out-of-range entries, wrong products) are "
        "decoded by the Lean model and acceptance as well as the result must agree; non-trivial = at least one kept and one traced subsystem of "
        "dimension > 1; distinct = configuration hash")
ASSUMPTIONS = ["a linear map agreeing with the model on a random big-integer point of a box of side 2^13 differs from it with probability <= 2^-13 per case (Schwartz-Zippel); the thorough tier also runs the full E_ij basis on small sizes"]


def check(ctx, dims, sys_arg, dim_form, dtype, variable=False, basis=None):
    N = int(np.prod(dims))
    if basis is not None:
        X = np.zeros((N, N))
        X[basis] = 1
    else:
        X = rand_int_matrix(ctx.rng, (N, N), dtype)
    if dim_form == "list":
        dim_py = list(dims)
    elif dim_form == "array":
        dim_py = np.array(dims)
    elif dim_form == "scalar":
        dim_py = int(dims[0])
    elif dim_form == "list1":
        dim_py = [int(dims[0])]
    else:
        dim_py = None
    dim_js = None if dim_py is None else (dim_py if isinstance(dim_py, int) else [int(d) for d in dim_py])
    sys_js = sys_arg if sys_arg is None or isinstance(sys_arg, int) else list(sys_arg)
    if variable:
        import cvxpy
        V = cvxpy.Variable((N, N), complex=(dtype == "complex128"))
        V.value = np.asarray(X, dtype=complex if dtype == "complex128" else float)
        impl = call(partial_trace, V, sys_arg, dim_py)
        if impl[0] == "ok":
            impl = ("ok", np.asarray(impl[1].value))
    else:
        impl = call(partial_trace, present(ctx.rng, X, allow_dtype=False), sys_arg, dim_py)
    _, re, im = split_int(X)
    desc = {"fn": "partial_trace", "dims": dims, "sys": sys_js, "dim_form": dim_form, "dtype": dtype, "variable": variable,
            "basis": basis}
    sl = [sys_arg] if isinstance(sys_arg, int) else ([1] if sys_arg is None else list(sys_arg))
    eff = dims if dim_form not in ("scalar", "list1", "omitted") else [dims[0], N // dims[0]]
    try:
        nontriv = any(eff[s] > 1 for s in sl) and any(eff[k] > 1 for k in range(len(eff)) if k not in sl)
    except IndexError:
        nontriv = False
    ctx.case(desc, nontriv, f"ptrace/{dim_form}/{'var' if variable else dtype}/sysform={'int' if isinstance(sys_arg, int) else ('none' if sys_arg is None else 'list')}")
    mre = ctx.lean().ask("partial_trace", {"n": N, "data": re, "sys": sys_js, "dim": dim_js})
    if "reject" in mre:
        ctx.count("model-rejects/" + mre["reject"])
        if impl[0] != "ok":     # ValueError("Invalid…") raised directly or by permute_systems, IndexError from dim[idx]
            return True
        return not ctx.violation(f"partial_trace: model rejects ({mre['reject']}) but implementation returns", {"function": "partial_trace", "args": desc, "impl": str(impl)[:300], "theorem": "ptrace_args_list"})
    mim = ctx.lean().ask("partial_trace", {"n": N, "data": im, "sys": sys_js, "dim": dim_js}) if any(im) else {"data": [0] * len(mre["data"])}
    if impl[0] != "ok":
        return not ctx.violation(f"partial_trace: implementation {impl[0]} ({impl[1]}) on a valid call", {"function": "partial_trace", "args": desc, "theorem": "ptrace_eq_spec"})
    try:
        shape, ire, iim = split_int(impl[1])
    except NotExact as e:
        return not ctx.violation(f"partial_trace: output not integral on integer input ({e})", {"function": "partial_trace", "args": desc})
    if ire != mre["data"] or iim != mim["data"] or shape != mre["shape"]:
        return not ctx.violation("partial_trace: output differs from the index contraction over the traced subsystems",
                                 {"function": "partial_trace", "args": desc, "input_re": re[:256], "input_im": im[:256], "impl_re": ire[:64], "model_re": mre["data"][:64],
                                  "impl_shape": shape, "model_shape": mre["shape"], "theorem": "ptrace_eq_spec"})
    # linearity at small and large scale (ptrace_smul): the same operator times a power of two (exact in floating point) must give the result times
    # that power, entry for entry - complex inputs of norm 1e-15 included (clean-up steps with absolute tolerances show here)
    if not variable and dtype in ("float64", "complex128") and basis is None and ctx.evaluations % 4 == 0:
        for kexp in (-50, -60, 30):
            sc = 2.0 ** kexp
            outs = call(partial_trace, np.asarray(X) * sc, sys_arg, dim_py)
            ctx.count(f"ptrace/scaled/2^{kexp}")
            if outs[0] != "ok" or np.asarray(outs[1]).dtype != np.asarray(impl[1]).dtype or not np.array_equal(np.asarray(outs[1]), np.asarray(impl[1]) * sc):
                return not ctx.violation(f"partial_trace: the operator scaled by 2^{kexp} does not give the result scaled by 2^{kexp} (or changes its dtype)",
                                         {"function": "partial_trace", "args": dict(desc, scale_exp=kexp), "input_re": re[:256], "input_im": im[:256], "theorem": "ptrace_smul"})
    return True


# ------------------------------------------------------------------------------------------------
# cvxpy Variable branch: the returned expression is a linear function of the variable; it is determined completely (not sampled)
# by evaluating it on a basis of the variable's domain, and compared with the Lean model run on the free expression type
# (`partialTraceCvx` / `partialTransposeCvx`: for every output entry the list of index atoms V[r, c] it sums).

VAR_KINDS_SQUARE = ["real", "complex", "symmetric", "hermitian", "PSD"]
VAR_KINDS_RECT = ["real", "complex"]


def make_variable(kind, R, C):
    import cvxpy
    if kind == "real":
        return cvxpy.Variable((R, C))
    if kind == "complex":
        return cvxpy.Variable((R, C), complex=True)
    if kind == "symmetric":
        return cvxpy.Variable((R, R), symmetric=True)
    if kind == "hermitian":
        return cvxpy.Variable((R, R), hermitian=True)
    if kind == "PSD":
        return cvxpy.Variable((R, R), PSD=True)
    raise ValueError(kind)


def variable_bases(kind, R, C):
    """matrices (exact small integers / Gaussian integers) that lie in the variable's domain and span it over the reals"""
    def E(r, c, v=1.0):
        m = np.zeros((R, C), dtype=complex if kind in ("complex", "hermitian") else float)
        m[r, c] = v
        return m
    out = []
    if kind == "real":
        out = [E(r, c) for r in range(R) for c in range(C)]
    elif kind == "complex":
        out = [E(r, c) for r in range(R) for c in range(C)] + [E(r, c, 1j) for r in range(R) for c in range(C)]
    elif kind == "symmetric":
        out = [E(r, r) for r in range(R)] + [E(r, c) + E(c, r) for r in range(R) for c in range(r + 1, R)]
    elif kind == "hermitian":
        out = [E(r, r) for r in range(R)] + [E(r, c) + E(c, r) for r in range(R) for c in range(r + 1, R)] \
            + [E(r, c, 1j) + E(c, r, -1j) for r in range(R) for c in range(r + 1, R)]
    elif kind == "PSD":
        out = [E(r, r) for r in range(R)] + [E(r, r) + E(c, c) + E(r, c) + E(c, r) for r in range(R) for c in range(r + 1, R)]
    return out


def expected_from_terms(model, B):
    """value of the model's expression matrix when the variable holds B: out[i, j] = sum of B[r, c] over the atoms of entry (i, j)"""
    rows, cols = model["shape"]
    out = np.zeros((rows, cols), dtype=complex)
    for k, terms in enumerate(model["terms"]):
        out[k // cols, k % cols] = sum(B[r, c] for r, c in terms)
    return out


def determine_variable_branch(ctx, what, fn, op, model_args, py_args, kind, R, C, desc, thm):
    """fn(V, *py_args) for a cvxpy Variable V of the given kind against the Lean op `op` (symbolic model); True iff consistent"""
    V = make_variable(kind, R, C)
    impl = call(fn, V, *py_args)
    model = ctx.lean().ask(op, model_args)
    if "reject" in model:
        ctx.count("model-rejects/" + model["reject"])
        if impl[0] != "ok":
            return True
        return not ctx.violation(f"{what}: model rejects ({model['reject']}) a cvxpy Variable call but the implementation returns", {"function": what, "args": desc, "theorem": thm})
    if impl[0] != "ok":
        return not ctx.violation(f"{what}: implementation {impl[0]} ({impl[1]}) on a valid call with a cvxpy Variable", {"function": what, "args": desc, "theorem": thm})
    expr = impl[1]
    if list(expr.shape) != model["shape"]:
        return not ctx.violation(f"{what}: shape of the returned cvxpy expression {list(expr.shape)} differs from {model['shape']}", {"function": what, "args": desc, "theorem": thm})
    for B in variable_bases(kind, R, C):
        V.value = B
        got = np.asarray(expr.value)
        exp = expected_from_terms(model, B)
        if not np.array_equal(np.asarray(got, dtype=complex), exp):
            bad = np.argwhere(np.asarray(got, dtype=complex) != exp)[:4].tolist()
            return not ctx.violation(f"{what}: the expression returned for a cvxpy Variable is not the same linear map as for a numeric array "
                                     f"(variable kind {kind}; differs at output entries {bad} when the variable holds a basis matrix)",
                                     {"function": what, "args": desc, "basis_re": np.real(B).astype(int).tolist(), "basis_im": np.imag(B).astype(int).tolist(),
                                      "impl_re": np.real(got).tolist(), "impl_im": np.imag(got).tolist(), "model_re": np.real(exp).tolist(), "model_im": np.imag(exp).tolist(),
                                      "theorem": thm})
    ctx.count(f"cvx-branch-determined/{kind}")
    return True


def check_var(ctx, dims, sys_arg, dim_form, kind):
    N = int(np.prod(dims))
    dim_py, dim_js = dim_arg(dims, dim_form)
    sys_js = sys_arg if sys_arg is None or isinstance(sys_arg, int) else list(sys_arg)
    desc = {"fn": "partial_trace_var", "dims": dims, "sys": sys_js, "dim_form": dim_form, "kind": kind}
    sl = [sys_arg] if isinstance(sys_arg, int) else ([1] if sys_arg is None else list(sys_arg))
    eff = dims if dim_form not in ("scalar", "list1", "omitted") else [dims[0], N // dims[0]]
    try:
        nontriv = any(eff[s] > 1 for s in sl) and any(eff[k] > 1 for k in range(len(eff)) if k not in sl)
    except IndexError:
        nontriv = False
    ctx.case(desc, nontriv, f"ptrace-var/{kind}/{dim_form}/sysform={'int' if isinstance(sys_arg, int) else ('none' if sys_arg is None else 'list')}")
    return determine_variable_branch(ctx, "partial_trace", partial_trace, "partial_trace_sym", {"n": N, "sys": sys_js, "dim": dim_js},
                                     (sys_arg, dim_py), kind, N, N, desc, "ptrace_cvx_value / ptrace_cvx_atoms")


def check_var_raw(ctx, N, sys_arg, dim_py, kind):
    """partial_trace(V, sys, dim) for a cvxpy Variable with raw arguments (valid or not), against the symbolic model"""
    dim_js = None if dim_py is None else (int(dim_py) if isinstance(dim_py, int) else [int(d) for d in dim_py])
    desc = {"fn": "partial_trace_var_raw", "N": N, "sys": sys_arg, "dim": dim_js, "kind": kind}
    ctx.case(desc, False, f"ptrace-var-raw/{kind}/dim={'none' if dim_py is None else 'given'}")
    return determine_variable_branch(ctx, "partial_trace", partial_trace, "partial_trace_sym", {"n": N, "sys": sys_arg, "dim": dim_js},
                                     (sys_arg, dim_py), kind, N, N, desc, "ptrace_args_omitted / ptrace_args_omitted_rejects / ptrace_cvx_value")


def dim_arg(dims, dim_form):
    """(python argument, JSON form handed to the model) for one of the accepted forms of `dim`"""
    if dim_form == "list":
        return list(dims), [int(d) for d in dims]
    if dim_form == "array":
        return np.array(dims), [int(d) for d in dims]
    if dim_form == "scalar":
        return int(dims[0]), int(dims[0])
    if dim_form == "list1":
        return [int(dims[0])], [int(dims[0])]
    return None, None


def check_raw(ctx, N, sys_arg, dim_py, dtype, branch):
    """any call partial_trace(X, sys, dim) with raw arguments (valid or not): acceptance and result must agree with the model"""
    X = rand_int_matrix(ctx.rng, (N, N), dtype)
    impl = call(partial_trace, X, sys_arg, dim_py)
    _, re, im = split_int(X)
    dim_js = None if dim_py is None else (int(dim_py) if isinstance(dim_py, int) else [int(d) for d in dim_py])
    desc = {"fn": "partial_trace_raw", "N": N, "sys": sys_arg, "dim": dim_js, "dtype": dtype}
    mre = ctx.lean().ask("partial_trace", {"n": N, "data": re, "sys": sys_arg, "dim": dim_js})
    ctx.case(desc, "reject" not in mre and mre["shape"][0] not in (1, N), branch + ("/rejected" if "reject" in mre else "/accepted"))
    if "reject" in mre:
        ctx.count("model-rejects/" + mre["reject"])
        if impl[0] != "ok":
            return True
        return not ctx.violation(f"partial_trace: model rejects ({mre['reject']}) but implementation returns", {"function": "partial_trace", "args": desc, "impl": str(impl)[:300], "theorem": "ptrace_args_list"})
    if impl[0] != "ok":
        return not ctx.violation(f"partial_trace: implementation {impl[0]} ({impl[1]}) on a call the model accepts", {"function": "partial_trace", "args": desc, "theorem": "ptrace_args_list"})
    mim = ctx.lean().ask("partial_trace", {"n": N, "data": im, "sys": sys_arg, "dim": dim_js}) if any(im) else {"data": [0] * len(mre["data"])}
    try:
        shape, ire, iim = split_int(impl[1])
    except NotExact as e:
        return not ctx.violation(f"partial_trace: output not integral on integer input ({e})", {"function": "partial_trace", "args": desc})
    if ire != mre["data"] or iim != mim["data"] or shape != mre["shape"]:
        return not ctx.violation("partial_trace: output differs from the model for this argument form",
                                 {"function": "partial_trace", "args": desc, "input_re": re[:256], "input_im": im[:256], "impl_re": ire[:64], "model_re": mre["data"][:64],
                                  "impl_shape": shape, "model_shape": mre["shape"], "theorem": "ptrace_args_scalar / ptrace_args_omitted / ptrace_args_list"})
    return True


def rand_subset(rng, n):
    k = int(rng.integers(1, n + 1))
    return [int(x) for x in rng.permutation(n)[:k]]


def run(ctx, model_ok=True):
    rng = ctx.rng
    quick = ctx.tier == "quick"
    # corpus
    check(ctx, [2, 3, 2], [2, 0], "list", "complex128")
    check(ctx, [1, 2, 3], [2, 0], "list", "int64")
    check(ctx, [3, 2], 1, "scalar", "float64")
    check(ctx, [3, 3], None, "omitted", "float64")
    check(ctx, [1, 3, 1, 1, 1, 1, 1, 1, 2], [0, 2, 3, 4, 5, 6, 7], "list", "int64")  # kept {1, 8}: set iteration order
    for it in range(700 if quick else 4000):
        n = int(rng.choice([1, 2, 2, 3, 3, 4, 5]))
        dims = gen.rand_dims(rng, n, 1, 4, 36 if quick else 64)
        if int(np.prod(dims)) < 2:
            continue
        S = rand_subset(rng, n)
        sys_arg = S[0] if len(S) == 1 and rng.integers(2) else S
        dtype = str(rng.choice(["int64", "float64", "complex128", "object", "uint8", "int16", "bool"]))   # narrow integer dtypes: sums must not wrap
        check(ctx, dims, sys_arg, str(rng.choice(["list", "array"])), dtype)
    # many subsystems (most of dimension 1): the kept subsystems must stay in their original order for any n
    for it in range(120 if quick else 600):
        n = int(rng.integers(6, 13))
        dims = [1] * n
        big = [int(x) for x in rng.choice(n, size=int(rng.integers(2, 4)), replace=False)]
        for b, d in zip(big, [2, 3, 2]):
            dims[b] = d
        S = [int(x) for x in rng.permutation(n)[: int(rng.integers(1, n - 1))]]
        check(ctx, dims, S, "list", "int64")
    # scalar / one-element / omitted dimension arguments
    for it in range(120 if quick else 600):
        d0, d1 = int(rng.integers(1, 7)), int(rng.integers(1, 7))
        if d0 * d1 < 2:
            continue
        form = str(rng.choice(["scalar", "list1"]))
        sys_arg = [None, 0, 1, [0], [1], [1, 0]][int(rng.integers(6))]
        check(ctx, [d0, d1], sys_arg, form, str(rng.choice(["float64", "complex128"])))
        check(ctx, [d0, d0], [None, 0, 1, [0]][int(rng.integers(4))], "omitted", "float64") if d0 > 1 else None
    # malformed: scalar dim not dividing
    for N, d in [(6, 4), (9, 2), (8, 3)]:
        X = rand_int_matrix(rng, (N, N), "float64")
        impl = call(partial_trace, X, [1], d)
        _, re, _ = split_int(X)
        m = ctx.lean().ask("partial_trace", {"n": N, "data": re, "sys": [1], "dim": d})
        ctx.case({"fn": "partial_trace", "malformed": [N, d]}, False, "malformed/scalar-dim")
        if ("reject" in m) != (impl[0] != "ok"):
            ctx.violation("partial_trace: rejection of a non-dividing scalar dim differs from the model", {"function": "partial_trace", "args": {"N": N, "dim": d}, "impl": str(impl)[:200]})
    # cvxpy Variable path
    for it in range(25 if quick else 150):
        n = int(rng.choice([2, 2, 3]))
        dims = gen.rand_dims(rng, n, 1, 3, 9)
        if int(np.prod(dims)) < 2:
            continue
        S = rand_subset(rng, n)
        check(ctx, dims, S[0] if len(S) == 1 and rng.integers(2) else S, "list", str(rng.choice(["float64", "complex128"])), variable=True)
    # cvxpy Variable branch determined completely on a basis (all variable kinds, all dim / sys forms)
    vr = rng.spawn(1)[0]
    check_var(ctx, [2, 3], [0], "list", "real")
    check_var(ctx, [2, 2], None, "omitted", "hermitian")
    check_var(ctx, [3, 2], 1, "scalar", "complex")
    for it in range(40 if quick else 300):
        n = int(vr.choice([2, 2, 3]))
        dims = gen.rand_dims(vr, n, 1, 3, 9 if quick else 12)
        if int(np.prod(dims)) < 2:
            continue
        S = rand_subset(vr, n)
        check_var(ctx, dims, S[0] if len(S) == 1 and vr.integers(2) else S, str(vr.choice(["list", "array"])), str(vr.choice(VAR_KINDS_SQUARE)))
    for it in range(12 if quick else 80):
        d0, d1 = int(vr.integers(1, 4)), int(vr.integers(1, 4))
        if d0 * d1 < 2:
            continue
        check_var(ctx, [d0, d1], [None, 0, 1, [0], [1]][int(vr.integers(5))], str(vr.choice(["scalar", "list1"])), str(vr.choice(VAR_KINDS_SQUARE)))
        if d0 > 1:
            check_var(ctx, [d0, d0], [None, 0, [1]][int(vr.integers(3))], "omitted", str(vr.choice(VAR_KINDS_SQUARE)))
    # raw argument forms, accepted and rejected: the model decodes them (Toq/Model/PartialOpsArgs.lean)
    ar = rng.spawn(1)[0]
    for N, s_, d_ in [(6, [-1], [2, 3]), (6, -1, [2, 3]), (6, [0, 0], [2, 3]), (6, [2], [2, 3]), (6, [-3], [2, 3]), (6, [0], [2, 2]), (6, [0], 4), (6, [0], [4]),
                      (6, None, None), (2, None, None), (5, None, None), (8, None, None), (12, None, None), (12, 0, None), (6, [1, 0], None), (6, [0, 1], [2, 3]),
                      (4, [1, 1], None), (9, 2, None), (9, 1, 3), (8, [0, 2, 1], [2, 2, 2]), (8, [0, 2, 2], [2, 2, 2]), (8, [3], [2, 2, 2]), (8, 0, [2, 2, 3])]:
        check_raw(ctx, N, s_, d_, "float64", "args/corpus")
    # omitted dim: rejected unless the size is a perfect square (numeric and cvxpy inputs), two equal subsystems otherwise
    for N in (6, 8, 12, 2, 3, 4, 9, 16):
        for s_ in (None, 0, [1]):
            check_raw(ctx, N, s_, None, "float64", "args/dim-omitted-fixed-sizes")
        check_var_raw(ctx, N, None, None, "real")
        if N <= 9:
            check_var_raw(ctx, N, [0, None, [1]][N % 3], None, ["complex", "hermitian", "PSD"][N % 3])
    for it in range(150 if quick else 1500):
        kind = int(ar.integers(5))
        if kind == 0:      # omitted dim on any size (perfect squares and not)
            N = int(ar.choice([4, 9, 16, 25])) if ar.integers(2) else int(ar.integers(2, 31))
            check_raw(ctx, N, [None, 0, 1, [0], [1], [1, 0], 2, -1][int(ar.integers(8))], None, "float64", "args/dim-omitted")
        elif kind == 1:    # scalar / one-element dim, dividing or not
            N = int(ar.integers(2, 25))
            d = int(ar.choice([x for x in range(1, N + 1) if N % x == 0])) if ar.integers(2) else int(ar.integers(1, N + 2))
            check_raw(ctx, N, [None, 0, 1, [0], [1], [0, 1]][int(ar.integers(6))], d if ar.integers(2) else [d], str(ar.choice(["float64", "complex128"])), "args/dim-scalar")
        else:              # list dim, sys lists with repeated / negative / out-of-range entries and wrong products
            n = int(ar.integers(2, 5))
            dims = gen.rand_dims(ar, n, 1, 3, 24)
            N = int(np.prod(dims))
            if N < 2:
                continue
            k = int(ar.integers(1, n + 1))
            sys_l = [int(x) for x in ar.integers(-1 if kind == 2 else 0, n + (1 if kind == 2 else 0), size=k)] if kind in (2, 3) else [int(x) for x in ar.permutation(n)[:k]]
            if kind == 4 and ar.integers(3) == 0:
                dims = list(dims)
                dims[int(ar.integers(n))] += 1      # product no longer matches
            sys_arg = sys_l[0] if len(sys_l) == 1 and ar.integers(2) else sys_l
            check_raw(ctx, N, sys_arg, dims, str(ar.choice(["int64", "float64"])), "args/list")
    if not quick:
        # all subsets in all listing orders for all dim vectors with product <= 24, n <= 4
        for n in range(1, 5):
            for dims in gen.all_dim_vectors(n, 1, 4, 24):
                if int(np.prod(dims)) < 2:
                    continue
                for k in range(1, n + 1):
                    for S in itertools.permutations(range(n), k):
                        check(ctx, dims, list(S), "list", "complex128")
        # full E_ij basis determination on small sizes
        for dims, S in [([2, 3], [0]), ([2, 3], [1]), ([2, 2, 2], [2, 0]), ([3, 2, 2], [1]), ([2, 1, 3], [0, 1])]:
            N = int(np.prod(dims))
            for i in range(N):
                for j in range(N):
                    check(ctx, dims, S, "list", "float64", basis=(i, j))
        ctx.extra["exhaustive_small_space"] = "all subsets x listing orders x dim vectors (entries 1..4, product <= 24, n <= 4); E_ij bases for 5 configurations"


def replay(ctx, rec):
    a = rec["args"]
    if a.get("fn") == "partial_trace_var":
        return check_var(ctx, a["dims"], a["sys"], a["dim_form"], a["kind"])
    if a.get("fn") == "partial_trace_var_raw":
        return check_var_raw(ctx, a["N"], a["sys"], a["dim"], a["kind"])
    if a.get("fn") == "partial_trace_raw":
        return check_raw(ctx, a["N"], a["sys"], a["dim"], a["dtype"], "replay")
    s = a["sys"]
    check(ctx, a["dims"], s, a["dim_form"], a["dtype"], a.get("variable", False), tuple(a["basis"]) if a.get("basis") else None)
