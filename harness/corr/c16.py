"""C16: matrix / state-set predicates and linear-algebra helpers of toqito against exact Lean models.

Predicates: every input is an exact matrix over Q[i] (built to satisfy the predicate exactly, or the same matrix
perturbed by a stated amount).  The Lean decider (Toq/Model/MatrixPreds.lean) certifies `yes` (definition holds
exactly) or `no` (violated by >= margin*(1+scale), margin = 1e-3); toqito gets the correctly rounded float image
and must return the same verdict; `unknown` inputs are dropped and counted.  Helper operations: exact equality with
the Lean mirror model on Gaussian-integer data; float outputs are checked through their defining relation."""
from __future__ import annotations

import contextlib
import io
import itertools
import math
from fractions import Fraction

import numpy as np

from toqito.matrix_ops import (calculate_vector_matrix_dimension, tensor, to_density_matrix, unvec, vec,
                               vectors_from_gram_matrix, vectors_to_gram_matrix)
from toqito.matrix_props import (commutant, has_same_dimension, is_anti_hermitian, is_circulant, is_commuting,
                                 is_density, is_diagonal, is_diagonally_dominant, is_hermitian, is_idempotent,
                                 is_identity, is_linearly_independent, is_nonnegative, is_normal, is_orthonormal,
                                 is_permutation, is_positive, is_positive_definite, is_positive_semidefinite,
                                 is_projection, is_pseudo_hermitian, is_pseudo_unitary, is_square, is_stochastic,
                                 is_symmetric, is_totally_positive, is_unitary, kp_norm, majorizes, spark, trace_norm)
from toqito.state_props import (is_ensemble, is_mixed, is_mutually_orthogonal, is_mutually_unbiased_basis, is_pure,
                                is_unextendible_product_basis)

from ..common import InfraError
from ..exact import Pure, case_rng, describe, present_nd, present_obj

RULE = ("predicates: for every predicate, size 1..6 and field (real / complex) the seeded generator builds exact matrices over Q[i] "
        "(Gaussian integers, rational unitaries from permutations, phases in {+-1,+-i}, Pythagorean Givens rotations and Cayley transforms, "
        "B B^H, U D U^H, ...) that satisfy the definition exactly, and the same matrices perturbed in one entry / one pair / by a shift "
        "of size 2^-3..2^-5 * (1+scale); the Lean decider must certify yes resp. no (violation >= 1e-3*(1+scale)), otherwise the input is dropped "
        "and counted as undetermined; toqito receives the correctly rounded float matrix; each verdict is re-asked under the "
        "property-preserving transformations (permutation / phase / rational-unitary similarity, transpose, conjugate, scaling). "
        "every definiteness verdict (PSD / PD / density / doubly non-negative), every linear-independence verdict and every commutant dimension of the "
        "exact model is additionally confirmed on every run by a certificate (L D L^H factor / negative-direction vector / left inverse / null vector / "
        "rank factorisation) computed independently in Python with Fractions and accepted by a checker proved sound in Lean. "
        "helpers: Gaussian-integer operands (exact equality with the Lean mirror), relation residuals for float outputs. "
        "non-trivial = size >= 2 and the matrix is neither diagonal nor a multiple of the identity (predicates), "
        "at least two operands / rectangular operand with both sides > 1 (helpers); distinct = hash of the exact input. "
        "tolerance stream (c16_tol.py): for every predicate with a tolerance (21 functions), about half of the (size 1..6, field) cells per run: a matrix built to satisfy the "
        "predicate exactly, with one entry moved / the matrix scaled / shifted by 0, 1/16, 1/2, 2, 16, 1024 times the tolerance atol + rtol*|entry|, default tolerances and "
        "explicit rtol / atol arguments ((1e-3,1e-6), (0,1e-7), (1e-4,0), (0,1e-6)); is_totally_positive with tol 1e-6 / 1e-4, sub_sizes None / [1] / [2], entries at -k*tol and nearly "
        "dependent row pairs; the tolerance-level Lean mirror decides the expected boolean (cases whose verdict changes when the tolerances are scaled by 1 -+ 1e-3 are dropped and "
        "counted as tol/borderline); argument guards (negative p/q, invalid mat_type strings, fewer than two vectors, empty matrix) are part of the mirrors. "
        "Presentation: besides the dtype drawn for a predicate's matrix (int64 / float64 / complex128 as the values allow), every ndarray handed to toqito "
        "(matrices, second matrices B, each vector / operator of a list independently, helper operands) is a re-presentation of the same values determined by the "
        "case: C / Fortran / strided / permuted-stride layout and, for list elements, second arguments and helper operands, float64 / int64 where the values "
        "allow — so pairs and lists mix real and complex dtypes; after every call the arguments (arrays, list objects, elements) are compared with a deep snapshot. "
        "Structured negative instances (c16_hard.py, corpus first, then seeded): pairs of orthonormal bases whose overlap table |<u_k|v_l>|^2 equals 1/d except on one 2x2 rectangle "
        "placed below / above the diagonal of the table or anywhere (d = 4 exactly over Q[i]: a complex Hadamard matrix with two rows mixed by a Pythagorean rotation; d = 3..6 as "
        "float unitaries with prescribed moduli, deviation 0.02..0.08, the float vectors being the exact input), both listing orders of the two bases, with and without a common unitary; "
        "mutually orthogonal sets containing zero vectors with at most / more members than the dimension (d = 1..6), reordered, and with one zero vector replaced by 1/4..1/16 of a member. "
        "Wave 5 (c16_w5.py): is_totally_positive with explicit sub_sizes that skip lower orders ([2], [3], [2,3], [1,3], [3,2]) on integer matrices found by an exact seeded search whose "
        "minors of the listed orders on consecutive rows and columns are all positive while one on non-adjacent rows / columns is negative, on matrices with negative entries whose minors of "
        "the listed orders are all positive, and on Pascal / Vandermonde / Cauchy matrices with one entry negated (each also transposed); strict floating-point stream: "
        "vectors_from_gram_matrix / vectors_to_gram_matrix (families with a zero vector, a repeated member, repeated basis vectors, the zero Gram matrix: exactly zero pivot), kp_norm, "
        "trace_norm, majorizes, commutant (zero, rank-deficient, zero-row matrices, zero vectors) evaluated in NumPy's default error state and with invalid / divide / overflow set to 'raise': same outcome demanded")
ASSUMPTIONS = [
    "rounding an exact rational matrix to float64 moves every entry by at most 2^-53 relative, far below the margin 1e-3*(1+scale) and the library tolerances",
    "float64 arithmetic on the small (Gaussian) integer operands of the helper operations is exact (entries < 2^8, at most 3 factors, at most 36 terms)",
    "numpy.linalg.svd / eigh / cholesky / scipy null_space are accurate to 1e-8*scale on the well-conditioned small inputs generated",
    "every exact oracle used is proved in Lean for all sizes: the rank behind spark, is_linearly_independent, the UPB search and the commutant nullity (C16.rank_correct, spark_spec, linIndepV_yes_iff, upb_no_iff, commutantDim_eq_finrank), the determinant of the minors of is_totally_positive and the inverse of the signature of is_pseudo_hermitian (C16.det_correct, inverse_correct, totallyPositive_yes_iff, pseudoHermitian_yes_iff), and the definiteness verdicts, which the model only gives after its own proved certificate checker accepted an LDL^H factorisation resp. a negative direction computed by the model (C16.psd_yes_sound, psd_no_sound, pd_yes_sound, pd_no_sound); the Python-side certificates are kept as an independent second confirmation",
    "tolerance stream: the float matrix handed to toqito is sent to Lean exactly (every float is a dyadic rational); the tolerance-level mirror evaluates |a-b| <= atol + rtol*|b| exactly (C16.isclose_is_numpy / allclose_is_numpy) and a case is used only if the verdict is the same at the tolerances scaled by 1-1e-3 and 1+1e-3, which dominates the rounding inside toqito (relative 1e-16 on matrices with entries of modulus <= ~50; products of at most three 6x6 matrices); the eigenvalue test of is_positive_semidefinite is modelled as positive semidefiniteness of (lower triangle of A) + |atol| I (C16.psd_shift_iff_eigenvalues), each such verdict confirmed by a certificate",
    "mutually unbiased bases are generated exactly only in dimensions 2, 4, 6 (entries in Q[i] up to a square-root normalisation); other dimensions only get violating inputs (among them float unitaries whose moduli are prescribed: all overlaps 1/d to 1e-15 except four that are off by >= 0.02; the Lean decider says no on the exact dyadic image because of those four)",
]

MARGIN = Fraction(1, 1000)
MJ = [1, 1000]


def _rj(x):
    x = Fraction(x)
    return [x.numerator, x.denominator]

# ------------------------------------------------------------------------------------------------
# exact matrices over Q[i]


def _obj(a):
    out = np.empty(np.shape(a), dtype=object)
    if out.size == 0:
        return out
    it = np.nditer(np.zeros(np.shape(a)), flags=["multi_index"])
    src = np.asarray(a, dtype=object)
    for _ in it:
        x = src[it.multi_index]
        out[it.multi_index] = x if isinstance(x, Fraction) else Fraction(int(x)) if isinstance(x, (int, np.integer)) else Fraction(x)
    return out


class QM:
    """exact matrix over Q[i] (object arrays of Fractions)"""

    def __init__(self, re, im=None):
        self.re = _obj(re)
        self.im = _obj(im) if im is not None else _obj(np.zeros(self.re.shape, dtype=int))

    @staticmethod
    def eye(n):
        return QM(np.eye(n, dtype=int))

    @staticmethod
    def zeros(r, c):
        return QM(np.zeros((r, c), dtype=int))

    @staticmethod
    def from_np(a):
        a = np.asarray(a)
        if np.iscomplexobj(a):
            return QM(a.real, a.imag)
        return QM(a)

    @staticmethod
    def from_json(j):
        r, c, d = j["r"], j["c"], j.get("den", 1)
        re = [[Fraction(j["re"][i * c + k], d) for k in range(c)] for i in range(r)]
        imv = j.get("im") or [0] * (r * c)
        im = [[Fraction(imv[i * c + k], d) for k in range(c)] for i in range(r)]
        return QM(np.array(re, dtype=object).reshape(r, c), np.array(im, dtype=object).reshape(r, c))

    @property
    def shape(self):
        return self.re.shape

    def copy(self):
        return QM(self.re.copy(), self.im.copy())

    def __matmul__(self, o):
        return QM(self.re.dot(o.re) - self.im.dot(o.im), self.re.dot(o.im) + self.im.dot(o.re))

    def __add__(self, o):
        return QM(self.re + o.re, self.im + o.im)

    def __sub__(self, o):
        return QM(self.re - o.re, self.im - o.im)

    def __neg__(self):
        return QM(-self.re, -self.im)

    def scale(self, re, im=0):
        re, im = Fraction(re), Fraction(im)
        return QM(self.re * re - self.im * im, self.re * im + self.im * re)

    @property
    def T(self):
        return QM(self.re.T.copy(), self.im.T.copy())

    @property
    def H(self):
        return QM(self.re.T.copy(), -self.im.T.copy())

    def conj(self):
        return QM(self.re.copy(), -self.im.copy())

    def is_real(self):
        return all(x == 0 for x in self.im.reshape(-1))

    def is_integral(self):
        return all(x.denominator == 1 for x in list(self.re.reshape(-1)) + list(self.im.reshape(-1)))

    def get(self, i, j):
        return (self.re[i, j], self.im[i, j])

    def add_entry(self, i, j, re=0, im=0):
        out = self.copy()
        out.re[i, j] += Fraction(re)
        out.im[i, j] += Fraction(im)
        return out

    def max_abs1(self):
        if self.re.size == 0:
            return Fraction(0)
        return max(abs(a) + abs(b) for a, b in zip(self.re.reshape(-1), self.im.reshape(-1)))

    def trace(self):
        n = min(self.shape)
        return (sum(self.re[i, i] for i in range(n)), sum(self.im[i, i] for i in range(n)))

    def to_np(self, force_complex=False, allow_int=False):
        r = np.array([[float(x) for x in row] for row in self.re.tolist()], dtype=float).reshape(self.shape)
        if self.is_real() and not force_complex:
            if allow_int and self.is_integral():
                return np.array([[int(x) for x in row] for row in self.re.tolist()], dtype=np.int64).reshape(self.shape)
            return r
        i = np.array([[float(x) for x in row] for row in self.im.tolist()], dtype=float).reshape(self.shape)
        return r + 1j * i

    def to_json(self):
        ents = list(self.re.reshape(-1)) + list(self.im.reshape(-1))
        d = 1
        for x in ents:
            d = d * x.denominator // math.gcd(d, x.denominator)
        r, c = self.shape
        out = {"r": int(r), "c": int(c), "den": int(d), "re": [int(x * d) for x in self.re.reshape(-1)]}
        if not self.is_real():
            out["im"] = [int(x * d) for x in self.im.reshape(-1)]
        return out

    def key(self):
        return self.to_json()

    def __eq__(self, o):
        return self.shape == o.shape and bool(np.all(self.re == o.re)) and bool(np.all(self.im == o.im))

    def is_trivial(self):
        """diagonal or size < 2: used for the non-triviality rule"""
        r, c = self.shape
        if min(r, c) < 2:
            return True
        return all((self.re[i, j] == 0 and self.im[i, j] == 0) for i in range(r) for j in range(c) if i != j)


class C:
    """exact complex rational scalar for elimination"""
    __slots__ = ("re", "im")

    def __init__(self, re, im=0):
        self.re, self.im = Fraction(re), Fraction(im)

    def __add__(s, o):
        return C(s.re + o.re, s.im + o.im)

    def __sub__(s, o):
        return C(s.re - o.re, s.im - o.im)

    def __mul__(s, o):
        return C(s.re * o.re - s.im * o.im, s.re * o.im + s.im * o.re)

    def inv(s):
        n = s.re * s.re + s.im * s.im
        return C(s.re / n, -s.im / n)

    def nz(s):
        return s.re != 0 or s.im != 0


def q_rows(A: QM):
    r, c = A.shape
    return [[C(A.re[i, j], A.im[i, j]) for j in range(c)] for i in range(r)]


def q_from_rows(rows):
    r, c = len(rows), len(rows[0]) if rows else 0
    return QM(np.array([[x.re for x in row] for row in rows], dtype=object).reshape(r, c),
              np.array([[x.im for x in row] for row in rows], dtype=object).reshape(r, c))


def q_inv(A: QM):
    """exact inverse (None if singular)"""
    n = A.shape[0]
    M = [row + [C(1 if i == j else 0) for j in range(n)] for i, row in enumerate(q_rows(A))]
    for c in range(n):
        p = next((r for r in range(c, n) if M[r][c].nz()), None)
        if p is None:
            return None
        M[c], M[p] = M[p], M[c]
        iv = M[c][c].inv()
        M[c] = [x * iv for x in M[c]]
        for r in range(n):
            if r != c and M[r][c].nz():
                t = M[r][c]
                M[r] = [x - t * y for x, y in zip(M[r], M[c])]
    return q_from_rows([row[n:] for row in M])


def q_rank(A: QM):
    M = q_rows(A)
    r, c = A.shape
    rk = 0
    for col in range(c):
        if rk >= r:
            break
        p = next((i for i in range(rk, r) if M[i][col].nz()), None)
        if p is None:
            continue
        M[rk], M[p] = M[p], M[rk]
        iv = M[rk][col].inv()
        for i in range(rk + 1, r):
            if M[i][col].nz():
                t = M[i][col] * iv
                M[i] = [x - t * y for x, y in zip(M[i], M[rk])]
        rk += 1
    return rk


def rref_data(S: QM):
    """exact Gauss-Jordan with row-operation tracking: returns (E, pivots, N) with E S = RREF(S), E invertible,
    N a basis of the null space (one column per free column of S, identity on the free coordinates)"""
    R, Cc = S.shape
    M = [row + [C(1 if i == j else 0) for j in range(R)] for i, row in enumerate(q_rows(S))]
    piv = []
    rk = 0
    for col in range(Cc):
        if rk >= R:
            break
        p = next((i for i in range(rk, R) if M[i][col].nz()), None)
        if p is None:
            continue
        M[rk], M[p] = M[p], M[rk]
        iv = M[rk][col].inv()
        M[rk] = [x * iv for x in M[rk]]
        for i in range(R):
            if i != rk and M[i][col].nz():
                t = M[i][col]
                M[i] = [x - t * y for x, y in zip(M[i], M[rk])]
        piv.append(col)
        rk += 1
    E = q_from_rows([row[Cc:] for row in M]) if R else QM.zeros(0, 0)
    free = [c for c in range(Cc) if c not in piv]
    N = [[C(0) for _ in free] for _ in range(Cc)]
    for fi, f in enumerate(free):
        N[f][fi] = C(1)
        for ri, pc in enumerate(piv):
            N[pc][fi] = C(0) - M[ri][f]
    return E, piv, free, (q_from_rows(N) if free and Cc else QM.zeros(Cc, 0))


def sel_matrix(rows, cols, ones):
    Q = QM.zeros(rows, cols)
    for (i, j) in ones:
        Q.re[i, j] = Fraction(1)
    return Q


# ------------------------------------------------------------------------------------------------
# generators of exact structured matrices

PYTH = [(3, 4, 5), (5, 12, 13), (8, 15, 17), (7, 24, 25), (4, 3, 5), (12, 5, 13)]
HYP = [(5, 4, 3), (5, 3, 4), (13, 12, 5), (13, 5, 12), (17, 8, 15)]  # (c, s, d): (c/d)^2 - (s/d)^2 = 1


def gint(rng, r, c, lim=4, cplx=True):
    re = rng.integers(-lim, lim + 1, size=(r, c))
    im = rng.integers(-lim, lim + 1, size=(r, c)) if cplx else np.zeros((r, c), dtype=int)
    return QM(re, im)


def perm_matrix(p):
    n = len(p)
    P = np.zeros((n, n), dtype=int)
    for i, j in enumerate(p):
        P[i, int(j)] = 1
    return QM(P)


def phase_matrix(rng, n, cplx):
    D = QM.zeros(n, n)
    for i in range(n):
        k = int(rng.integers(4 if cplx else 2))
        re, im = [(1, 0), (-1, 0), (0, 1), (0, -1)][k]
        D.re[i, i], D.im[i, i] = Fraction(re), Fraction(im)
    return D


def givens(rng, n, cplx):
    i, j = sorted(int(x) for x in rng.choice(n, size=2, replace=False))
    a, b, c = PYTH[int(rng.integers(len(PYTH)))]
    cs, sn = Fraction(a, c), Fraction(b, c)
    G = QM.eye(n)
    G.re[i, i] = cs
    G.re[j, j] = cs
    if cplx and rng.integers(2):
        # [[c, -s i], [-s i ... ]] : [[c, -s*ph],[s*conj(ph), c]] with ph = i
        G.re[i, j] = Fraction(0)
        G.im[i, j] = -sn
        G.re[j, i] = Fraction(0)
        G.im[j, i] = -sn
    else:
        G.re[i, j] = -sn
        G.re[j, i] = sn
    return G


def cayley(rng, n, cplx):
    B = gint(rng, n, n, 2, cplx)
    S = (B - B.H).scale(Fraction(1, int(rng.integers(2, 5))))
    I = QM.eye(n)
    return (I - S) @ q_inv(I + S)


def rand_unitary(rng, n, cplx, rich=True):
    U = perm_matrix(rng.permutation(n)) @ phase_matrix(rng, n, cplx)
    if n >= 2 and rich:
        if n <= 4 and rng.integers(3) == 0:
            U = cayley(rng, n, cplx) @ U
        else:
            for _ in range(int(rng.integers(1, 3))):
                U = givens(rng, n, cplx) @ U
    return U


def rand_hermitian(rng, n, cplx):
    B = gint(rng, n, n, 4, cplx)
    return B + B.H


def rand_psd(rng, n, cplx, rank=None):
    k = n if rank is None else rank
    B = gint(rng, n, max(k, 1), 3, cplx)
    if k == 0:
        return QM.zeros(n, n)
    return B @ B.H


def rand_unimodular(rng, n, cplx):
    """integer matrix with integer inverse: product of elementary matrices"""
    S = perm_matrix(rng.permutation(n))
    for _ in range(n):
        if n < 2:
            break
        i, j = (int(x) for x in rng.choice(n, size=2, replace=False))
        E = QM.eye(n)
        E.re[i, j] = Fraction(int(rng.integers(-2, 3)))
        if cplx:
            E.im[i, j] = Fraction(int(rng.integers(-1, 2)))
        S = E @ S
    return S


def diag_q(vals):
    n = len(vals)
    D = QM.zeros(n, n)
    for i, v in enumerate(vals):
        if isinstance(v, tuple):
            D.re[i, i], D.im[i, i] = Fraction(v[0]), Fraction(v[1])
        else:
            D.re[i, i] = Fraction(v)
    return D


def pascal(n):
    return QM(np.array([[math.comb(i + j, i) for j in range(n)] for i in range(n)], dtype=object))


def vandermonde(nodes, m):
    return QM(np.array([[Fraction(x) ** j for j in range(m)] for x in nodes], dtype=object))


def cauchy(xs, ys):
    return QM(np.array([[Fraction(1, 1) / (Fraction(x) + Fraction(y)) for y in ys] for x in xs], dtype=object))


def quiet(fn, *a, **k):
    """call toqito, swallowing its prints"""
    with contextlib.redirect_stdout(io.StringIO()):
        return fn(*a, **k)


def impure(ctx, guard, fn, desc, pres=None):
    """purity assertion: `guard = Pure(args...)` was taken before the call on exactly the objects handed to toqito"""
    why = guard.modified()
    if why:
        ctx.violation(f"{fn}: caller's arguments were modified", {"function": fn, "args": desc, "modified": why, "presentation": pres})
        return True
    return False


# ------------------------------------------------------------------------------------------------
# transformations that preserve properties (exact, on QM); each returns (A', args')


def _fieldU(rng, A, rich=True):
    return rand_unitary(rng, A.shape[0], not A.is_real() or bool(rng.integers(2)), rich)


def t_perm(rng, A, args):
    P = perm_matrix(rng.permutation(A.shape[0]))
    return P @ A @ P.T, args


def t_transpose(rng, A, args):
    return A.T, args


def t_conj(rng, A, args):
    return A.conj(), args


def t_neg(rng, A, args):
    return -A, args


def t_phase(rng, A, args):
    D = phase_matrix(rng, A.shape[0], True)
    return D @ A @ D.H, args


def t_unitary(rng, A, args):
    U = _fieldU(rng, A)
    return U @ A @ U.H, args


def t_scale(rng, A, args):
    return A.scale(int(rng.integers(2, 4))), args


def t_orth_congr(rng, A, args):
    Q = rand_unitary(rng, A.shape[0], False)
    return Q @ A @ Q.T, args


def t_left_unitary(rng, A, args):
    return _fieldU(rng, A) @ A, args


def t_similarity(rng, A, args):
    S = rand_unimodular(rng, A.shape[0], not A.is_real())
    return S @ A @ q_inv(S), args


def t_left_perm(rng, A, args):
    return perm_matrix(rng.permutation(A.shape[0])) @ A, args


def t_cyclic(rng, A, args):
    n = A.shape[0]
    s = int(rng.integers(n))
    P = perm_matrix([(i + s) % n for i in range(n)])
    return P @ A @ P.T, args


def t_add_identity(rng, A, args):
    return A + QM.eye(A.shape[0]).scale(int(rng.integers(1, 4))), args


def t_transpose_swap_type(rng, A, args):
    sw = {"left": "right", "right": "left", "doubly": "doubly"}
    return A.T, {**args, "mat_type": sw[args["mat_type"]]}


def t_pos_diag_scaling(rng, A, args):
    r, c = A.shape
    D1 = diag_q([int(x) for x in rng.integers(1, 4, size=r)])
    D2 = diag_q([int(x) for x in rng.integers(1, 4, size=c)])
    return D1 @ A @ D2, args


def t_reverse_both(rng, A, args):
    r, c = A.shape
    return perm_matrix(list(range(r))[::-1]) @ A @ perm_matrix(list(range(c))[::-1]), args


def t_pair_unitary(rng, A, args):
    U = _fieldU(rng, A)
    return U @ A @ U.H, {**args, "B": U @ args["B"] @ U.H}


def t_pair_swap(rng, A, args):
    return args["B"], {**args, "B": A}


def t_pair_transpose(rng, A, args):
    return A.T, {**args, "B": args["B"].T}


def t_block_unitary(rng, A, args):
    p, q = args["p"], args["q"]
    if p + q != A.shape[0]:
        return A.conj(), args
    W = QM.zeros(p + q, p + q)
    cplx = not A.is_real()
    if p:
        U = rand_unitary(rng, p, cplx)
        W.re[:p, :p], W.im[:p, :p] = U.re, U.im
    if q:
        V = rand_unitary(rng, q, cplx)
        W.re[p:, p:], W.im[p:, p:] = V.re, V.im
    return (W @ A) if rng.integers(2) else (A @ W), args


def t_pseudo_h_congruence(rng, A, args):
    U = _fieldU(rng, A, rich=False)
    return U @ A @ U.H, {**args, "B": (U @ args["B"] @ U.H).scale(int(rng.integers(1, 3)))}


# ------------------------------------------------------------------------------------------------
# perturbations: one entry (or a shift) of size 2^-k * (1 + scale), k in 3..5


def _delta(rng, A):
    return (1 + A.max_abs1()) * Fraction(1, 2 ** int(rng.integers(3, 6)))


def p_entry(rng, A, where="any", part="re"):
    """A with one entry moved; where: any / off / diag"""
    r, c = A.shape
    cand = [(i, j) for i in range(r) for j in range(c) if where == "any" or (where == "off") == (i != j)]
    if not cand:
        return None
    i, j = cand[int(rng.integers(len(cand)))]
    d = _delta(rng, A) * (1 if rng.integers(2) else -1)
    return A.add_entry(i, j, re=d if part == "re" else 0, im=d if part == "im" else 0)


def p_shift(rng, A, sign=-1):
    return A + QM.eye(A.shape[0]).scale(sign * _delta(rng, A))


# ------------------------------------------------------------------------------------------------
# predicate registry: name -> dict(impl, gen, pert, transforms, real_only)


def _np_of(rng, A, real_only=False):
    """float image of the exact matrix in one of the dtypes NumPy users pass"""
    if A.is_real():
        k = int(rng.integers(3))
        if k == 0 and A.is_integral():
            return A.to_np(allow_int=True), "int64"
        if k == 1 and not real_only:
            return A.to_np(force_complex=True), "complex128"
        return A.to_np(), "float64"
    return A.to_np(), "complex128"


def g_hermitian(rng, n, cplx):
    out = [("B+B^H", rand_hermitian(rng, n, cplx), {})]
    U = rand_unitary(rng, n, cplx)
    out.append(("UDU^H", U @ diag_q([int(x) for x in rng.integers(-3, 4, size=n)]) @ U.H, {}))
    return out


def pt_hermitian(rng, A, args):
    out = [("offdiag", p_entry(rng, A, "off"), args)]
    out.append(("diag-imag", p_entry(rng, A, "diag", "im"), args))
    return out


def g_anti(rng, n, cplx):
    B = gint(rng, n, n, 4, cplx)
    return [("B-B^H", B - B.H, {}), ("i*Herm", rand_hermitian(rng, n, cplx).scale(0, 1), {})]


def pt_anti(rng, A, args):
    return [("offdiag", p_entry(rng, A, "off"), args), ("diag-real", p_entry(rng, A, "diag", "re"), args)]


def g_symmetric(rng, n, cplx):
    B = gint(rng, n, n, 4, cplx)
    return [("B+B^T", B + B.T, {})]


def pt_offdiag(rng, A, args):
    return [("offdiag", p_entry(rng, A, "off"), args), ("offdiag-imag", p_entry(rng, A, "off", "im"), args)]


def g_normal(rng, n, cplx):
    U = rand_unitary(rng, n, cplx)
    D = diag_q([(int(a), int(b) if cplx else 0) for a, b in zip(rng.integers(-3, 4, size=n), rng.integers(-3, 4, size=n))])
    out = [("UDU^H", U @ D @ U.H, {}), ("unitary", rand_unitary(rng, n, cplx), {}), ("hermitian", rand_hermitian(rng, n, cplx), {})]
    B = gint(rng, n, n, 3, cplx)
    out.append(("skew", B - B.H, {}))
    out.append(("circulant", g_circulant(rng, n, cplx)[0][1], {}))
    return out


def pt_any(rng, A, args):
    return [("entry", p_entry(rng, A, "any"), args), ("entry-imag", p_entry(rng, A, "any", "im"), args)]


def g_unitary(rng, n, cplx):
    out = [("givens/perm/phase", rand_unitary(rng, n, cplx), {})]
    if 2 <= n <= 4:
        out.append(("cayley", cayley(rng, n, cplx), {}))
    out.append(("perm*phase", rand_unitary(rng, n, cplx, rich=False), {}))
    return out


def pt_unitary(rng, A, args):
    out = pt_any(rng, A, args)
    out.append(("scaled", A.scale(Fraction(9, 8)), args))
    return out


def hyp_rotation(rng, n, p, cplx):
    """identity with one hyperbolic rotation between a (+) index and a (-) index"""
    c, s, d = HYP[int(rng.integers(len(HYP)))]
    i, j = int(rng.integers(p)), p + int(rng.integers(n - p))
    G = QM.eye(n)
    G.re[i, i] = Fraction(c, d)
    G.re[j, j] = Fraction(c, d)
    if cplx and rng.integers(2):
        G.im[i, j] = Fraction(s, d)
        G.im[j, i] = -Fraction(s, d)
    else:
        G.re[i, j] = Fraction(s, d)
        G.re[j, i] = Fraction(s, d)
    return G


def g_pseudo_unitary(rng, n, cplx):
    p = int(rng.integers(0, n + 1))
    q = n - p
    args = {"p": p, "q": q}
    A = QM.eye(n)
    A, _ = t_block_unitary(rng, A, {"p": p, "q": q}) if not cplx else t_block_unitary(rng, A.scale(0, 1), args)
    if p and q:
        for _ in range(int(rng.integers(1, 3))):
            A = hyp_rotation(rng, n, p, cplx) @ A
        A, _ = t_block_unitary(rng, A, args)
    return [("J-unitary", A, args)]


def pt_pseudo_unitary(rng, A, args):
    out = pt_any(rng, A, args)
    p, q = args["p"], args["q"]
    out.append(("wrong-signature-size", A, {"p": p + 1, "q": q}))
    if p != q:
        out.append(("swapped-signature", A, {"p": q, "q": p}))
    return out


def rand_signature(rng, n, cplx):
    kind = int(rng.integers(3))
    if kind == 0:
        return diag_q([1 if rng.integers(2) else -1 for _ in range(n)])
    for _ in range(20):
        E = rand_hermitian(rng, n, cplx)
        if q_rank(E) == n:
            return E
    return QM.eye(n)


def g_pseudo_hermitian(rng, n, cplx):
    eta = rand_signature(rng, n, cplx)
    K = rand_hermitian(rng, n, cplx)
    return [("eta^-1 K", q_inv(eta) @ K, {"B": eta})]


def g_psd(rng, n, cplx):
    out = [("BB^H full", rand_psd(rng, n, cplx), {})]
    if n >= 2:
        out.append(("BB^H singular", rand_psd(rng, n, cplx, rank=int(rng.integers(1, n))), {}))
    out.append(("zero", QM.zeros(n, n), {}))
    return out


def pt_psd(rng, A, args):
    out = [("offdiag (not Hermitian)", p_entry(rng, A, "off"), args)]
    if q_rank(A) < A.shape[0]:
        out.append(("singular minus eps*I", p_shift(rng, A, -1), args))
    i = int(rng.integers(A.shape[0]))
    out.append(("negative diagonal entry", A.add_entry(i, i, re=-(A.re[i, i] + _delta(rng, A))), args))
    return out


def g_pd(rng, n, cplx):
    return [("BB^H+I", rand_psd(rng, n, cplx) + QM.eye(n), {}), ("BB^H+I rank1", rand_psd(rng, n, cplx, rank=1) + QM.eye(n).scale(2), {})]


def pt_pd(rng, A, args):
    out = [("offdiag (not Hermitian)", p_entry(rng, A, "off"), args)]
    S = rand_psd(rng, A.shape[0], not A.is_real(), rank=max(A.shape[0] - 1, 0))
    out.append(("singular minus eps*I", p_shift(rng, S, -1), args))
    out.append(("negated", -A, args))
    return out


def rand_density(rng, n, cplx, rank=None):
    while True:
        A = rand_psd(rng, n, cplx, rank)
        t = A.trace()[0]
        if t != 0:
            return A.scale(1 / t)


def g_density(rng, n, cplx):
    out = [("BB^H/tr", rand_density(rng, n, cplx), {})]
    out.append(("rank1", rand_density(rng, n, cplx, 1), {}))
    return out


def pt_density(rng, A, args):
    n = A.shape[0]
    out = [("trace off", A.scale(Fraction(9, 8)), args), ("offdiag (not Hermitian)", p_entry(rng, A, "off"), args)]
    if n >= 2:
        S = rand_density(rng, n, not A.is_real(), rank=n - 1)
        eps = Fraction(1, 16)
        out.append(("trace one, not PSD", (S - QM.eye(n).scale(eps)).scale(1 / (1 - n * eps)), args))
    return out


def g_idempotent(rng, n, cplx):
    k = int(rng.integers(0, n + 1))
    D = diag_q([1] * k + [0] * (n - k))
    U = rand_unitary(rng, n, cplx)
    S = rand_unimodular(rng, n, cplx)
    return [("orthogonal projection", U @ D @ U.H, {}), ("oblique SDS^-1", S @ D @ q_inv(S), {})]


def g_identity(rng, n, cplx):
    return [("I", QM.eye(n), {})]


def pt_identity(rng, A, args):
    out = pt_any(rng, A, args)
    out.append(("2I", A.scale(2), args))
    return out


def g_diagonal(rng, n, cplx):
    vals = []
    for _ in range(n):
        a, b = int(rng.integers(1, 5)) * (1 if rng.integers(2) else -1), int(rng.integers(-3, 4)) if cplx else 0
        vals.append((a, b))
    return [("diag", diag_q(vals), {})]


def g_diag_dominant(rng, n, cplx):
    out = []
    for strict in (True, False):
        A = gint(rng, n, n, 3, cplx)
        if cplx:
            # Pythagorean moduli for some entries so that exact ties are possible
            for i in range(n):
                for j in range(n):
                    if rng.integers(2):
                        a, b, _ = PYTH[int(rng.integers(len(PYTH)))]
                        A.re[i, j], A.im[i, j] = Fraction(a), Fraction(b)
        for i in range(n):
            s = sum(abs(complex(A.re[i, j], A.im[i, j])) for j in range(n) if j != i)
            A.re[i, i], A.im[i, i] = Fraction(math.ceil(s) + int(rng.integers(1, 4))), Fraction(0)
            if rng.integers(2):
                A.re[i, i] = -A.re[i, i]
        out.append(("gap>=1", A, {"strict": strict}))
    # exact tie (real integers): dominant only in the non-strict sense
    T = gint(rng, n, n, 3, False)
    for i in range(n):
        T.re[i, i] = sum(abs(T.re[i, j]) for j in range(n) if j != i)
    if n >= 2:
        out.append(("tie/nonstrict", T, {"strict": False}))
    return out


def pt_diag_dominant(rng, A, args):
    n = A.shape[0]
    i = int(rng.integers(n))
    out = []
    if n >= 2:
        s = sum(abs(complex(A.re[i, j], A.im[i, j])) for j in range(n) if j != i)
        B = A.copy()
        B.re[i, i], B.im[i, i] = Fraction(math.floor(s)) - _delta(rng, A) - 1, Fraction(0)
        if B.re[i, i] < 0:
            B.re[i, i] = Fraction(0)
        out.append(("diagonal too small", B, args))
        if A.is_real() and A.is_integral():
            T = A.copy()
            for k in range(n):
                T.re[k, k] = sum(abs(T.re[k, j]) for j in range(n) if j != k)
            out.append(("tie/strict", T, {"strict": True}))
    else:
        out.append(("zero 1x1 strict", QM.zeros(1, 1), {"strict": True}))
    return out


def g_permutation(rng, n, cplx):
    return [("perm", perm_matrix(rng.permutation(n)), {})]


def pt_permutation(rng, A, args):
    n = A.shape[0]
    out = [("entry", p_entry(rng, A, "any"), args)]
    if n >= 2:
        B = A.copy()
        B.re[1, :] = B.re[0, :]
        out.append(("duplicate row (0/1)", B, args))
        out.append(("doubly stochastic not 0/1", (A + perm_matrix([(i + 1) % n for i in range(n)]) @ A).scale(Fraction(1, 2)), args))
    out.append(("2P", A.scale(2), args))
    out.append(("zero", QM.zeros(n, n), args))
    return out


def g_circulant(rng, n, cplx):
    row = gint(rng, 1, n, 4, cplx)
    C_ = QM.zeros(n, n)
    for i in range(n):
        for j in range(n):
            C_.re[i, j], C_.im[i, j] = row.re[0, (j - i) % n], row.im[0, (j - i) % n]
    return [("circ(row)", C_, {})]


def pt_circulant(rng, A, args):
    out = pt_any(rng, A, args) if A.shape[0] >= 2 else []
    if A.shape[0] >= 3:
        out.append(("left-circulant (rows rotate the other way)", QM(A.re[::-1, :].copy(), A.im[::-1, :].copy()), args))
    return out


def rand_stochastic(rng, n, kind):
    if kind == "doubly":
        k = int(rng.integers(1, 4))
        w = [int(x) for x in rng.integers(1, 5, size=k)]
        M = QM.zeros(n, n)
        for wi in w:
            M = M + perm_matrix(rng.permutation(n)).scale(Fraction(wi, sum(w)))
        return M
    W = rng.integers(0, 5, size=(n, n))
    for i in range(n):
        if W[i].sum() == 0:
            W[i, int(rng.integers(n))] = 1
    M = QM(np.array([[Fraction(int(W[i, j]), int(W[i].sum())) for j in range(n)] for i in range(n)], dtype=object))
    return M if kind == "right" else M.T


def g_stochastic(rng, n, cplx):
    out = []
    for kind in ("left", "right", "doubly"):
        out.append((kind, rand_stochastic(rng, n, kind), {"mat_type": kind}))
    D = rand_stochastic(rng, n, "doubly")
    out.append(("doubly asked as left", D, {"mat_type": "left"}))
    out.append(("doubly asked as right", D, {"mat_type": "right"}))
    return out


def pt_stochastic(rng, A, args):
    n = A.shape[0]
    out = [("entry", p_entry(rng, A, "any"), args)]
    # sums stay 1 but one entry is negative
    i = int(rng.integers(n))
    if n >= 2:
        d = _delta(rng, A)
        zs = [j for j in range(n) if A.re[i, j] == 0] or [0]
        j = zs[0]
        k = (j + 1) % n
        if args["mat_type"] == "left":
            B = A.T.add_entry(i, j, re=-A.T.re[i, j] - d).add_entry(i, k, re=A.T.re[i, j] + d).T
        else:
            B = A.add_entry(i, j, re=-A.re[i, j] - d).add_entry(i, k, re=A.re[i, j] + d)
        if args["mat_type"] != "doubly":
            out.append(("negative entry, sums kept", B, args))
        R = rand_stochastic(rng, n, "right")
        out.append(("right asked as left", R, {"mat_type": "left"}))
        out.append(("left asked as doubly", R.T, {"mat_type": "doubly"}))
    return out


def g_nonnegative(rng, n, cplx):
    return [("ints>=0", QM(rng.integers(0, 5, size=(n, n))), {}), ("rationals>=0", QM(rng.integers(0, 9, size=(n, n))).scale(Fraction(1, 7)), {})]


def pt_negative_entry(rng, A, args):
    r, c = A.shape
    i, j = int(rng.integers(r)), int(rng.integers(c))
    return [("negative entry", A.add_entry(i, j, re=-A.re[i, j] - _delta(rng, A)), args)]


def g_doubly_nonneg(rng, n, cplx):
    B = QM(rng.integers(0, 4, size=(n, max(1, int(rng.integers(1, n + 1))))))
    return [("BB^T, B>=0", B @ B.T, {})]


def pt_doubly_nonneg(rng, A, args):
    out = pt_negative_entry(rng, A, args)
    n = A.shape[0]
    if n >= 2:
        # entrywise non-negative, symmetric, but indefinite
        M = QM(rng.integers(1, 4, size=(n, n)))
        M = M + M.T
        for i in range(n):
            M.re[i, i] = Fraction(0)
        out.append(("nonnegative symmetric, zero diagonal (indefinite)", M, args))
        out.append(("nonnegative not symmetric", p_entry(rng, A + QM(np.ones((n, n), dtype=int)), "off"), args))
    return out


def g_positive(rng, n, cplx):
    return [("ints>0", QM(rng.integers(1, 6, size=(n, n))), {})]


def pt_positive(rng, A, args):
    r, c = A.shape
    i, j = int(rng.integers(r)), int(rng.integers(c))
    out = pt_negative_entry(rng, A, args)
    out.append(("zero entry", A.add_entry(i, j, re=-A.re[i, j]), args))
    return out


def g_commuting(rng, n, cplx):
    M = gint(rng, n, n, 2, cplx)
    I = QM.eye(n)
    A = M @ M + M.scale(int(rng.integers(-2, 3))) + I.scale(int(rng.integers(-2, 3)))
    B = M.scale(int(rng.integers(1, 3))) + I.scale(int(rng.integers(-2, 3)))
    U = rand_unitary(rng, n, cplx)
    D1 = diag_q([int(x) for x in rng.integers(-3, 4, size=n)])
    D2 = diag_q([int(x) for x in rng.integers(-3, 4, size=n)])
    return [("polynomials of M", A, {"B": B}), ("simultaneously diagonal", U @ D1 @ U.H, {"B": U @ D2 @ U.H})]


def pt_commuting(rng, A, args):
    out = []
    for lab, A2, _ in pt_any(rng, A, args):
        out.append((lab, A2, args))
    return out


def g_totally_positive(rng, n, cplx):
    out = [("pascal", pascal(n), {})]
    nodes = sorted(set(int(x) for x in rng.integers(1, 7, size=n + 3)))[:n]
    while len(nodes) < n:
        nodes.append(nodes[-1] + 1)
    m = int(rng.integers(1, n + 1))
    out.append(("vandermonde (rectangular)", vandermonde(nodes, m), {}))
    xs = list(range(1, n + 1))
    ys = [Fraction(2 * k + 1, 2) for k in range(n)]
    out.append(("cauchy", cauchy(xs, ys), {}))
    if n >= 3:
        out.append(("pascal sub_sizes=[1,2]", pascal(n), {"sub_sizes": [1, 2]}))
    return out


def pt_totally_positive(rng, A, args):
    r, c = A.shape
    out = pt_negative_entry(rng, A, args)
    if r >= 2 and c >= 2 and (args.get("sub_sizes") is None or 2 in args["sub_sizes"]):
        i = int(rng.integers(r - 1))
        B = A.copy()
        B.re[[i, i + 1], :] = B.re[[i + 1, i], :]
        out.append(("two rows swapped (negative 2x2 minor)", B, args))
    return out


def _ss(args):
    return args.get("sub_sizes")


PREDS = {
    "hermitian": dict(impl=lambda M, a: is_hermitian(M), gen=g_hermitian, pert=pt_hermitian,
                      tr=[t_perm, t_transpose, t_conj, t_neg, t_phase, t_unitary, t_scale]),
    "anti_hermitian": dict(impl=lambda M, a: is_anti_hermitian(M), gen=g_anti, pert=pt_anti,
                           tr=[t_perm, t_transpose, t_conj, t_neg, t_phase, t_unitary, t_scale]),
    "symmetric": dict(impl=lambda M, a: is_symmetric(M), gen=g_symmetric, pert=pt_offdiag,
                      tr=[t_perm, t_transpose, t_conj, t_neg, t_scale, t_orth_congr]),
    "normal": dict(impl=lambda M, a: is_normal(M), gen=g_normal, pert=pt_any,
                   tr=[t_perm, t_transpose, t_conj, t_neg, t_phase, t_unitary, t_scale, t_add_identity]),
    "unitary": dict(impl=lambda M, a: is_unitary(M), gen=g_unitary, pert=pt_unitary,
                    tr=[t_perm, t_transpose, t_conj, t_neg, t_phase, t_unitary, t_left_unitary]),
    "pseudo_unitary": dict(impl=lambda M, a: is_pseudo_unitary(M, p=a["p"], q=a["q"]), gen=g_pseudo_unitary, pert=pt_pseudo_unitary,
                           tr=[t_block_unitary, t_conj, t_neg]),
    "pseudo_hermitian": dict(impl=lambda M, a: is_pseudo_hermitian(M, a["B_np"]), gen=g_pseudo_hermitian, pert=pt_any,
                             tr=[t_pseudo_h_congruence, t_scale]),
    "positive_semidefinite": dict(impl=lambda M, a: is_positive_semidefinite(M), gen=g_psd, pert=pt_psd,
                                  tr=[t_perm, t_transpose, t_conj, t_phase, t_unitary, t_scale]),
    "positive_definite": dict(impl=lambda M, a: is_positive_definite(M), gen=g_pd, pert=pt_pd,
                              tr=[t_perm, t_transpose, t_conj, t_phase, t_scale]),
    "density": dict(impl=lambda M, a: is_density(M), gen=g_density, pert=pt_density,
                    tr=[t_perm, t_transpose, t_conj, t_phase, t_unitary]),
    "idempotent": dict(impl=lambda M, a: is_idempotent(M), gen=g_idempotent, pert=pt_any,
                       tr=[t_perm, t_transpose, t_conj, t_phase, t_unitary, t_similarity]),
    "projection": dict(impl=lambda M, a: is_projection(M), gen=g_idempotent, pert=pt_any,
                       tr=[t_perm, t_transpose, t_conj, t_phase, t_unitary, t_similarity]),
    "identity": dict(impl=lambda M, a: is_identity(M), gen=g_identity, pert=pt_identity,
                     tr=[t_perm, t_transpose, t_conj, t_phase, t_unitary]),
    "diagonal": dict(impl=lambda M, a: is_diagonal(M), gen=g_diagonal, pert=pt_offdiag,
                     tr=[t_perm, t_transpose, t_conj, t_neg, t_phase, t_scale]),
    "diagonally_dominant": dict(impl=lambda M, a: is_diagonally_dominant(M, a["strict"]), gen=g_diag_dominant, pert=pt_diag_dominant,
                                tr=[t_perm, t_conj, t_neg, t_phase, t_scale]),
    "permutation": dict(impl=lambda M, a: is_permutation(M), gen=g_permutation, pert=pt_permutation,
                        tr=[t_perm, t_transpose, t_left_perm]),
    "circulant": dict(impl=lambda M, a: is_circulant(M), gen=g_circulant, pert=pt_circulant,
                      tr=[t_transpose, t_conj, t_neg, t_scale, t_cyclic, t_add_identity]),
    "stochastic": dict(impl=lambda M, a: is_stochastic(M, a["mat_type"]), gen=g_stochastic, pert=pt_stochastic,
                       tr=[t_perm, t_transpose_swap_type], real_only=True),
    "nonnegative": dict(impl=lambda M, a: is_nonnegative(M), gen=g_nonnegative, pert=pt_negative_entry,
                        tr=[t_perm, t_transpose, t_scale, t_left_perm], real_only=True),
    "doubly_nonnegative": dict(impl=lambda M, a: is_nonnegative(M, "doubly"), gen=g_doubly_nonneg, pert=pt_doubly_nonneg,
                               tr=[t_perm, t_transpose, t_scale], real_only=True),
    "positive": dict(impl=lambda M, a: is_positive(M), gen=g_positive, pert=pt_positive,
                     tr=[t_perm, t_transpose, t_scale, t_left_perm], real_only=True),
    "commuting": dict(impl=lambda M, a: is_commuting(M, a["B_np"]), gen=g_commuting, pert=pt_commuting,
                      tr=[t_pair_unitary, t_pair_swap, t_pair_transpose]),
    "totally_positive": dict(impl=lambda M, a: is_totally_positive(M, sub_sizes=_ss(a)) if _ss(a) else is_totally_positive(M),
                             gen=g_totally_positive, pert=pt_totally_positive,
                             tr=[t_transpose, t_scale, t_pos_diag_scaling, t_reverse_both], real_only=True),
}

REAL_ONLY_FIELDS = {"stochastic", "nonnegative", "doubly_nonnegative", "positive", "totally_positive", "permutation", "identity"}


def _lean_args(name, A, args):
    out = {"name": name, "A": A.to_json(), "margin": MJ}
    for k, v in args.items():
        if isinstance(v, QM):
            out[k] = v.to_json()
        elif k == "mat_type":
            out[k] = {"left": 0, "right": 1, "doubly": 2}[v]
        elif k == "strict":
            out[k] = bool(v)
        else:
            out[k] = v
    if name == "totally_positive" and "sub_sizes" not in out:
        out["sub_sizes"] = None
    return out


def _desc_args(args):
    return {k: (v.to_json() if isinstance(v, QM) else v) for k, v in args.items()}


def _args_from_desc(d):
    return {k: (QM.from_json(v) if isinstance(v, dict) and "re" in v else v) for k, v in d.items()}


def ldl_psd(A: QM):
    """exact A = L diag(D) L^H with unit lower triangular L and D >= 0 (None if A is not PSD)"""
    n = A.shape[0]
    M = q_rows(A)
    L = [[C(1 if i == j else 0) for j in range(n)] for i in range(n)]
    D = []
    for k in range(n):
        d = M[k][k]
        if d.im != 0 or d.re < 0:
            return None
        D.append(d.re)
        if d.re == 0:
            if any(M[i][k].nz() or M[k][i].nz() for i in range(k + 1, n)):
                return None
            continue
        inv = C(1 / d.re)
        for i in range(k + 1, n):
            L[i][k] = M[i][k] * inv
        for i in range(k + 1, n):
            for j in range(k + 1, n):
                lj = L[j][k]
                M[i][j] = M[i][j] - L[i][k] * C(d.re) * C(lj.re, -lj.im)
    return q_from_rows(L), D


def certify_definiteness(ctx, A: QM, psd: bool, mu: Fraction, what: str):
    """every definiteness verdict used is re-checked by a verified certificate checker:
    psd=True : A is PSD  (A = L D L^H, D >= 0);  psd=False : A + mu*I is not PSD (witness vector)"""
    n = A.shape[0]
    if psd:
        f = ldl_psd(A)
        ok = f is not None and ctx.lean().ask("c16_psd_cert", {"A": A.to_json(), "L": f[0].to_json(), "D": [_rj(x) for x in f[1]]}).get("ok")
        ctx.count("cert/psd")
    else:
        w, v = np.linalg.eigh(A.to_np(force_complex=True))
        x = v[:, 0]
        xq = QM(np.array([[Fraction(int(round(z.real * 2 ** 20)), 2 ** 20)] for z in x], dtype=object),
                np.array([[Fraction(int(round(z.imag * 2 ** 20)), 2 ** 20)] for z in x], dtype=object))
        ok = ctx.lean().ask("c16_npsd_cert", {"A": A.to_json(), "x": xq.to_json(), "mu": _rj(mu)}).get("ok")
        ctx.count("cert/not_psd")
    if not ok:
        raise InfraError(f"{what}: the exact decider's definiteness verdict (psd={psd}) is not confirmed by the verified certificate checker on {A.key()}")


def _definiteness_certificates(ctx, name, A, lv):
    if name not in ("positive_semidefinite", "positive_definite", "density", "doubly_nonnegative") or A.shape[0] != A.shape[1]:
        return
    mu = MARGIN * (1 + A.max_abs1())
    herm = A == A.H
    if lv == "yes":
        certify_definiteness(ctx, A - QM.eye(A.shape[0]).scale(mu) if name == "positive_definite" else A, True, mu, name)
    elif lv == "no" and herm and name in ("positive_semidefinite", "positive_definite"):
        certify_definiteness(ctx, A, False, mu, name)


def ask_pred(ctx, name, A, args, label, kind, expect=None, transformed=None, dtype_seed=None):
    """one question to both sides.  Returns the Lean verdict ('yes'/'no'/None when dropped)."""
    spec = PREDS[name]
    rng = ctx.rng
    lr = ctx.lean().ask("c16_pred", _lean_args(name, A, args))
    if "reject" in lr:
        lv = "reject:" + lr["reject"]
    else:
        lv = lr["v"]
    desc = {"pred": name, "A": A.key(), "args": _desc_args(args), "label": label, "kind": kind, "transformed": transformed}
    if lv == "unknown":
        ctx.count(f"undetermined/{name}/{kind}")
        return None
    _definiteness_certificates(ctx, name, A, lv)
    if expect is not None and lv != expect:
        if transformed or kind == "no":
            # a perturbation / transformation that does not have the intended effect is simply not used
            ctx.count(f"unintended/{name}/{kind}")
            if kind == "no" and not transformed:
                return None
        else:
            raise InfraError(f"generator for {name} ({label}) produced a matrix the Lean decider calls {lv}: {desc}")
    M, dt = _np_of(rng, A, spec.get("real_only", False))
    prng = case_rng("c16/pred", name, desc["A"], desc["args"])      # presentation: a function of the exact input alone
    M = present_nd(prng, M, allow_dtype=False)                        # the dtype was drawn above (respecting real_only); the layout varies here
    a2 = dict(args)
    if "B" in args:
        # second matrix: its own layout and dtype (a real-valued B arrives as complex128, float64 or int64 whatever M is: mixed pairs)
        a2["B_np"] = present_nd(prng, args["B"].to_np(force_complex=True))
    guard = Pure(M, a2.get("B_np"))
    try:
        iv = quiet(spec["impl"], M, a2)
        iv = "yes" if bool(iv) else "no"
    except Exception as e:  # noqa: BLE001
        iv = f"raise:{type(e).__name__}:{str(e)[:80]}"
    desc["dtype"] = dt
    desc["presentation"] = describe([M, a2.get("B_np")])
    ctx.case(desc, (not A.is_trivial()), f"pred/{name}/{kind}{'/T' if transformed else ''}")
    impure(ctx, guard, f"is_{name}", desc)
    if lv.startswith("reject"):
        ok = iv.startswith("raise:ValueError")
    else:
        ok = iv == lv
    if not ok:
        ctx.violation(
            f"is_{name}: toqito says {iv}, the definition (exact decider) says {lv} on a matrix built as '{label}' [{kind}{', after ' + transformed if transformed else ''}]",
            {"function": f"is_{name}", "args": desc, "impl": iv, "model": lv, "theorem": "<pred>_yes_iff / <pred>_yes_sound / <pred>_no_sound / eqV_no_imp / <pred>_tolerance_agrees (Toq.C16)"})
    return lv


def run_pred(ctx, name, n, cplx, reps_tr=2):
    spec = PREDS[name]
    rng = ctx.rng
    for label, A, args in spec["gen"](rng, n, cplx):
        lv = ask_pred(ctx, name, A, args, label, "yes", expect="yes")
        if lv != "yes":
            continue
        trs = spec["tr"]
        for t in [trs[int(i)] for i in rng.choice(len(trs), size=min(reps_tr, len(trs)), replace=False)]:
            A2, args2 = t(rng, A, args)
            ask_pred(ctx, name, A2, args2, label, "yes", expect="yes", transformed=t.__name__)
        for plabel, B, bargs in spec["pert"](rng, A, args):
            if B is None:
                continue
            lv2 = ask_pred(ctx, name, B, bargs, f"{label} -> {plabel}", "no", expect="no")
            if lv2 != "no":
                continue
            t = trs[int(rng.integers(len(trs)))]
            B2, bargs2 = t(rng, B, bargs)
            ask_pred(ctx, name, B2, bargs2, f"{label} -> {plabel}", "no", expect="no", transformed=t.__name__)


def run_rectangular(ctx):
    """non-square inputs: every predicate guarded by is_square answers False; is_square itself"""
    rng = ctx.rng
    guarded = ["hermitian", "anti_hermitian", "symmetric", "normal", "unitary", "identity", "idempotent", "projection", "diagonal",
               "circulant", "positive_semidefinite", "density"]
    for r, c in [(1, 2), (2, 1), (2, 3), (3, 2), (4, 6), (6, 5), (1, 6)]:
        for cplx in (False, True):
            A = gint(rng, r, c, 3, cplx)
            for name in guarded:
                ask_pred(ctx, name, A, {}, "rectangular", "no", expect="no")
            ask_pred(ctx, "diagonally_dominant", A, {"strict": True}, "rectangular", "no", expect="no")
            ask_pred(ctx, "pseudo_unitary", A, {"p": 1, "q": r - 1}, "rectangular", "no", expect="no")
            if not cplx:
                ask_pred(ctx, "stochastic", QM(np.abs(A.re)), {"mat_type": "right"}, "rectangular", "no", expect="no")
    for r in range(1, 7):
        for c in range(1, 7):
            M = np.zeros((r, c))
            lv = ctx.lean().ask("c16_pred", {"name": "square", "A": QM.zeros(r, c).to_json(), "margin": MJ})["v"]
            iv = "yes" if is_square(M) else "no"
            ctx.case({"pred": "square", "r": r, "c": c}, r != c, "pred/square")
            if iv != lv:
                ctx.violation("is_square wrong", {"function": "is_square", "args": {"r": r, "c": c}, "impl": iv, "model": lv})


# ------------------------------------------------------------------------------------------------
# predicates on sets of vectors (columns of an exact d x n matrix V)


def _vec_list(rng, V: QM, form=None, scales=None):
    """list of float vectors (1-d arrays or (d,1) columns) from the columns of V; scales[k]: divide column k by sqrt(scales[k])"""
    d, n = V.shape
    form = form or ["1d", "col", "mixed"][int(rng.integers(3))]
    M = V.to_np()
    out = []
    frng = case_rng("c16/vecform", V.key())              # which vectors of a mixed list are columns: a function of the set alone
    for k in range(n):
        v = M[:, k].copy()
        if scales is not None:
            v = v / math.sqrt(float(scales[k]))
        col = form == "col" or (form == "mixed" and bool(frng.integers(2)))
        out.append(v.reshape(-1, 1) if col else v)
    return out, form


SET_IMPL = {
    "linearly_independent": lambda vl: is_linearly_independent(vl),
    "mutually_orthogonal": lambda vl: is_mutually_orthogonal(vl),
    "orthonormal": lambda arr: is_orthonormal(arr),
}


def ask_set(ctx, name, V, label, kind, expect=None, transformed=None, form=None):
    lr = ctx.lean().ask("c16_set_pred", {"name": name, "V": V.to_json(), "margin": MJ})
    lv = ("reject:" + lr["reject"]) if "reject" in lr else lr["v"]
    desc = {"setpred": name, "V": V.key(), "label": label, "kind": kind, "transformed": transformed}
    if lv == "unknown":
        ctx.count(f"undetermined/{name}/{kind}")
        return None
    if expect is not None and lv != expect:
        ctx.count(f"unintended/{name}/{kind}")
        if not transformed and kind == "yes":
            raise InfraError(f"generator for {name} ({label}) produced a set the Lean decider calls {lv}: {desc}")
        if not transformed:
            return None
    if name == "linearly_independent":
        E, piv, free, N = rref_data(V)
        if lv == "yes":
            W = QM(E.re[: V.shape[1], :], E.im[: V.shape[1], :])
            ok = ctx.lean().ask("c16_linindep_cert", {"V": V.to_json(), "W": W.to_json()}).get("ok")
        else:
            c = QM(N.re[:, :1], N.im[:, :1]) if N.shape[1] else QM.zeros(V.shape[1], 1)
            ok = ctx.lean().ask("c16_lindep_cert", {"V": V.to_json(), "c": c.to_json()}).get("ok")
        ctx.count(f"cert/linear_{'in' if lv == 'yes' else ''}dependence")
        if not ok:
            raise InfraError(f"linear independence verdict {lv} of the exact decider is not confirmed by the verified certificate checker: {desc}")
    vl, form = _vec_list(ctx.rng, V, form=form)             # form given: no draw from ctx.rng
    desc["form"] = form
    prng = case_rng("c16/set", name, desc["V"], form)
    if name == "orthonormal":
        arg = present_nd(prng, np.array([np.asarray(v).reshape(-1) for v in vl]))     # is_orthonormal takes one 2-d array (rows = vectors)
    else:
        arg = present_obj(prng, vl)                                                    # each vector independently: mixed dtypes / strided views
    guard = Pure(arg)
    try:
        iv = "yes" if bool(quiet(SET_IMPL[name], arg)) else "no"
    except Exception as e:  # noqa: BLE001
        iv = f"raise:{type(e).__name__}:{str(e)[:80]}"
    desc["presentation"] = describe(arg)
    ctx.case(desc, V.shape[0] >= 2 and V.shape[1] >= 2, f"setpred/{name}/{kind}{'/T' if transformed else ''}")
    impure(ctx, guard, f"is_{name}", desc)
    ok = iv.startswith("raise:ValueError") if lv.startswith("reject") else iv == lv
    if not ok:
        ctx.violation(f"is_{name}: toqito says {iv}, the definition (exact decider) says {lv} on a set built as '{label}' [{kind}]",
                      {"function": f"is_{name}", "args": desc, "impl": iv, "model": lv, "theorem": "eqV_yes_iff (Toq.C16)"})
    return lv


def set_transforms(rng, V):
    d, n = V.shape
    cplx = not V.is_real()
    out = [("common unitary", rand_unitary(rng, d, cplx) @ V), ("reordered", V @ perm_matrix(rng.permutation(n)))]
    out.append(("phases on the vectors", V @ phase_matrix(rng, n, cplx)))
    return out


def run_sets(ctx, d, cplx):
    rng = ctx.rng
    # linearly independent
    for k in range(1, d + 2):
        V = gint(rng, d, k, 3, cplx)
        lab = "random integer columns"
        if k >= 2 and rng.integers(2):
            coef = gint(rng, k - 1, 1, 2, cplx)
            W = QM(V.re[:, : k - 1], V.im[:, : k - 1]) @ coef
            V.re[:, k - 1], V.im[:, k - 1] = W.re[:, 0], W.im[:, 0]
            lab = "last column = combination of the others"
        lv = ask_set(ctx, "linearly_independent", V, lab, "any")
        for tl, V2 in set_transforms(rng, V):
            ask_set(ctx, "linearly_independent", V2, lab, "any", expect=lv, transformed=tl)
        if lv == "no" and d >= 2:
            ask_set(ctx, "linearly_independent", p_entry(rng, V, "any"), lab + " -> entry perturbed", "any")
    if d < 2:
        return
    # mutually orthogonal / orthonormal
    for k in range(2, d + 1):
        U = rand_unitary(rng, d, cplx)
        cols = [int(x) for x in rng.choice(d, size=k, replace=False)]
        V = QM(U.re[:, cols], U.im[:, cols])
        sc = diag_q([int(x) for x in rng.integers(1, 4, size=k)])
        for name, Vy, lab in (("orthonormal", V, "columns of a rational unitary"), ("mutually_orthogonal", V @ sc, "scaled columns of a rational unitary")):
            if ask_set(ctx, name, Vy, lab, "yes", expect="yes") != "yes":
                continue
            for tl, V2 in set_transforms(rng, Vy):
                ask_set(ctx, name, V2, lab, "yes", expect="yes", transformed=tl)
            perts = [("entry perturbed", p_entry(rng, Vy, "any"))]
            W = Vy.copy()
            dl = _delta(rng, Vy)
            W.re[:, 0] = W.re[:, 0] + dl * Vy.re[:, 1]
            W.im[:, 0] = W.im[:, 0] + dl * Vy.im[:, 1]
            perts.append(("v0 += delta*v1", W))
            if name == "orthonormal":
                S = Vy.copy()
                S.re[:, 0] = S.re[:, 0] * Fraction(9, 8)
                S.im[:, 0] = S.im[:, 0] * Fraction(9, 8)
                perts.append(("one vector scaled by 9/8 (orthogonal, not normalised)", S))
            for pl, B in perts:
                if ask_set(ctx, name, B, f"{lab} -> {pl}", "no", expect="no") == "no":
                    tl, B2 = set_transforms(rng, B)[int(rng.integers(3))]
                    ask_set(ctx, name, B2, f"{lab} -> {pl}", "no", expect="no", transformed=tl)


# ------------------------------------------------------------------------------------------------
# mutually unbiased bases: vector k is w_k / sqrt(s_k)

CONF6 = np.array([[0, 1, 1, 1, 1, 1], [1, 0, 1, -1, -1, 1], [1, 1, 0, 1, -1, -1], [1, -1, 1, 0, 1, -1], [1, -1, -1, 1, 0, 1], [1, 1, -1, -1, 1, 0]])
assert np.array_equal(CONF6 @ CONF6.T, 5 * np.eye(6, dtype=int)) and np.array_equal(CONF6, CONF6.T)


def mub_bases(d):
    """list of (W, s): columns of W / sqrt(s) form an orthonormal basis; the bases are pairwise unbiased"""
    I = np.eye(d, dtype=int)
    if d == 2:
        return [(I + 0j, 1), (np.array([[1, 1], [1, -1]]) + 0j, 2), (np.array([[1, 1], [1j, -1j]]), 2)]
    if d == 4:
        B = [I + 0j]
        B.append(np.array([[1, 1, 1, 1], [1, 1, -1, -1], [1, -1, -1, 1], [1, -1, 1, -1]]).T + 0j)
        B.append(np.array([[1, -1, -1j, -1j], [1, -1, 1j, 1j], [1, 1, 1j, -1j], [1, 1, -1j, 1j]]).T)
        B.append(np.array([[1, -1j, -1j, -1], [1, -1j, 1j, 1], [1, 1j, 1j, -1], [1, 1j, -1j, 1]]).T)
        B.append(np.array([[1, -1j, -1, -1j], [1, -1j, 1, 1j], [1, 1j, -1, 1j], [1, 1j, 1, -1j]]).T)
        return [(B[0], 1)] + [(b, 4) for b in B[1:]]
    if d == 6:
        return [(I + 0j, 1), (CONF6 + 1j * I, 6)]
    return [(I + 0j, 1)]


def ask_mub(ctx, V, s, label, kind, expect=None, transformed=None, form=None):
    d, n = V.shape
    base = {"V": V.to_json(), "s": [[x.numerator, x.denominator] for x in s], "margin": MJ}
    lv = ctx.lean().ask("c16_mub", {**base, "defn": True})["v"]
    lcode = ctx.lean().ask("c16_mub", {**base, "defn": False})["v"]
    desc = {"mub": True, "V": V.key(), "s": [str(x) for x in s], "label": label, "kind": kind, "transformed": transformed}
    if lv == "unknown":
        ctx.count(f"undetermined/mub/{kind}")
        return None
    if expect is not None and lv != expect:
        ctx.count(f"unintended/mub/{kind}")
        if kind == "yes" and not transformed:
            raise InfraError(f"MUB generator ({label}) produced a set the Lean decider calls {lv}")
        if not transformed:
            return None
    vl, form = _vec_list(ctx.rng, V, form=form, scales=s)   # form given: no draw from ctx.rng
    desc["form"] = form
    vl = present_obj(case_rng("c16/mub", desc["V"], desc["s"], form), vl)
    guard = Pure(vl)
    try:
        iv = "yes" if bool(is_mutually_unbiased_basis(vl)) else "no"
    except Exception as e:  # noqa: BLE001
        iv = f"raise:{type(e).__name__}:{str(e)[:80]}"
    desc["presentation"] = describe(vl)
    ctx.case(desc, d >= 2 and n >= 2 * d, f"mub/d={d}/{kind}{'/T' if transformed else ''}")
    impure(ctx, guard, "is_mutually_unbiased_basis", desc)
    if iv != lv:
        ctx.violation(
            f"is_mutually_unbiased_basis: toqito says {iv}, the documented definition says {lv} ({label}); cross-overlap-only reading says {lcode}",
            {"function": "is_mutually_unbiased_basis", "args": desc, "impl": iv, "model": lv, "model_cross_only": lcode,
             "theorem": "definition in the docstring: orthonormal bases, pairwise |<u,v>|^2 = 1/d"})
    return lv


def run_mub(ctx, d):
    rng = ctx.rng
    bases = mub_bases(d)
    Us = QM.from_np(bases[0][0])
    if len(bases) >= 2:
        for _ in range(3):
            nb = int(rng.integers(2, len(bases) + 1))
            pick = [int(x) for x in rng.choice(len(bases), size=nb, replace=False)]
            U = rand_unitary(rng, d, True, rich=bool(rng.integers(2)))
            cols, s = [], []
            for b in pick:
                W, sb = bases[b]
                order = rng.permutation(d)
                Wq = U @ QM.from_np(W[:, order])
                cols.append(Wq)
                s += [Fraction(sb)] * d
            V = QM(np.concatenate([c.re for c in cols], axis=1), np.concatenate([c.im for c in cols], axis=1))
            if ask_mub(ctx, V, s, f"{nb} known bases, common unitary", "yes", expect="yes") != "yes":
                continue
            # perturbations
            B = p_entry(rng, V, "any")
            ask_mub(ctx, B, s, "one entry perturbed", "no", expect="no")
            W2 = V.copy()
            W2.re[:, d], W2.im[:, d] = V.re[:, 0].copy(), V.im[:, 0].copy()
            s2 = list(s)
            s2[d] = s[0]
            ask_mub(ctx, W2, s2, "first vector of basis 2 replaced by first vector of basis 1", "no", expect="no")
            # a block that is not an orthonormal basis although all cross overlaps are 1/d
            W3 = V.copy()
            W3.re[:, 1], W3.im[:, 1] = V.re[:, 0].copy(), V.im[:, 0].copy()
            ask_mub(ctx, W3, s, "vector 1 of basis 1 replaced by a copy of vector 0 (block not a basis)", "no", expect="no")
    # dimensions without exact bases, and generic violating inputs
    for _ in range(2):
        U = rand_unitary(rng, d, True)
        V = QM(np.concatenate([Us.re, U.re], axis=1), np.concatenate([Us.im, U.im], axis=1))
        ask_mub(ctx, V, [Fraction(1)] * (2 * d), "standard basis + columns of a rational unitary", "any")
    # one block that is not a basis
    W = QM.from_np(np.eye(d, dtype=int))
    if d >= 2:
        W.re[:, 1] = W.re[:, 0]
        ask_mub(ctx, W, [Fraction(1)] * d, "single block with a repeated vector", "no", expect="no")
    # wrong count
    if d >= 2:
        Wc = QM(Us.re[:, : d - 1], Us.im[:, : d - 1])
        ask_mub(ctx, Wc, [Fraction(1)] * (d - 1), "number of vectors not a multiple of d", "no", expect="no")


# ------------------------------------------------------------------------------------------------
# unextendible product bases (integer local factors)


def kron_vec(fs):
    out = np.array([1], dtype=complex)
    for f in fs:
        out = np.kron(out, np.asarray(f, dtype=complex))
    return out


def upb_families():
    t = lambda *x: list(x)  # noqa: E731
    tiles = [[t(1, 0, 0), t(1, -1, 0)], [t(0, 0, 1), t(0, 1, -1)], [t(1, -1, 0), t(0, 0, 1)], [t(0, 1, -1), t(1, 0, 0)], [t(1, 1, 1), t(1, 1, 1)]]
    e0, e1, ep, em = t(1, 0), t(0, 1), t(1, 1), t(1, -1)
    shifts = [[e0, e1, ep], [e1, ep, e0], [ep, e0, e1], [em, em, em]]
    return [("tiles", [3, 3], tiles), ("shifts", [2, 2, 2], shifts)]


def ask_upb(ctx, dims, local, label, kind, expect=None, normalise=True):
    """local: list of vectors, each a list of local integer factors"""
    rng = ctx.rng
    fulls = [kron_vec(fs) for fs in local]
    V = QM.from_np(np.array(fulls).T)
    base = {"V": V.to_json(), "dims": list(dims), "margin": MJ}
    lr = ctx.lean().ask("c16_upb", {**base, "surj": True})
    lr_all = ctx.lean().ask("c16_upb", {**base, "surj": False})
    desc = {"upb": True, "dims": list(dims), "local": local, "label": label, "kind": kind, "normalise": normalise}
    if "reject" in lr or lr["v"] == "unknown":
        ctx.count(f"undetermined/upb/{kind}")
        return None
    lv = lr["v"]
    if lr_all.get("v") != lv and len(local) >= len(dims):
        raise InfraError(f"UPB decider: surjective-only and all-assignments searches disagree on {desc}")
    if expect is not None and lv != expect:
        raise InfraError(f"UPB generator ({label}) produced a set the Lean decider calls {lv}: {desc}")
    vl = []
    for f in fulls:
        v = f.real.copy() if np.all(f.imag == 0) else f.copy()
        if normalise is True:
            v = v / np.linalg.norm(v)
        elif isinstance(normalise, (int, float)) and not isinstance(normalise, bool):
            v = v * float(normalise)      # the whole set rescaled by a power of two: still the same product vectors
        vl.append(v)
    vl0 = vl
    vl = present_obj(case_rng("c16/upb", list(dims), local, normalise), vl)     # the harness keeps vl0 for the witness check below
    pdims = list(dims)
    guard = Pure(vl, pdims)
    try:
        res = quiet(is_unextendible_product_basis, vl, pdims)
        iv = "yes" if bool(res[0]) else "no"
        wit = res[1]
    except Exception as e:  # noqa: BLE001
        iv, wit = f"raise:{type(e).__name__}:{str(e)[:80]}", None
    desc["presentation"] = describe(vl)
    ctx.case(desc, len(local) >= 2, f"upb/{label.split(' ')[0]}/{kind}")
    impure(ctx, guard, "is_unextendible_product_basis", desc)
    vl = vl0
    if iv != lv:
        ctx.violation(f"is_unextendible_product_basis: toqito says {iv}, exact search says {lv} ({label})",
                      {"function": "is_unextendible_product_basis", "args": desc, "impl": iv, "model": lv, "theorem": "upb_no_iff / upb_order_independent / upb_surjective_search_suffices (Toq.C16)"})
    elif iv == "no":
        w = np.asarray(wit).reshape(-1)
        res_o = max(abs(np.vdot(v, w)) for v in vl) if len(w) == len(vl[0]) else 1.0
        if len(w) != len(vl[0]) or not (abs(np.linalg.norm(w) - 1) <= 1e-8) or not (res_o <= 1e-8):
            ctx.violation("is_unextendible_product_basis: the returned witness is not a unit vector orthogonal to all inputs",
                          {"function": "is_unextendible_product_basis", "args": desc, "impl": str(w)[:200], "residual": float(res_o)})
    return lv


def local_transform(rng, dims, local):
    """apply a rational local unitary on every party and reorder the vectors"""
    Us = [rand_unitary(rng, d, False, rich=False) for d in dims]
    out = []
    for fs in local:
        nf = []
        for U, f in zip(Us, fs):
            w = U @ QM(np.array(f, dtype=object).reshape(-1, 1))
            nf.append([int(x) for x in w.re[:, 0]])
        out.append(nf)
    order = rng.permutation(len(out))
    return [out[int(i)] for i in order]


def run_upb(ctx):
    rng = ctx.rng
    for name, dims, local in upb_families():
        ask_upb(ctx, dims, local, f"{name} (all vectors)", "yes", expect="yes", normalise=True)
        ask_upb(ctx, dims, local, f"{name} (all vectors, unnormalised integers)", "yes", expect="yes", normalise=False)
        ask_upb(ctx, dims, local, f"{name} (all vectors, integers times 2^9)", "yes", expect="yes", normalise=512)
        ask_upb(ctx, dims, local, f"{name} (all vectors, integers times 2^-9)", "yes", expect="yes", normalise=1.0 / 512)
        for _ in range(2):
            ask_upb(ctx, dims, local_transform(rng, dims, local), f"{name} (local signed permutations, reordered)", "yes", expect="yes")
        for drop in range(len(local)):
            sub = [v for i, v in enumerate(local) if i != drop]
            ask_upb(ctx, dims, sub, f"{name} minus vector {drop}", "no", expect="no")
        ask_upb(ctx, dims, local[:2], f"{name} first two vectors", "no", expect="no")
        ask_upb(ctx, dims, local[:1], f"{name} single vector", "no", expect="no")
    ask_upb(ctx, [2, 2], [[[1, 0], [1, 0]], [[0, 1], [0, 1]]], "diag |00>,|11>", "no", expect="no")
    ask_upb(ctx, [2, 3], [[[1, 0], [1, 0, 0]], [[0, 1], [0, 1, 0]], [[1, 1], [0, 0, 1]]], "diag 2x3 three orthogonal products", "no", expect="no")
    # orthogonal product sets in EVERY listing order (and with the "no" families reordered): the verdict is a property
    # of the set, not of the order of the list.  Sets: subsets of {a_i (x) b_{i,j}} with an orthogonal integer basis
    # (a_i) of party A and, for each i, an orthogonal integer basis (b_{i,j}) of party B.
    import itertools
    quick = ctx.tier == "quick"
    bases = {2: [[[1, 0], [0, 1]], [[1, 1], [1, -1]]],
             3: [[[1, 0, 0], [0, 1, 0], [0, 0, 1]], [[1, 1, 0], [1, -1, 0], [0, 0, 1]], [[1, 1, 1], [1, -1, 0], [1, 1, -2]]]}
    sets = []
    for _ in range(8 if quick else 60):
        dA, dB = [(2, 2), (2, 3), (3, 2), (3, 3)][int(rng.integers(4))]
        A = bases[dA][int(rng.integers(len(bases[dA])))]
        full = []
        for a in A:
            B = bases[dB][int(rng.integers(len(bases[dB])))]
            full += [[a, b] for b in B]
        k = int(rng.integers(2, min(len(full), 5)))
        pick = [full[int(i)] for i in rng.choice(len(full), size=k, replace=False)]
        sets.append(([dA, dB], pick, "orthogonal product subset"))
    for name, dims, local in upb_families():
        for drop in range(len(local)):
            sets.append((dims, [v for i, v in enumerate(local) if i != drop], f"{name} minus vector {drop}"))
    for dims, local, label in sets:
        orders = list(itertools.permutations(range(len(local))))
        cap = 4 if quick else 24
        if len(orders) > cap:
            orders = [orders[int(i)] for i in rng.choice(len(orders), size=cap, replace=False)]
        for od in orders:
            ask_upb(ctx, dims, [local[i] for i in od], f"{label}, listing order {list(od)}", "order", expect=None)


# ------------------------------------------------------------------------------------------------
# pure / mixed / ensemble


def ask_list_pred(ctx, name, mats, label, kind, expect=None):
    lv = ctx.lean().ask("c16_list_pred", {"name": name, "As": [m.to_json() for m in mats], "margin": MJ})["v"]
    desc = {"listpred": name, "As": [m.key() for m in mats], "label": label, "kind": kind}
    if lv == "unknown":
        ctx.count(f"undetermined/{name}/{kind}")
        return None
    if expect is not None and lv != expect:
        raise InfraError(f"generator for {name} ({label}) produced a list the Lean decider calls {lv}")
    fn = is_pure if name == "pure_list" else is_ensemble
    arrs = present_obj(case_rng("c16/list", name, desc["As"]), [m.to_np(force_complex=True) for m in mats])    # real-valued states: complex128, float64 or int64
    guard = Pure(arrs)
    try:
        iv = "yes" if bool(quiet(fn, arrs)) else "no"
    except Exception as e:  # noqa: BLE001
        iv = f"raise:{type(e).__name__}:{str(e)[:80]}"
    desc["presentation"] = describe(arrs)
    ctx.case(desc, len(mats) >= 2 and mats[0].shape[0] >= 2, f"listpred/{name}/{kind}")
    impure(ctx, guard, fn.__name__, desc)
    if iv != lv:
        ctx.violation(f"{fn.__name__} (list): toqito says {iv}, the definition says {lv} ({label})",
                      {"function": fn.__name__, "args": desc, "impl": iv, "model": lv, "theorem": "pure_yes_sound / pure_no_sound / ensemble_yes_sound (Toq.C16)"})
    return lv


PREDS["pure"] = dict(impl=lambda M, a: is_pure(M), gen=None, pert=None, tr=[t_perm, t_transpose, t_conj, t_phase, t_unitary])
PREDS["mixed"] = dict(impl=lambda M, a: is_mixed(M), gen=None, pert=None, tr=[t_perm, t_transpose, t_conj, t_phase, t_unitary])


def run_states(ctx, n, cplx):
    rng = ctx.rng
    pure = [rand_density(rng, n, cplx, 1) for _ in range(3)]
    mixed = [rand_density(rng, n, cplx, int(rng.integers(2, n + 1))) for _ in range(3)] if n >= 2 else []
    for rho in pure:
        for name, exp in (("pure", "yes"), ("mixed", "no")):
            ask_pred(ctx, name, rho, {}, "u u^H / <u,u>", exp, expect=exp)
            t = PREDS[name]["tr"][int(rng.integers(5))]
            ask_pred(ctx, name, t(rng, rho, {})[0], {}, "u u^H / <u,u>", exp, expect=exp, transformed=t.__name__)
    for rho in mixed:
        for name, exp in (("pure", "no"), ("mixed", "yes")):
            lv = ask_pred(ctx, name, rho, {}, "B B^H / tr, rank >= 2", exp)
            if lv is not None:
                t = PREDS[name]["tr"][int(rng.integers(5))]
                ask_pred(ctx, name, t(rng, rho, {})[0], {}, "B B^H / tr, rank >= 2", exp, expect=lv, transformed=t.__name__)
    ask_list_pred(ctx, "pure_list", pure, "all pure", "yes", expect="yes")
    if mixed:
        k = int(rng.integers(len(pure) + 1))
        ask_list_pred(ctx, "pure_list", pure[:k] + [mixed[0]] + pure[k:], "one mixed state in the list", "no")
    # ensembles
    m = int(rng.integers(1, 4))
    ops = [rand_psd(rng, n, cplx, int(rng.integers(0, n + 1))) for _ in range(m)]
    tot = sum(o.trace()[0] for o in ops)
    if tot != 0:
        ens = [o.scale(1 / tot) for o in ops]
        ask_list_pred(ctx, "ensemble", ens, "PSD operators, traces sum to 1", "yes", expect="yes")
        ask_list_pred(ctx, "ensemble", [e.scale(Fraction(9, 8)) for e in ens], "traces sum to 9/8", "no", expect="no")
        if n >= 2:
            S = rand_psd(rng, n, cplx, n - 1)
            eps = _delta(rng, S)
            bad = S - QM.eye(n).scale(eps)
            rest = rand_psd(rng, n, cplx, 1)
            bad = bad.scale(1 / (2 * max(bad.trace()[0], Fraction(1))))
            tb, tr_ = bad.trace()[0], rest.trace()[0]
            if tr_ != 0:
                lst = [bad, rest.scale((1 - tb) / tr_)]
                ask_list_pred(ctx, "ensemble", lst, "traces sum to 1 but one operator is not PSD", "no")


# ------------------------------------------------------------------------------------------------
# helper operations


def gmat_json(a):
    """Gaussian-integer numpy array (1-d -> 1 x n) as exact JSON"""
    a = np.asarray(a)
    if a.ndim == 1:
        a = a.reshape(1, -1)
    re = np.real(a)
    im = np.imag(a)
    if not (np.all(re == np.round(re)) and np.all(im == np.round(im))):
        raise InfraError("non-integer operand in an exact helper check")
    return {"r": int(a.shape[0]), "c": int(a.shape[1]), "re": [int(x) for x in re.reshape(-1)], "im": [int(x) for x in im.reshape(-1)]}


def same_as_model(out, model, shape=None):
    """exact comparison of a numpy result with the driver's integer matrix; shape: expected numpy shape"""
    out = np.asarray(out)
    if shape is not None and tuple(out.shape) != tuple(shape):
        return False
    flat = out.reshape(-1)
    if flat.size != len(model["re"]):
        return False
    return all(complex(x) == complex(a, b) for x, a, b in zip(flat, model["re"], model["im"]))


def rint(rng, shape, cplx, lim=9, dtype=None):
    re = rng.integers(-lim, lim + 1, size=shape)
    if cplx:
        return (re + 1j * rng.integers(-lim, lim + 1, size=shape)).astype(np.complex128)
    return re.astype(dtype or ("float64" if rng.integers(2) else "int64"))


def viol(ctx, what, fn, desc, impl=None, model=None, thm=None):
    ctx.violation(what, {"function": fn, "args": desc, "impl": impl, "model": model, "theorem": thm})


def _safe(fn, *a, **k):
    try:
        return ("ok", quiet(fn, *a, **k))
    except Exception as e:  # noqa: BLE001
        return ("raise", f"{type(e).__name__}: {str(e)[:120]}")


def _psafe(ctx, prng, desc, fn, *a, **k):
    """_safe on re-presentations of the ndarray arguments (nested lists element-wise; integer / float / complex as the values allow), with
    the purity assertion; prng None: the arguments as they are"""
    pa = present_obj(prng, tuple(a))
    guard = Pure(*pa, **k)
    out = _safe(fn, *pa, **k)
    impure(ctx, guard, getattr(fn, "__name__", "helper"), desc, describe(list(pa)))
    return out


def check_vec_unvec(ctx, r, c, cplx):
    rng = ctx.rng
    X = rint(rng, (r, c), cplx)
    desc = {"op": "vec/unvec", "X": gmat_json(X)}
    ctx.case(desc, r >= 2 and c >= 2 and r != c, "ops/vec")
    prng = case_rng("c16/vec", desc)
    v = _psafe(ctx, prng, desc, vec, X)
    mv = ctx.lean().ask("c16_vec", {"A": gmat_json(X)})
    if v[0] != "ok" or not same_as_model(v[1], mv, (r * c, 1)):
        return viol(ctx, "vec differs from column stacking", "vec", desc, str(v)[:300], mv, "vec_apply")
    # unvec with the explicit shape, on the column vector, the flat vector and a list
    forms = [("col", v[1]), ("flat", v[1].reshape(-1)), ("list", [complex(x) if cplx else x for x in v[1].reshape(-1).tolist()])]
    for fname, arg in forms:
        u = _psafe(ctx, prng, {**desc, "form": fname}, unvec, arg, [r, c])
        mu = ctx.lean().ask("c16_unvec", {"v": gmat_json(np.asarray(arg).reshape(1, -1)), "shape": [r, c]})
        ctx.count("ops/unvec/" + fname)
        if u[0] != "ok" or "reject" in mu or not same_as_model(u[1], mu, (r, c)):
            viol(ctx, f"unvec({fname}, shape) differs from the model", "unvec", {**desc, "form": fname}, str(u)[:300], mu, "unvec_vec")
        elif not np.array_equal(u[1], X):
            viol(ctx, "unvec(vec(X), shape) != X", "unvec", {**desc, "form": fname}, str(u[1])[:300], None, "unvec_vec")
    # default shape: square iff r == c
    u = _psafe(ctx, prng, desc, unvec, v[1])
    mu = ctx.lean().ask("c16_unvec", {"v": gmat_json(v[1].reshape(1, -1)), "shape": None})
    if "reject" in mu:
        if u[0] == "ok":
            viol(ctx, "unvec with default shape accepted a vector whose length is not a perfect square", "unvec", desc, str(u[1])[:200], mu)
    elif u[0] != "ok" or not same_as_model(u[1], mu):
        viol(ctx, "unvec with default shape differs from the model", "unvec", desc, str(u)[:300], mu, "unvec_default_vec")
    elif r == c and not np.array_equal(u[1], X):
        viol(ctx, "unvec(vec(X)) != X for square X", "unvec", desc, str(u[1])[:300], None, "unvec_default_vec")
    # vec(unvec(w)) = w
    w = rint(rng, (r * c, 1), cplx)
    pw = present_nd(prng, w)
    back = _safe(lambda: vec(unvec(pw, [r, c])))
    if back[0] != "ok" or not np.array_equal(back[1], w):
        viol(ctx, "vec(unvec(w, shape)) != w", "vec/unvec", {"w": gmat_json(w), "shape": [r, c]}, str(back)[:300], None, "vec_unvec")


def check_vec_mul_kron(ctx, m, n, p, q, cplx):
    rng = ctx.rng
    A, X, B = rint(rng, (m, n), cplx, 7), rint(rng, (n, p), cplx, 7), rint(rng, (p, q), cplx, 7)
    desc = {"op": "vec(AXB)", "A": gmat_json(A), "X": gmat_json(X), "B": gmat_json(B)}
    ctx.case(desc, min(m, n, p, q) >= 2 and len({m, n, p, q}) >= 2, "ops/vec_mul_kron")
    prng = case_rng("c16/vec_mul_kron", desc)
    pA, pX, pB = present_nd(prng, A), present_nd(prng, X), present_nd(prng, B)
    lhs = _safe(lambda: vec(pA @ pX @ pB))
    rhs = _safe(lambda: _psafe(ctx, prng, desc, tensor, pB.T, pA)[1] @ _psafe(ctx, prng, desc, vec, pX)[1])
    mk = ctx.lean().ask("c16_tensor", {"form": "many", "mats": [gmat_json(B.T), gmat_json(A)]})
    mr = ctx.lean().ask("c16_mul", {"A": mk, "B": ctx.lean().ask("c16_vec", {"A": gmat_json(X)})})
    if lhs[0] != "ok" or rhs[0] != "ok" or not np.array_equal(lhs[1], rhs[1]):
        return viol(ctx, "vec(A X B) != (B^T (x) A) vec(X)", "vec/tensor", desc, str(lhs)[:200] + " vs " + str(rhs)[:200], None, "vec_mul_kron")
    if not same_as_model(lhs[1], mr, (m * q, 1)):
        viol(ctx, "vec(A X B) differs from the model's (B^T (x) A) vec X", "vec/tensor", desc, str(lhs[1])[:200], mr, "vec_mul_kron")


def _rand_operands(rng, k, cplx, vectors):
    ops = []
    for _ in range(k):
        if vectors == "1d":
            ops.append(rint(rng, (int(rng.integers(1, 4)),), cplx, 5))
        elif vectors == "col":
            ops.append(rint(rng, (int(rng.integers(1, 4)), 1), cplx, 5))
        else:
            ops.append(rint(rng, (int(rng.integers(1, 4)), int(rng.integers(1, 4))), cplx, 5))
    return ops


def check_tensor(ctx, form, k, cplx, vectors):
    rng = ctx.rng
    if form == "many" and k == 1 and vectors == "1d":
        return  # a single 1-d array is iterated over its scalar entries: not a documented form
    ops = _rand_operands(rng, k, cplx, vectors)
    if cplx and k >= 2:
        # operand lists that mix real-valued and complex operands (a real one most often in front): decided by a stream derived from
        # the operands, so that the data stream ctx.rng is as before; a real-valued operand is then also handed over as float64 / int64
        mrng = case_rng("c16/tensor/mix", form, vectors, [gmat_json(o) for o in ops])
        if mrng.integers(2):
            j = 0 if mrng.integers(3) else int(mrng.integers(k))
            ops[j] = ops[j].real + 0j
    desc = {"op": "tensor", "form": form, "operands": [gmat_json(o) for o in ops], "shapes": [list(o.shape) for o in ops]}
    ctx.case(desc, k >= 2 and sum(1 for o in ops if o.size > 1) >= 2, f"ops/tensor/{form}/k={min(k, 4)}/{vectors}")
    prng = case_rng("c16/tensor", desc)
    out = _psafe(ctx, prng, desc, tensor, list(ops)) if form == "list" else _psafe(ctx, prng, desc, tensor, *ops)
    mo = ctx.lean().ask("c16_tensor", {"form": form, "mats": [gmat_json(o) for o in ops]})
    if "reject" in mo:
        if not (out[0] == "raise" and out[1].startswith("ValueError")):
            viol(ctx, "tensor: model raises ValueError, implementation does not", "tensor", desc, str(out)[:200], mo)
        return
    if "none" in mo:
        if not (out[0] == "ok" and out[1] is None):
            viol(ctx, "tensor([]) should return None as the code is written", "tensor", desc, str(out)[:200], mo)
        return
    if form == "many" and k == 1:
        # a single ndarray is read as the list of its rows (1-d arrays)
        shape = (int(ops[0].shape[1] ** ops[0].shape[0]),)
    elif vectors == "1d":
        shape = (int(np.prod([o.shape[0] for o in ops])),)
    else:
        shape = (int(np.prod([o.shape[0] for o in ops])), int(np.prod([o.shape[1] for o in ops])))
    if out[0] != "ok" or not same_as_model(out[1], mo, shape):
        return viol(ctx, "tensor differs from the Kronecker product of the model", "tensor", desc, str(out)[:300], mo, "kron_enc / tensor_assoc")
    if k >= 3:
        # associativity on the implementation side
        j = int(rng.integers(1, k - 1))
        left = tensor(tensor(*ops[: j + 1]) if j + 1 >= 2 else ops[0], tensor(*ops[j + 1 :]) if k - j - 1 >= 2 else ops[j + 1])
        if not np.array_equal(left, out[1]):
            viol(ctx, "tensor is not associative", "tensor", {**desc, "split": j}, str(left)[:200], None, "tensor_assoc")


def check_tensor_power(ctx, n, cplx, vectors):
    rng = ctx.rng
    A = _rand_operands(rng, 1, cplx, vectors)[0]
    while A.size ** max(n, 1) > 4096:
        A = _rand_operands(rng, 1, cplx, vectors)[0]
    desc = {"op": "tensor", "form": "power", "A": gmat_json(A), "shape": list(A.shape), "n": n}
    ctx.case(desc, n >= 2 and A.size > 1, f"ops/tensor/power/n={n}")
    prng = case_rng("c16/tensor_power", desc)
    out = _psafe(ctx, prng, desc, tensor, A, n)
    mo = ctx.lean().ask("c16_tensor", {"form": "power", "mats": [gmat_json(A)], "n": n})
    if out[0] != "ok" or not same_as_model(out[1], mo):
        return viol(ctx, "tensor(A, n) differs from the model's fast_exp", "tensor", desc, str(out)[:300], mo, "tensor_pow_eq_iterate")
    if n >= 1:
        it = ctx.lean().ask("c16_kron_pow", {"A": gmat_json(A), "n": n})
        rep = _psafe(ctx, prng, desc, tensor, [A] * n)
        if rep[0] != "ok" or not np.array_equal(rep[1], out[1]) or not same_as_model(out[1], it):
            viol(ctx, "tensor(A, n) differs from the n-fold repeated product", "tensor", desc, str(out[1])[:200], it, "tensor_pow_eq_iterate")
    if n == 0 and not (out[1].shape == (1, 1) and out[1][0, 0] == 1):
        viol(ctx, "tensor(A, 0) is not the 1x1 identity", "tensor", desc, str(out[1])[:100])


def check_gram(ctx, d, n, cplx, rank=None, V=None):
    rng = ctx.rng
    if V is not None:
        V = np.asarray(V, dtype=complex if cplx else float)
    elif rank is None:
        V = rint(rng, (d, n), cplx, 5)
    else:
        V = rint(rng, (d, rank), cplx, 3) @ rint(rng, (rank, n), cplx, 2)
    vs = [V[:, k].copy() for k in range(n)]
    desc = {"op": "gram", "V": gmat_json(V), "rank_cap": rank}
    ctx.case(desc, d >= 2 and n >= 2, f"ops/gram/{'cplx' if cplx else 'real'}")
    prng = case_rng("c16/gram", desc)
    G = _psafe(ctx, prng, desc, vectors_to_gram_matrix, vs)
    mg = ctx.lean().ask("c16_gram", {"V": gmat_json(V)})
    if G[0] != "ok" or not same_as_model(G[1], mg, (n, n)):
        return viol(ctx, "vectors_to_gram_matrix differs from V^H V", "vectors_to_gram_matrix", desc, str(G)[:300], mg, "gram_apply")
    Gm = np.asarray(G[1])
    # round trip: the vectors returned for G must have Gram matrix G
    back = _psafe(ctx, prng, desc, vectors_from_gram_matrix, Gm.astype(complex) if cplx else Gm.astype(float))
    if back[0] != "ok":
        return viol(ctx, "vectors_from_gram_matrix raised on a Gram matrix", "vectors_from_gram_matrix", desc, back[1])
    ws = [np.asarray(w).reshape(-1) for w in back[1]]
    try:
        G2 = np.asarray(vectors_to_gram_matrix(ws))
        res = float(np.abs(G2 - Gm).max())
    except Exception as e:  # noqa: BLE001
        G2, res = None, float("inf")
    scale = 1 + float(np.abs(Gm).max())
    psd_rank = np.linalg.matrix_rank(Gm.astype(complex))
    ctx.count(f"ops/gram_roundtrip/{'full' if psd_rank == n else 'deficient'}/{'cplx' if cplx else 'real'}")
    if len(ws) != n or not (res <= 1e-8 * scale):       # `not <=`: a NaN residual is a failure
        conj_res = float(np.abs(G2 - Gm.conj()).max()) if G2 is not None and G2.shape == Gm.shape else None
        viol(ctx, f"Gram round trip: vectors_to_gram_matrix(vectors_from_gram_matrix(G)) differs from G by {res:.3g} (from conj(G) by {conj_res})",
             "vectors_from_gram_matrix", {**desc, "branch": "cholesky" if psd_rank == n else "eig", "complex": cplx}, str(G2)[:300], None,
             "gram_of_conj_rows / gram_eig_branch_factor (Toq.C16)")


def check_to_density(ctx, shape, cplx):
    rng = ctx.rng
    X = rint(rng, tuple(shape), cplx, 6)
    desc = {"op": "to_density_matrix", "shape": list(shape), "X": gmat_json(X) if X.ndim <= 2 else None}
    ctx.case(desc, X.size >= 2, f"ops/to_density/ndim={len(shape)}")
    prng = case_rng("c16/to_density", desc, [int(t) for t in np.real(X).reshape(-1)], [int(t) for t in np.imag(X).reshape(-1)])
    out = _psafe(ctx, prng, desc, to_density_matrix, X)
    flat = X.reshape(-1)
    mo = ctx.lean().ask("c16_to_density", {"shape": list(shape), "re": [int(x) for x in np.real(flat)], "im": [int(x) for x in np.imag(flat)]})
    dm = _psafe(ctx, prng, desc, calculate_vector_matrix_dimension, X)
    md = ctx.lean().ask("c16_calc_dim", {"shape": list(shape)})
    if "reject" in mo:
        if not (out[0] == "raise" and out[1].startswith("ValueError")):
            viol(ctx, "to_density_matrix should raise ValueError", "to_density_matrix", desc, str(out)[:200], mo)
    elif out[0] != "ok" or not same_as_model(out[1], mo, (mo["r"], mo["c"])):
        viol(ctx, "to_density_matrix differs from v v^H / identity on square input", "to_density_matrix", desc, str(out)[:300], mo, "outerConj_hermitian")
    if "reject" in md:
        if not (dm[0] == "raise" and dm[1].startswith("ValueError")):
            viol(ctx, "calculate_vector_matrix_dimension should raise ValueError", "calculate_vector_matrix_dimension", desc, str(dm)[:200], md)
    elif dm[0] != "ok" or int(dm[1]) != md["dim"]:
        viol(ctx, "calculate_vector_matrix_dimension wrong", "calculate_vector_matrix_dimension", desc, str(dm)[:200], md)


def check_same_dim(ctx, shapes):
    items = [np.zeros(tuple(s)) for s in shapes]
    desc = {"op": "has_same_dimension", "shapes": [list(s) for s in shapes]}
    out = _psafe(ctx, case_rng("c16/same_dim", desc), desc, has_same_dimension, items)
    mo = ctx.lean().ask("c16_same_dim", {"shapes": [list(s) for s in shapes]})
    ctx.case(desc, len(shapes) >= 2, "ops/has_same_dimension")
    if "reject" in mo:
        if not (out[0] == "raise" and out[1].startswith("ValueError")):
            viol(ctx, "has_same_dimension([]) should raise ValueError", "has_same_dimension", desc, str(out)[:200], mo)
    elif out[0] != "ok" or bool(out[1]) != mo["v"]:
        viol(ctx, "has_same_dimension wrong", "has_same_dimension", desc, str(out)[:200], mo)


def check_majorizes_vec(ctx, a, b, form):
    """a, b: lists of dyadic rationals (exact in float)"""
    fa, fb = [float(x) for x in a], [float(x) for x in b]
    if form == "array":
        pa, pb = np.array(fa), np.array(fb)
    elif form == "intlist" and all(Fraction(x).denominator == 1 for x in a + b):
        pa, pb = [int(x) for x in a], [int(x) for x in b]
    else:
        pa, pb = fa, fb
    desc = {"op": "majorizes", "a": [str(Fraction(x)) for x in a], "b": [str(Fraction(x)) for x in b], "form": form}
    out = _psafe(ctx, case_rng("c16/majorizes", desc), desc, majorizes, pa, pb)      # array form: strided views / int64 where the values allow
    mo = ctx.lean().ask("c16_majorizes", {"a": [_rj(x) for x in a], "b": [_rj(x) for x in b]})
    ctx.case(desc, len(a) >= 2 and len(b) >= 2, f"ops/majorizes/{'padded' if len(a) != len(b) else 'same_len'}/{mo['v']}")
    if out[0] != "ok" or bool(out[1]) != mo["v"]:
        viol(ctx, "majorizes differs from the partial-sum criterion", "majorizes", desc, str(out)[:200], mo, "majorizes_iff_partial_sums")


def check_majorizes_tol(ctx, a, b, label):
    """a, b: float lists; partial sums of a fall short of those of b by amounts around the tolerance -norm(a)*eps^(3/4) of the code"""
    fa, fb = np.array(a, dtype=float), np.array(b, dtype=float)
    sa = np.sort(fa)[::-1]
    L = max(len(fa), len(fb))
    tol_f = -float(np.linalg.norm(np.pad(sa, (0, L - len(sa)), "constant"))) * float(np.finfo(float).eps) ** (3 / 4)
    qa, qb = [_rj(Fraction(float(x))) for x in fa], [_rj(Fraction(float(x))) for x in fb]
    vs = [ctx.lean().ask("c16_majorizes", {"a": qa, "b": qb, "tol": _rj(Fraction(tol_f) * f)})["v"] for f in (Fraction(1, 2), 1, 2)]
    desc = {"op": "majorizes/tol", "a": [float(x) for x in fa], "b": [float(x) for x in fb], "label": label}
    if len(set(vs)) != 1:
        ctx.count("ops/majorizes/tol/borderline")
        return
    out = _psafe(ctx, case_rng("c16/majorizes_tol", desc), desc, majorizes, fa, fb)
    ctx.case(desc, len(a) >= 2, f"ops/majorizes/tol/{vs[1]}")
    if out[0] != "ok" or bool(out[1]) != vs[1]:
        viol(ctx, "majorizes differs from the partial-sum criterion with the tolerance term -norm(a)*eps^(3/4)", "majorizes", desc, str(out)[:200], vs[1], "majorizes_tol_iff (Toq.C16)")


def run_majorizes(ctx, count):
    rng = ctx.rng
    for _ in range(count // 5):
        n = int(rng.integers(2, 7))
        b = np.sort(rng.integers(1, 9, size=n).astype(float) / 4)[::-1]
        a = b.copy()
        # move mass upwards (a majorizes b), then remove a tiny amount from one entry: 1e-14 (inside the tolerance), 1e-9 (outside), relative to norm(a)
        i, j = sorted(int(x) for x in rng.choice(n, size=2, replace=False))
        a[i] += 0.25
        a[j] -= 0.25
        k = int(rng.integers(n))
        dfc = float(np.linalg.norm(a)) * float(rng.choice([1e-14, 1e-13, 1e-10, 1e-9]))
        a2 = a.copy()
        a2[k] -= dfc
        check_majorizes_tol(ctx, list(a2), list(b), f"deficit {dfc:.1e} at position {k}")
        check_majorizes_tol(ctx, list(b - dfc * (np.arange(n) == k)), list(b), f"b against itself minus {dfc:.1e}")
    check_majorizes_vec(ctx, [3, 0, 0], [1, 1, 1], "intlist")
    check_majorizes_vec(ctx, [1, 1, 1], [3, 0, 0], "intlist")
    check_majorizes_vec(ctx, [2, 2], [1, 1, 1, 1], "list")          # padding of a
    check_majorizes_vec(ctx, [1, 1, 1, 1], [2, 2], "array")        # padding of b
    check_majorizes_vec(ctx, [4, 1], [3, 2, 1], "list")            # b longer with larger total
    check_majorizes_vec(ctx, [-1, -2], [-3], "list")               # negative entries against the zero padding
    for _ in range(count):
        la, lb = int(rng.integers(1, 7)), int(rng.integers(1, 7))
        den = int(rng.choice([1, 2, 4, 8]))
        lo = -2 if rng.integers(4) == 0 else 0
        b = [Fraction(int(x), den) for x in rng.integers(lo, 9, size=lb)]
        kind = int(rng.integers(4))
        if kind == 0:
            a = [Fraction(int(x), den) for x in rng.integers(lo, 9, size=la)]
        else:
            # a obtained from b by moving mass upwards (majorizes b), possibly spoiled afterwards
            srt = sorted(b, reverse=True)
            a = list(srt)
            if len(a) >= 2:
                for _ in range(int(rng.integers(0, 3))):
                    i, j = sorted(int(x) for x in rng.choice(len(a), size=2, replace=False))
                    t = Fraction(int(rng.integers(0, 3)), den)
                    a[i] += t
                    a[j] -= t
            if kind == 2:
                a[int(rng.integers(len(a)))] -= Fraction(1, den)      # just below: partial sums fail by 1/den
            if kind == 3 and len(a) > 1 and a[-1] == 0:
                a = a[:-1]                                             # exercise the padding
            a = [a[int(i)] for i in rng.permutation(len(a))]
        check_majorizes_vec(ctx, a, b, str(rng.choice(["list", "array", "intlist"])))


def known_sv_matrix(rng, m, n, cplx, s):
    """U diag(s) V^H with exact rational unitaries; returns the exact matrix"""
    k = min(m, n)
    S = QM.zeros(m, n)
    for i in range(k):
        S.re[i, i] = Fraction(s[i])
    return rand_unitary(rng, m, cplx) @ S @ rand_unitary(rng, n, cplx).H


def run_norms(ctx, count):
    rng = ctx.rng
    for _ in range(count):
        m, n = int(rng.integers(1, 7)), int(rng.integers(1, 7))
        cplx = bool(rng.integers(2))
        k = min(m, n)
        s = sorted([Fraction(int(x), 2) for x in rng.integers(0, 13, size=k)], reverse=True)
        A = known_sv_matrix(rng, m, n, cplx, s)
        M = A.to_np()
        sf = np.array([float(x) for x in s])
        sv = np.linalg.svd(M, compute_uv=False)
        scale = 1 + float(sf.max())
        desc = {"op": "norms", "A": A.key(), "s": [str(x) for x in s]}
        ctx.case(desc, m >= 2 and n >= 2 and not A.is_trivial(), "ops/norms")
        if float(np.abs(sv - sf).max()) > 1e-9 * scale:
            raise InfraError(f"known-singular-value generator is off: {sv} vs {sf}")
        prng = case_rng("c16/norms", desc)
        tn = _psafe(ctx, prng, desc, trace_norm, M)
        if tn[0] != "ok" or not (abs(float(tn[1]) - float(sum(s))) <= 1e-9 * scale * k):
            viol(ctx, "trace_norm differs from the sum of the singular values", "trace_norm", desc, str(tn)[:100], float(sum(s)), "definition: sum of singular values")
        # the Frobenius shortcut (k >= min(shape), p == 2) against the exact sum of squared moduli of the float matrix
        Aq = QM.from_np(M)
        fro2 = sum(a * a + b * b for a, b in zip(Aq.re.reshape(-1), Aq.im.reshape(-1)))
        for kk in (k, k + 3):
            got = _psafe(ctx, prng, desc, kp_norm, M, kk, 2)
            ctx.count("ops/kp_norm/frobenius_exact")
            if got[0] != "ok" or not np.isfinite(float(got[1])) or abs(Fraction(float(got[1])) ** 2 - fro2) > Fraction(1, 10 ** 12) * (1 + fro2):
                viol(ctx, f"kp_norm(k={kk}, p=2) (Frobenius shortcut) differs from sqrt(sum |a_ij|^2)", "kp_norm", {**desc, "k": kk, "p": "2"}, str(got)[:100],
                     float(fro2) ** 0.5, "frobenius_eq_singular_values (Toq.C16)")
        for kk in sorted(set([1, k, int(rng.integers(1, k + 1)), k + 1])):
            for p in (1, 2, 3, np.inf):
                top = sf[:kk]
                want = float(top.max()) if p == np.inf else float((top ** p).sum() ** (1.0 / p))
                want_svd = float(np.linalg.norm(sv[:kk], ord=p))
                got = _psafe(ctx, prng, desc, kp_norm, M, kk, p)
                ctx.count(f"ops/kp_norm/p={p}/{'frobenius_branch' if (kk >= k and p == 2) else 'svd_branch'}")
                if got[0] != "ok" or not (abs(float(got[1]) - want) <= 1e-9 * scale * k) or not (abs(float(got[1]) - want_svd) <= 1e-9 * scale * k):
                    viol(ctx, f"kp_norm(k={kk}, p={p}) differs from the p-norm of the k largest singular values", "kp_norm",
                         {**desc, "k": kk, "p": str(p)}, str(got)[:100], want, "definition: (sum_{i<k} s_i^p)^(1/p)")
        # Hermitian matrices with eigenvalues of both signs: the singular values are the moduli of the eigenvalues, sorted by modulus
        if m >= 2 and _ % 2 == 0:
            U = rand_unitary(rng, m, cplx, rich=False).to_np()
            ev = np.array([float(x) for x in rng.permutation([-6.0, 1.0, 2.0, -0.5, 3.5, 0.0][:m])])
            H = U @ np.diag(ev) @ U.conj().T
            H = (H + H.conj().T) / 2
            sh = np.sort(np.abs(ev))[::-1]
            dh = {"op": "norms/hermitian-indefinite", "eigs": ev.tolist(), "m": m, "cplx": cplx}
            ctx.case(dh, True, "ops/norms/hermitian-indefinite")
            for kk in sorted(set([1, 2, m - 1, m])):
                if kk < 1:
                    continue
                for p in (1, 2, np.inf):
                    want = float(sh[:kk].max()) if p == np.inf else float((sh[:kk] ** p).sum() ** (1.0 / p))
                    got = _psafe(ctx, prng, dh, kp_norm, H, kk, p)
                    if got[0] != "ok" or not (abs(float(got[1]) - want) <= 1e-9 * 8 * m):
                        viol(ctx, f"kp_norm(k={kk}, p={p}) of a Hermitian matrix with eigenvalues of both signs differs from the p-norm of the k largest |eigenvalues|",
                             "kp_norm", {**dh, "k": kk, "p": str(p)}, str(got)[:100], want, "definition: (sum_{i<k} s_i^p)^(1/p), s = |eigenvalues| for Hermitian input")
            tnh = _psafe(ctx, prng, dh, trace_norm, H)
            if tnh[0] != "ok" or not (abs(float(tnh[1]) - float(sh.sum())) <= 1e-9 * 8 * m):
                viol(ctx, "trace_norm of a Hermitian indefinite matrix differs from the sum of |eigenvalues|", "trace_norm", dh, str(tnh)[:100], float(sh.sum()), "definition")
        # majorizes on matrices = majorization of singular values (only when no partial sum is a near tie)
        t = sorted([Fraction(int(x), 2) for x in rng.integers(0, 13, size=int(rng.integers(1, 7)))], reverse=True)
        L = max(len(s), len(t))
        ps = [sum((list(s) + [0] * L)[: i + 1]) - sum((list(t) + [0] * L)[: i + 1]) for i in range(L)]
        if all(abs(x) >= Fraction(1, 2) for x in ps):
            m2 = int(rng.integers(len(t), 7))
            B = known_sv_matrix(rng, len(t), m2, cplx, t) if rng.integers(2) else known_sv_matrix(rng, m2, len(t), cplx, t)
            got = _psafe(ctx, prng, desc, majorizes, M, B.to_np(force_complex=bool(prng.integers(2))))     # mixed real / complex pairs
            mo = ctx.lean().ask("c16_majorizes", {"a": [_rj(x) for x in s], "b": [_rj(x) for x in t]})
            ctx.case({"op": "majorizes/matrix", "A": A.key(), "B": B.key()}, True, f"ops/majorizes/matrix/{mo['v']}")
            if got[0] != "ok" or bool(got[1]) != mo["v"]:
                viol(ctx, "majorizes on matrices differs from majorization of the singular values", "majorizes",
                     {"op": "majorizes/matrix", "A": A.key(), "B": B.key(), "s": [str(x) for x in s], "t": [str(x) for x in t]}, str(got)[:100], mo,
                     "majorizes_iff_partial_sums")


def check_spark(ctx, A: QM, label):
    M = A.to_np(allow_int=bool(ctx.rng.integers(2)))
    desc = {"op": "spark", "A": A.key(), "label": label}
    out = _psafe(ctx, case_rng("c16/spark", desc["A"]), desc, spark, M)
    mo = ctx.lean().ask("c16_spark", {"A": A.to_json()})
    ctx.case(desc, min(A.shape) >= 2, f"ops/spark/={mo['spark']}")
    if out[0] != "ok" or int(out[1]) != mo["spark"]:
        viol(ctx, "spark differs from the smallest number of linearly dependent columns", "spark", desc, str(out)[:100], mo, "spark (exact rank over Q[i])")


def run_spark(ctx, count):
    rng = ctx.rng
    check_spark(ctx, QM(np.array([[1, 0, 1, 2], [0, 1, 1, 3], [1, 1, 2, 5]])), "docstring example")
    for _ in range(count):
        m, n = int(rng.integers(1, 6)), int(rng.integers(1, 7))
        cplx = bool(rng.integers(3) == 0)
        A = gint(rng, m, n, 3, cplx)
        kind = int(rng.integers(5))
        lab = "random"
        if kind == 1:
            A.re[:, int(rng.integers(n))] = Fraction(0)
            A.im[:, int(rng.integers(n))] = A.im[:, int(rng.integers(n))] * 0
            lab = "zero column (maybe)"
        elif kind == 2 and n >= 2:
            i, j = (int(x) for x in rng.choice(n, size=2, replace=False))
            t = int(rng.integers(1, 4))
            A.re[:, j], A.im[:, j] = A.re[:, i] * t, A.im[:, i] * t
            lab = "two proportional columns"
        elif kind == 3 and n >= 3:
            i, j, k = (int(x) for x in rng.choice(n, size=3, replace=False))
            A.re[:, k], A.im[:, k] = A.re[:, i] + A.re[:, j], A.im[:, i] + A.im[:, j]
            lab = "one column the sum of two others"
        elif kind == 4 and m >= 2:
            r = int(rng.integers(1, m))
            B = gint(rng, m, r, 2, cplx) @ gint(rng, r, n, 2, cplx)
            A, lab = B, f"rank <= {r}"
        check_spark(ctx, A, lab)


def check_commutant(ctx, gens, label):
    n = gens[0].shape[0]
    arrs = [g.to_np() for g in gens]
    arg = arrs[0] if len(arrs) == 1 and ctx.rng.integers(2) else list(arrs)
    out = _psafe(ctx, case_rng("c16/commutant", [g.key() for g in gens], isinstance(arg, list)), {"op": "commutant", "gens": [g.key() for g in gens]}, commutant, arg)
    mo = ctx.lean().ask("c16_commutant_dim", {"dim": n, "gens": [g.to_json() for g in gens]})
    # verified certificate of the exact dimension (rank / nullity of the stacked system)
    I = QM.eye(n)

    def kron_q(A, B):
        ra, ca = A.shape
        rb, cb = B.shape
        out = QM.zeros(ra * rb, ca * cb)
        for i in range(ra):
            for j in range(ca):
                if A.re[i, j] != 0 or A.im[i, j] != 0:
                    blk = B.scale(A.re[i, j], A.im[i, j])
                    out.re[i * rb:(i + 1) * rb, j * cb:(j + 1) * cb] = blk.re
                    out.im[i * rb:(i + 1) * rb, j * cb:(j + 1) * cb] = blk.im
        return out
    blocks = [kron_q(g, I) - kron_q(I, g.T) for g in gens]
    S = QM(np.concatenate([b.re for b in blocks], axis=0), np.concatenate([b.im for b in blocks], axis=0))
    E, piv, free, N = rref_data(S)
    r, k = len(piv), len(free)
    P = QM(E.re[:r, :], E.im[:r, :]) if r else QM.zeros(0, S.shape[0])
    Q = sel_matrix(n * n, r, [(pc, i) for i, pc in enumerate(piv)])
    Msel = sel_matrix(k, n * n, [(i, f) for i, f in enumerate(free)])
    cert = ctx.lean().ask("c16_commutant_cert", {"dim": n, "gens": [g.to_json() for g in gens], "P": P.to_json(), "Q": Q.to_json(),
                                                 "N": N.to_json(), "M": Msel.to_json()})
    ctx.count("cert/commutant_dimension")
    if not cert.get("ok") or cert.get("nullity") != mo["dim"]:
        raise InfraError(f"commutant dimension {mo['dim']} of the exact model is not confirmed by the verified rank certificate ({cert})")
    desc = {"op": "commutant", "gens": [g.key() for g in gens], "label": label, "single_array_form": not isinstance(arg, list)}
    ctx.case(desc, n >= 2 and any(not g.is_trivial() for g in gens), f"ops/commutant/dim={mo['dim']}")
    if out[0] != "ok":
        return viol(ctx, "commutant raised", "commutant", desc, out[1])
    basis = out[1]
    scale = 1 + max(float(np.abs(a).max()) for a in arrs)
    res = max([float(np.abs(a @ X - X @ a).max()) for a in arrs for X in basis] or [0.0])
    if not (res <= 1e-8 * scale):
        viol(ctx, f"commutant: a returned matrix does not commute with a generator (residual {res:.3g})", "commutant", desc, res, None, "commSystem_apply")
    if len(basis) != mo["dim"]:
        viol(ctx, f"commutant: {len(basis)} basis matrices, exact dimension of the commutant is {mo['dim']}", "commutant", desc, len(basis), mo,
             "commutantDim_eq_finrank / commutant_nullspace_is_commutant (Toq.C16)")
    if basis:
        Bm = np.array([X.reshape(-1) for X in basis])
        if not (float(np.abs(Bm.conj() @ Bm.T - np.eye(len(basis))).max()) <= 1e-8):
            viol(ctx, "commutant: basis is not orthonormal in the Hilbert-Schmidt inner product", "commutant", desc)


def run_commutant(ctx, count):
    rng = ctx.rng
    check_commutant(ctx, [QM(np.array([[1, 0], [0, -1]])), QM(np.array([[0, 1], [1, 0]]))], "docstring example (Paulis)")
    check_commutant(ctx, [QM(np.array([[1, 1], [0, 1]]))], "docstring example (Jordan block)")
    for _ in range(count):
        n = int(rng.integers(1, 6))
        cplx = bool(rng.integers(2))
        kind = int(rng.integers(5))
        if kind == 0:
            gens, lab = [gint(rng, n, n, 3, cplx)], "random matrix"
        elif kind == 1:
            U = rand_unimodular(rng, n, cplx)
            vals = [int(x) for x in rng.integers(0, 3, size=n)]
            gens, lab = [U @ diag_q(vals) @ q_inv(U)], f"S diag({vals}) S^-1 (non-normal, repeated eigenvalues)"
        elif kind == 2:
            gens, lab = [gint(rng, n, n, 2, cplx) for _ in range(int(rng.integers(2, 4)))], "several random matrices"
        elif kind == 3:
            k = int(rng.integers(1, n + 1))
            G = QM.zeros(n, n)
            B1, B2 = gint(rng, k, k, 3, cplx), gint(rng, n - k, n - k, 3, cplx)
            G.re[:k, :k], G.im[:k, :k] = B1.re, B1.im
            G.re[k:, k:], G.im[k:, k:] = B2.re, B2.im
            P = perm_matrix(rng.permutation(n))
            gens, lab = [P @ G @ P.T, P @ diag_q([1] * k + [2] * (n - k)) @ P.T], "block diagonal pair"
        else:
            J = QM.zeros(n, n)
            for i in range(n - 1):
                J.re[i, i + 1] = Fraction(1)
            U = rand_unimodular(rng, n, cplx)
            gens, lab = [U @ J @ q_inv(U)], "nilpotent Jordan block in a skew basis"
        check_commutant(ctx, gens, lab)


# ------------------------------------------------------------------------------------------------
# driver


def _matchers(ctx):
    # is_mutually_unbiased_basis never checks that each block of d vectors is an orthonormal basis
    ctx.matchers["c16-mub-no-orthonormality-check"] = lambda info: (
        info.get("function") == "is_mutually_unbiased_basis" and info.get("impl") == "yes" and info.get("model") == "no"
        and info.get("model_cross_only") == "yes")
    # np.array of the local factors is ragged when the local dimensions differ
    ctx.matchers["c16-upb-unequal-dims-ragged"] = lambda info: (
        info.get("function") == "is_unextendible_product_basis" and str(info.get("impl", "")).startswith("raise:ValueError:setting an array element")
        and len(set(info.get("args", {}).get("dims", []))) > 1)


def corpus(ctx):
    """past failures and named corner cases first"""
    import sys
    from . import c16_hard
    c16_hard.run_corpus(ctx, sys.modules[__name__])   # almost-MUB pairs with the deviation in one corner of the overlap table; zero vectors
    # complex Hermitian positive definite Gram matrix must round-trip (Cholesky branch conjugation)
    rng = ctx.rng
    check_gram(ctx, 2, 2, True)
    check_gram(ctx, 3, 3, True)
    check_gram(ctx, 2, 3, True, rank=2)
    # rank-deficient Gram matrices with a REPEATED eigenvalue (eigen-branch: the eigenvectors must be orthonormal; past failures,
    # fixed in toqito commits b44bccf and 4c1ddd1):
    # G = [[8,2,2],[2,5,-4],[2,-4,5]] (eigenvalues 9, 9, 0) and a 4x4 one with eigenvalues 80, 80, 0, 0, real and complex
    check_gram(ctx, 2, 3, False, V=[[2, -1, 2], [2, 2, -1]])
    check_gram(ctx, 3, 4, False, V=[[6, -2, -6, 2], [-2, 6, -2, 6], [0, 0, 0, 0]])
    check_gram(ctx, 2, 3, True, V=[[2, -1j, -2j], [2, 2j, 1j]])
    # rank 1 with a triple eigenvalue 0 for which np.linalg.eig returns linearly dependent eigenvectors (NaN output of the first repair b44bccf, fixed in 4c1ddd1)
    check_gram(ctx, 3, 4, True, V=[[-4 + 4j, -4 + 4j, 4 + 4j, 2 + 2j], [-4 + 4j, -4 + 4j, 4 + 4j, 2 + 2j], [6j, 6j, 6, 3]])
    check_gram(ctx, 4, 3, True, V=[[-4 - 6j, 1 - 5j, -5 - 1j], [-6, -3 - 3j, -3 + 3j], [4 + 4j, 4j, 4], [-2 - 4j, 1 - 3j, -3 - 1j]])
    # is_projection follows its own docstring example (oblique idempotent accepted)
    ask_pred(ctx, "projection", QM(np.array([[0, 1], [0, 1]])), {}, "docstring example [[0,1],[0,1]]", "yes", expect="yes")
    # MUB without orthonormality inside a block
    e = QM(np.array([[1, 1, 1, 1], [0, 0, 1, -1]]))
    ask_mub(ctx, e, [Fraction(1), Fraction(1), Fraction(2), Fraction(2)], "[e0, e0, +, -]", "no", expect="no")
    check_vec_mul_kron(ctx, 2, 3, 4, 2, True)
    check_tensor_power(ctx, 5, True, "mat")
    check_tensor_power(ctx, 6, False, "col")
    check_tensor_power(ctx, 7, False, "1d")
    del rng


def run(ctx, model_ok=True):
    _matchers(ctx)
    rng = ctx.rng
    quick = ctx.tier == "quick"
    corpus(ctx)
    reps = 2 if quick else 24
    # --- predicates on one (or two) matrices
    for name in [k for k, v in PREDS.items() if v["gen"] is not None]:
        for n in range(1, 7):
            for cplx in (False, True):
                if cplx and name in REAL_ONLY_FIELDS:
                    continue
                for _ in range(reps):
                    run_pred(ctx, name, n, cplx)
    run_rectangular(ctx)
    # --- sets of vectors and state sets
    for d in range(1, 7):
        for cplx in (False, True):
            for _ in range(reps):
                run_sets(ctx, d, cplx)
                run_states(ctx, d, cplx)
        if d >= 2:
            for _ in range(reps):
                run_mub(ctx, d)
    run_upb(ctx)
    import sys
    from . import c16_hard
    c16_hard.run_random(ctx, sys.modules[__name__])
    # --- the same predicates near their tolerances, against the tolerance-level mirrors (default and explicit rtol / atol)
    from . import c16_tol
    c16_tol.run_tolerance(ctx, sys.modules[__name__])
    from . import c16_more
    c16_more.run_more(ctx, sys.modules[__name__])
    # --- helper operations
    for r in range(1, 7):
        for c in range(1, 7):
            for cplx in ((False, True) if not quick else (bool((r + c) % 2),)):
                check_vec_unvec(ctx, r, c, cplx)
    for _ in range(40 if quick else 300):
        m, n, p, q = (int(x) for x in rng.integers(1, 6, size=4))
        check_vec_mul_kron(ctx, m, n, p, q, bool(rng.integers(2)))
    for form in ("list", "many"):
        for k in range(0, 6):
            for vectors in ("mat", "col", "1d"):
                for _ in range(2 if quick else 8):
                    check_tensor(ctx, form, k, bool(rng.integers(2)), vectors)
    for n in range(0, 9):
        for vectors in ("mat", "col", "1d"):
            check_tensor_power(ctx, n, bool(rng.integers(2)), vectors)
    for d in range(1, 7):
        for n in range(1, 7):
            for cplx in (False, True):
                check_gram(ctx, d, n, cplx)
                if min(d, n) >= 2:
                    check_gram(ctx, d, n, cplx, rank=int(rng.integers(1, min(d, n))))
    for shape in [(1,), (3,), (6,), (1, 1), (1, 4), (4, 1), (3, 3), (6, 6), (2, 3), (3, 2), (2, 2, 2)]:
        for cplx in (False, True):
            check_to_density(ctx, shape, cplx)
    check_same_dim(ctx, [])
    for _ in range(30 if quick else 200):
        k = int(rng.integers(1, 5))
        shapes = []
        for _ in range(k):
            t = int(rng.integers(3))
            shapes.append((int(rng.choice([2, 3, 4, 6, 9])),) if t == 0 else (int(rng.integers(1, 4)), int(rng.integers(1, 4))))
        check_same_dim(ctx, shapes)
    run_majorizes(ctx, 150 if quick else 1500)
    run_norms(ctx, 40 if quick else 400)
    run_spark(ctx, 60 if quick else 600)
    run_commutant(ctx, 40 if quick else 300)
    # --- wave 5: explicit sub_sizes that skip lower orders (is_totally_positive); value independent of NumPy's floating-point error state
    from . import c16_w5
    c16_w5.run_tp_skip(ctx, sys.modules[__name__])
    c16_w5.run_strict_fp(ctx, sys.modules[__name__])
    und = {k: v for k, v in ctx.hist.items() if k.startswith("undetermined/") or k.startswith("unintended/")}
    ctx.extra["undetermined_or_unintended_inputs"] = und
    ctx.extra["lean_decided_predicates"] = sorted(list(PREDS) + ["square", "linearly_independent", "mutually_orthogonal", "orthonormal",
                                                                 "mutually_unbiased_basis", "unextendible_product_basis", "ensemble", "pure_list"])
    ctx.note("documentation/code disagreements that are not alarmed because no input violating the documented definition by a margin is involved: "
             "is_totally_positive accepts zero 1x1 minors but rejects zero larger minors; is_diagonal does not require a non-zero diagonal; "
             "is_projection docstring text says PSD but its example and the code accept any idempotent; is_orthonormal needs a 2-d ndarray; "
             "has_same_dimension counts rows*cols for square matrices (docstring: number of rows)")


def replay(ctx, rec):
    _matchers(ctx)
    a = rec.get("args", {}) or {}
    import sys
    from . import c16_tol
    if c16_tol.replay_tol(ctx, sys.modules[__name__], a):
        return
    if "pred" in a:
        ask_pred(ctx, a["pred"], QM.from_json(a["A"]), _args_from_desc(a.get("args", {})), a.get("label", "replay"), a.get("kind", "any"))
    elif "setpred" in a:
        ask_set(ctx, a["setpred"], QM.from_json(a["V"]), a.get("label", "replay"), a.get("kind", "any"), form=a.get("form"))
    elif a.get("mub"):
        ask_mub(ctx, QM.from_json(a["V"]), [Fraction(x) for x in a["s"]], a.get("label", "replay"), a.get("kind", "any"), form=a.get("form"))
    elif a.get("upb"):
        ask_upb(ctx, a["dims"], a["local"], a.get("label", "replay"), a.get("kind", "any"), normalise=a.get("normalise", True))
    elif "listpred" in a:
        ask_list_pred(ctx, a["listpred"], [QM.from_json(x) for x in a["As"]], a.get("label", "replay"), a.get("kind", "any"))
    elif a.get("op") == "gram":
        V = QM.from_json(a["V"]).to_np(force_complex=True)
        vs = [V[:, k] for k in range(V.shape[1])]
        G = vectors_to_gram_matrix(vs)
        ws = quiet(vectors_from_gram_matrix, G)
        G2 = vectors_to_gram_matrix([np.asarray(w).reshape(-1) for w in ws])
        ctx.case(a, True, "replay/gram")
        if not (float(np.abs(G2 - G).max()) <= 1e-8 * (1 + float(np.abs(G).max()))):
            viol(ctx, "Gram round trip fails (replay)", "vectors_from_gram_matrix", a)
    elif a.get("op") == "spark":
        check_spark(ctx, QM.from_json(a["A"]), "replay")
    elif a.get("op") == "commutant":
        check_commutant(ctx, [QM.from_json(g) for g in a["gens"]], "replay")
    elif a.get("op") == "majorizes":
        check_majorizes_vec(ctx, [Fraction(x) for x in a["a"]], [Fraction(x) for x in a["b"]], a.get("form", "list"))
    else:
        # remaining helper checks are regenerated from the seed
        run(ctx)
