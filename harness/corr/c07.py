"""C07: NonlocalGame — classical value against the specification (max over all pairs of deterministic answer
functions; Lean: `classicalValueFixed_eq_maxDet`, `maxDetBrute_eq_maxDet`), product-game and BCS tensors entry by
entry against the mirror models (`productGame_pred`, `productGame_prob`, `bcs_pred_iff`), ordering chain of the
returned floats (classical / see-saw <= NPA levels, NPA non-increasing, <= non-signalling <= 1) and histories of
value-method calls (attributes unchanged, values independent of the order; `methods_pure`,
`value_order_independent`).

Stream `npa_embedding` (scheme B, feasibility-embedding check; Lean: `reduce_preserves_val`, `npa_sound_det`,
`classical_le_npa_model`, `ns_contains_det`, `npa_le_ns_model`, `ns_le_one`): (i) `_gen_words`, `_parse`, `_reduce` of
toqito/helper/npa_hierarchy.py against the mirror model symbol for symbol; (ii) the cvxpy problem that
`commuting_measurement_value_upper_bound(k)` builds is captured in-process (`cvxpy.Problem.solve` patched, restored in a
finally), the point `(R = z z^T, K)` that the Lean model assigns to a deterministic strategy is written into the captured
variables, and every captured constraint must hold with residual 0 while the captured objective equals the strategy's exact
winning probability; (iii) the same for the problem of `nonsignaling_value`; (iv) numerically (1e-9) the moments of random
commuting projective measurements on a random state must be feasible as well.  A constraint of the real code that is violated
by a genuine strategy makes the "upper bound" unsound.

Inputs of the exact part are dyadic rationals, so every float operation of the implementation is exact and
equality with the Lean rational is demanded; a third input class has non-dyadic probabilities, there the exact
value of the *floats* is sent to Lean and only the final accumulation is compared with 1e-12.

Stream `seesaw` (harness/corr/c07_seesaw.py; Lean: `seesaw_objectives_agree`, `seesaw_contains_det`, `seesaw_loop_returns_max`, `seesaw_loop_stop_rule`,
and for the meaning of the points `seesaw_point_is_quantum`, `npa_sound_seesaw`, `seesaw_value_le_npa_bound`): the cvxpy problems built by
`__optimize_alice` / `__optimize_bob` are captured, exact dyadic assemblages / POVMs are written into their variables, every captured constraint must
hold and the captured objective must equal the exact `sum prob * pred * Re tr(B^H A)` computed by the Lean model; per-constraint negative controls; the
outer loop of `quantum_value_lower_bound` is replayed by the model on the recorded (and on scripted) solver values.  Sub-stream `npa/seesaw-point`
(in `work_npa_embed`): a feasible point of the see-saw programs, dilated to commuting projectors as in the proofs, is fed to the captured NPA problem."""
from __future__ import annotations

import copy
import itertools
import multiprocessing
import os
from fractions import Fraction

import numpy as np

from ..common import CorrespondenceBroken, InfraError
from ..exact import Pure, case_rng, describe, present_nd
from ..pool import Result, fold, run_pool, worker_driver
from . import c07_seesaw

RULE = ("games (ao, bo, ai, bi) with every size in 1..4 drawn by the seeded generator (corpus first: the two minimal "
        "games on which the enumeration bound matters, CHSH, odd-cycle-like and fractional games), predicates 0/1-valued, "
        "dyadic-fractional or with non-dyadic question probabilities, reps 1 and 2; product tensors with arange labels; BCS "
        "constraint systems with 2..4 variables and 1..4 constraints depending on random variable subsets; SDP chain and "
        "histories on games with 2 (occasionally 3) questions/answers. non-trivial = each player has >= 2 answers or >= 2 "
        "questions, the answer-set sizes differ, the question-set sizes differ and the predicate is not constant (for BCS: "
        "some constraint does not depend on every variable and constraints differ); distinct = hash of the exact inputs. "
        "npa_embedding: word lists for all alphabets 1..3 (thorough 1..4) x levels {1, 2, '1+ab', '1+aab', ...}; reduction of random words "
        "and of every product word of small word lists; embeddings on a fixed list of shapes with unequal alphabets (answers/questions in 1..3) x "
        "levels {1, '1+ab', 2} x seeded games x all deterministic strategies (a seeded sample when there are more than 36; thorough: 400); "
        "non-trivial there = both players have >= 2 answers, the shape is not symmetric and the strategy is not constant. "
        "Presentation: the prob_mat / pred_mat (and BCS constraint, odometer) arrays handed to toqito are re-presentations of the drawn values determined by "
        "the case: C / Fortran / strided / permuted-stride layout, and where the values allow int64 (integer values) and bool (0/1 values) next to float64 — "
        "except that the predicate tensor of an object on which classical_value is called keeps float64 (see PRED_DTYPE_EXCLUSION); after every call the "
        "arrays handed over are compared with a deep snapshot")
ASSUMPTIONS = [
    "dyadic inputs make every float64 operation of classical_value / the constructor exact (products and sums stay below 2^53)",
    "SDP-based values are compared as returned floats with the solver tolerance (2e-5 interior point: CLARABEL/CVXOPT, 1e-3 SCS); "
    "their soundness as bounds (NPA relaxation, non-signalling LP) is the certificate part, not this module",
    "the see-saw start POVMs are made reproducible by passing a seed to toqito.rand.random_povm from inside the harness process",
    "multiprocessing pool branch of classical_value (> 1000 iterations) computes the same function as the loop (exercised in the thorough tier)",
    "npa_embedding: cvxpy evaluates the captured constraint/objective expressions faithfully (Constraint.violation(), Expression.value); the "
    "captured variables are identified by their names ('R', 'M(a, b | x, y)') for the NPA problem and, for the unnamed variables of "
    "nonsignaling_value, by probing the linear objective (K-blocks) and by propagating the equality constraints (sigma, rho, tau); the 2x2 "
    "blocks of nonsignaling_value receive k * tau0 for a fixed density matrix tau0 (Lean: NsFeasible is the trace image)",
    "npa_embedding tolerances: 0/1-valued embeddings make every equality residual exact (<= 1e-12 demanded); PSD residuals (eigenvalue "
    "computation of cvxpy) <= 1e-9; objective against the exact rational value <= 1e-12; random quantum strategies (float) <= 1e-9",
    "the iteration order of the Python set `conf` in _gen_words is an input to the model (conf_order); the model's own order is first insertion",
]

RULE = RULE + " || " + c07_seesaw.RULE_SEESAW + (
    " || npa/seesaw-point: per embedded NPA problem one seeded feasible point of the see-saw programs (assemblage in dimension 2 with tau singular for odd seeds, "
    "random non-projective Bob POVMs), dilated numerically to commuting projectors exactly as in the Lean proof, moments fed to the captured constraints (1e-7)"
    " || classical: every case is also evaluated by the mirror WITH the multiprocessing branch (c07_classical_value_code); from_bcs_game with reps = 2 and the empty-list rejection"
    " || classical/pool-forced: games in which BOTH players have more than 1000 deterministic strategies (multiprocessing branch) and the number n of "
    "strategies of the enumerated player is not a multiple of a block size (3^7 = 2187 with Bob and with Alice enumerated, unequal answer alphabets (4,3,6,7), "
    "9^4 = 6561 as the 2-fold repetition of a (3,3,2,2) game, seeded: 5^5, 6^4, 7^4), with a UNIQUE optimal strategy of the enumerated player at a chosen place of the "
    "enumeration order: last, first, middle, seeded block-boundary places (b-1, b, n-b, n - n mod b, ... for b in 16..1024; 999..1001) and seeded uniform places; "
    "construction and uniqueness argument in forced_game; the oracle is the one-sided maximum classicalValueFixed (= maxDetValue, classicalValueFixed_eq_maxDet) "
    "and the harness re-evaluates the forced strategy exactly and demands that it attains that maximum")
ASSUMPTIONS = ASSUMPTIONS + c07_seesaw.ASSUMPTIONS_SEESAW

TOL_IP = 2e-5
TOL_SCS = 1e-3
OPS = ["classical", "quantum_lb", "nonsignaling", "npa1", "npa1ab", "npa2"]
# Presentation exclusion (candidate defect, reported; NOT silently suppressed: counted under classical/int-or-bool-pred/...):
# NonlocalGame.classical_value writes prob_mat[x, y] * pred_mat[:, :, x, y] into np.copy(self.pred_mat), i.e. into an array of the
# predicate's dtype: an int64 predicate truncates every weight to 0 (CHSH: 0.0 instead of 0.75), a bool predicate turns them into
# True (CHSH: 3.0).  Until that is decided (fix / finding), predicate tensors of objects on which classical_value is called are
# presented in other layouts but keep dtype float64; everywhere else (constructor, from_bcs_game, NPA / non-signalling problems)
# integer and boolean predicates are handed over.
PRED_DTYPE_EXCLUSION = "pred_mat int64/bool x classical_value"


# ------------------------------------------------------------------------------------------------
# exact helpers


def _q(x):
    f = Fraction(float(x))
    return [f.numerator, f.denominator] if f.denominator != 1 else f.numerator


def _qlist(arr):
    return [_q(x) for x in np.asarray(arr, dtype=float).reshape(-1)]


def _fl(arr):
    """exact values of a float array / of a driver list"""
    if isinstance(arr, list) and arr and isinstance(arr[0], (list, int)) and not isinstance(arr[0], bool):
        return [_frac(v) for v in arr]
    return [Fraction(float(x)) for x in np.asarray(arr, dtype=float).reshape(-1)]


def _frac(v):
    if v is None:
        return None
    if isinstance(v, list):
        return Fraction(v[0], v[1])
    return Fraction(v)


def _game_args(prob, pred, reps=1):
    ao, bo, ai, bi = pred.shape
    return {"ao": ao, "bo": bo, "ai": ai, "bi": bi, "reps": reps, "prob": _qlist(prob), "pred": _qlist(pred)}


def _iters(shape):
    """(iterations of the unchanged code, iterations of the repaired code, number of strategy pairs)"""
    ao, bo, ai, bi = shape
    if ao ** ai < bo ** bi:
        nao, nbo, nai, nbi = bo, ao, bi, ai
    else:
        nao, nbo, nai, nbi = ao, bo, ai, bi
    return nao ** nbi, nbo ** nbi, (ao ** ai) * (bo ** bi)


def _nontrivial(shape, pred):
    ao, bo, ai, bi = shape
    return bool((ao >= 2 or ai >= 2) and (bo >= 2 or bi >= 2) and ao != bo and ai != bi and np.ptp(pred) > 0)


# ------------------------------------------------------------------------------------------------
# generators


def rand_prob(rng, ai, bi, kind):
    n = ai * bi
    if kind == "rational":
        w = rng.integers(0, 6, size=n).astype(float)
        if w.sum() == 0:
            w[int(rng.integers(n))] = 1
        return (w / w.sum()).reshape(ai, bi)
    m = int(rng.choice([16, 32, 64]))
    w = rng.multinomial(m, np.ones(n) / n)
    return (w / m).reshape(ai, bi).astype(float)


def rand_pred(rng, shape, kind, dens_hi=0.7):
    if kind == "frac":
        den = int(rng.choice([2, 4, 8]))
        p = rng.integers(0, den + 1, size=shape) / den
        p = p * (rng.random(size=shape) < rng.uniform(0.4, 1.0))
        return p.astype(float)
    dens = rng.uniform(0.15, dens_hi)
    return (rng.random(size=shape) < dens).astype(float)


def mod_game(ao, bo, ai, bi):
    """a + b = x * y (mod max(ao, bo)) — CHSH for 2,2,2,2"""
    k = max(ao, bo)
    pred = np.zeros((ao, bo, ai, bi))
    for a, b, x, y in itertools.product(range(ao), range(bo), range(ai), range(bi)):
        if (a + b) % k == (x * y) % k:
            pred[a, b, x, y] = 1
    return pred


def xor_game(rng, shape):
    """win iff the parity of a + b equals a random bit table f(x, y) (CHSH-like; typically classical < quantum < NS)"""
    ao, bo, ai, bi = shape
    while True:
        f = rng.integers(0, 2, size=(ai, bi))
        if f.min() != f.max():
            break
    pred = np.zeros(shape)
    for a, b, x, y in itertools.product(range(ao), range(bo), range(ai), range(bi)):
        if (a + b) % 2 == f[x, y]:
            pred[a, b, x, y] = 1
    return pred


# ------------------------------------------------------------------------------------------------
# (a) classical value against the specification


def check_classical(ctx, prob, pred, reps, kind, tag="rand", pre=None):
    """`pre`: answers of the Lean driver to the three classical-value requests for exactly this game, computed beforehand (pool_forced
    computes them on several driver processes at once); None = ask now"""
    from toqito.nonlocal_games.nonlocal_game import NonlocalGame

    prob = np.asarray(prob, dtype=float)
    pred = np.asarray(pred, dtype=float)
    shape = tuple(int(s) for s in pred.shape)
    pshape = tuple(s ** reps for s in shape)
    it_cur, it_fix, pairs = _iters(pshape)
    args = _game_args(prob, pred, reps)
    desc = {"fn": "classical_value", "shape": list(shape), "reps": reps, "kind": kind, "prob": args["prob"], "pred": args["pred"]}
    branch = f"classical/{kind}/reps={reps}/" + ("pool" if it_cur > 1000 else "loop") + ("/enum-incomplete" if it_cur < it_fix else "")
    ctx.case(desc, _nontrivial(shape, pred), branch)
    prng = case_rng("c07/classical", list(shape), reps, kind, args["prob"], args["pred"])
    pprob = present_nd(prng, prob, bool_ok=True)
    ppred = present_nd(prng, pred, bool_ok=True)            # int64 / bool predicates included (classical_value repaired in /repo c99a6f6)
    desc["presentation"] = {"prob": describe(pprob), "pred": describe(ppred)}
    guard = Pure(pprob, ppred)
    try:
        game = NonlocalGame(pprob, ppred, reps)
        attr_p, attr_v = copy.deepcopy(game.prob_mat), copy.deepcopy(game.pred_mat)
        impl = game.classical_value()
    except Exception as e:  # noqa: BLE001
        ctx.violation(f"classical_value raised {type(e).__name__}: {str(e)[:200]} on a valid game {shape} reps={reps}",
                      {"function": "NonlocalGame.classical_value", "args": desc, "impl": repr(e)[:300], "theorem": "classicalValueFixed_eq_maxDet"})
        return
    lean = ctx.lean()
    if pre is not None and pre.get("args") != args:
        raise InfraError("check_classical: precomputed oracle answers belong to another game")
    ask = (lambda op, a: pre[op]) if pre is not None else lean.ask
    m_cur = ask("c07_classical_value", args)
    m_fix = ask("c07_classical_value_fixed", args)
    if "reject" in m_cur or "reject" in m_fix:
        raise InfraError(f"driver rejected a valid game: {m_cur} {shape}")
    spec = _frac(m_fix["value"])
    # the mirror WITH the branch `if num_iterations > 1000: pool else: loop` (Model/GamesExtra.lean; proved equal to the loop-only
    # mirror and to the specification: classicalValueCode_eq_maxDet, pool_branch_eq_loop)
    m_code = ask("c07_classical_value_code", args)
    if "reject" in m_code or _frac(m_code["value"]) != spec:
        raise InfraError(f"Lean: classicalValueCode {m_code} != classicalValueFixed {spec} (proved equal) on {desc}")
    ctx.count("classical/code-mirror-branch=" + ("pool" if it_fix > 1000 else "loop"))
    if pairs <= 20000:
        m_brute = lean.ask("c07_max_det", args)
        ctx.count("classical/brute-force-oracle")
        if _frac(m_brute["value"]) != spec:
            raise InfraError(f"Lean: classicalValueFixed {spec} != maxDetBrute {m_brute['value']} (proved equal) on {desc}")
    cur = _frac(m_cur["value"])
    if m_cur["enum_complete"] and cur != spec:
        raise InfraError(f"Lean: classicalValue != spec although EnumComplete holds on {desc}")
    implq = Fraction(float(impl)) if np.isfinite(impl) else None
    tol = Fraction(0) if kind != "rational" else Fraction(1, 10 ** 12)
    ctx.count("classical/impl==mirror-of-current-code" if implq is not None and abs(implq - cur) <= tol else "classical/impl!=mirror-of-current-code")
    if cur != spec:
        ctx.count("classical/current-mirror!=spec")
    if not (np.array_equal(game.prob_mat, attr_p) and np.array_equal(game.pred_mat, attr_v)
            and np.asarray(game.prob_mat).dtype == np.asarray(attr_p).dtype and np.asarray(game.pred_mat).dtype == np.asarray(attr_v).dtype):
        ctx.violation("classical_value changed prob_mat / pred_mat of the object",
                      {"function": "NonlocalGame.classical_value", "args": desc, "theorem": "methods_pure"})
    why = guard.modified()
    if why:
        ctx.violation("NonlocalGame.classical_value: caller's arguments were modified",
                      {"function": "NonlocalGame.classical_value", "args": desc, "modified": why, "theorem": "methods_pure"})
    if kind == "01" and reps == 1 and ctx.hist.get("classical/int-or-bool-pred/probed", 0) < 24:
        # evidence for PRED_DTYPE_EXCLUSION (counted, never an alarm): the same game with an int64 / bool predicate
        ctx.count("classical/int-or-bool-pred/probed")
        for dt in (np.int64, bool):
            try:
                v = NonlocalGame(prob.copy(), pred.astype(dt), 1).classical_value()
                ctx.count(f"classical/int-or-bool-pred/{np.dtype(dt).name}/" + ("same value" if float(v) == float(impl) else "DIFFERENT value"))
                if float(v) != float(impl):
                    ctx.violation(f"classical_value depends on the dtype of the predicate: {v!r} with {np.dtype(dt).name}, {impl!r} with float64",
                                  {"function": "NonlocalGame.classical_value", "args": desc, "dtype": np.dtype(dt).name, "impl": float(v), "theorem": "classicalValueFixed_eq_maxDet"})
            except Exception as e:  # noqa: BLE001
                ctx.count(f"classical/int-or-bool-pred/{np.dtype(dt).name}/raises {type(e).__name__}")
    if implq is None or abs(implq - spec) > tol:
        ctx.violation(
            f"classical_value = {impl!r} but the maximum over all pairs of deterministic answer functions is {spec} "
            f"(shape (ao,bo,ai,bi)={pshape}, reps={reps}; iterations used {it_cur}, strategies of the enumerated player {it_fix})",
            {"function": "NonlocalGame.classical_value", "args": desc, "impl": float(impl), "spec": str(spec),
             "mirror_current_code": str(cur), "enum_complete": bool(m_cur["enum_complete"]),
             "impl_equals_current_mirror": bool(implq is not None and abs(implq - cur) <= tol),
             "theorem": "classicalValueFixed_eq_maxDet, maxDetBrute_eq_maxDet (spec); classicalValue_counterexample (mirror of the current code)"})
    return spec


# ------------------------------------------------------------------------------------------------
# (a') the multiprocessing branch of classical_value: games with a UNIQUE optimal strategy of the enumerated player at a chosen place of
# the enumeration order.  A game of this size has thousands of near-optimal strategies when it is drawn at random, so an enumeration that
# loses a block of strategies (the tail `n mod blocksize` of a blocked hand-out, the first index, a block boundary) still returns the right
# number on random games; here it cannot.


def _enumerated(pshape):
    """(True iff classical_value enumerates ALICE's strategies (transpose branch), answers, questions of the enumerated player)"""
    ao, bo, ai, bi = pshape
    swap = ao ** ai < bo ** bi
    return (swap, ao, ai) if swap else (swap, bo, bi)


def _digits(index, base, n):
    out = []
    for _ in range(n):
        index, r = divmod(index, base)
        out.append(int(r))
    return out[::-1]


def _index(digits, base):
    k = 0
    for d in digits:
        k = k * base + int(d)
    return k


def forced_game(rng, shape, reps, target):
    """(prob, pred, index): a game in which `target` (one answer per question of the player whose strategies classical_value enumerates,
    in the base game) is that player's answer function in EVERY optimal pair of deterministic strategies of the r-fold product game, and
    `index` is the place of the induced product strategy in the enumeration order of classical_value (big-endian digits, first question
    leading).  Construction: prob > 0 everywhere (dyadic), pred in {1,2,3}/8 plus 1/2 where the enumerated player answers target[q] to its
    question q.  Then for every (other player's answer, question pair) the entry with the target answer exceeds every entry with another
    answer (>= 5/8 > 3/8), all entries are positive, so in the product game the entry with the product-target answer exceeds every other
    one as well; replacing a non-target answer to one question by the target answer strictly increases every inner sum
    sum_q prob * pred and hence the maximum over the other player's answers: the optimum is attained only at the target."""
    ao, bo, ai, bi = shape
    swap, q_out, q_in = _enumerated(tuple(s ** reps for s in shape))
    base_out, base_in = (ao, ai) if swap else (bo, bi)
    assert len(target) == base_in and all(0 <= t < base_out for t in target)
    cells = ai * bi
    m = 1 << int(np.ceil(np.log2(2 * cells)))
    prob = ((1 + rng.multinomial(m - cells, np.ones(cells) / cells)) / m).reshape(ai, bi).astype(float)
    pred = rng.integers(1, 4, size=shape) / 8.0
    for q, t in enumerate(target):
        if swap:
            pred[t, :, q, :] += 0.5
        else:
            pred[:, t, :, q] += 0.5
    prod_digits = [_index(ts, base_out) for ts in
                   ([[target[q] for q in qs] for qs in itertools.product(range(base_in), repeat=reps)])]
    return prob, pred, _index(prod_digits, q_out)


def _strategy_value(prob, pred, reps, index):
    """exact value of the product game when the enumerated player uses strategy number `index` and the other best-responds"""
    ao, bo, ai, bi = pred.shape
    # dyadic inputs: integers after scaling by 2^20 resp. 2^3 (asserted), int64 arithmetic is exact at these sizes
    pw1, pv1 = np.rint(prob * 2 ** 20).astype(np.int64), np.rint(pred * 8).astype(np.int64)
    assert np.array_equal(pw1 / 2 ** 20, prob) and np.array_equal(pv1 / 8, pred) and reps <= 2
    pw, pv = pw1, pv1
    for _ in range(reps - 1):
        pw = np.kron(pw, pw1)
        # product predicate: answers and questions of the copies are paired, first copy leading
        pv = np.einsum("abxy,cdzw->acbdxzyw", pv, pv1).reshape(pv.shape[0] * ao, pv.shape[1] * bo, pv.shape[2] * ai, pv.shape[3] * bi)
    w = pv * pw[None, None, :, :]
    swap, q_out, q_in = _enumerated(w.shape)
    if swap:
        w = w.transpose(1, 0, 3, 2)
    g = _digits(index, q_out, q_in)
    score = sum(w[:, g[y], :, y] for y in range(q_in))         # [a, x]
    return Fraction(int(sum(int(max(score[:, x])) for x in range(score.shape[1]))), (2 ** 20 * 8) ** reps)


POOL_SHAPES = [((3, 3, 7, 7), 1), ((3, 3, 2, 2), 2), ((3, 3, 7, 8), 1), ((3, 3, 8, 7), 1), ((4, 3, 6, 7), 1), ((3, 4, 7, 6), 1),
               ((5, 5, 5, 5), 1), ((6, 6, 4, 4), 1), ((7, 7, 4, 5), 1)]


def _boundary_indices(n):
    """places of the enumeration where a blocked / chunked / off-by-one hand-out of n strategies would lose one"""
    out = {0, 1, n - 1, n - 2, n // 2, 999, 1000, 1001}
    for b in (16, 64, 100, 128, 256, 500, 512, 1000, 1024):
        if b < n:
            out |= {b - 1, b, n - b, n - b - 1, n - n % b - 1, n - n % b, (n // b // 2) * b, (n // b // 2) * b - 1}
    return sorted(i for i in out if 0 <= i < n)


CLASSICAL_OPS = ("c07_classical_value", "c07_classical_value_fixed", "c07_classical_value_code")


def _precompute_oracles(games):
    """answers of the Lean driver to CLASSICAL_OPS for each game of `games` ([args dict]); the requests are independent, they are
    spread over several driver processes (threads only wait on the pipes)"""
    import queue
    from concurrent.futures import ThreadPoolExecutor

    from ..common import Driver

    jobs = [(i, op) for i in range(len(games)) for op in CLASSICAL_OPS]
    k = max(1, min(8, len(jobs), (os.cpu_count() or 2) // 2))
    free = queue.Queue()
    drivers = [Driver() for _ in range(k)]
    for d in drivers:
        free.put(d)

    def work(job):
        i, op = job
        d = free.get()
        try:
            return d.ask(op, games[i])
        finally:
            free.put(d)

    try:
        with ThreadPoolExecutor(max_workers=k) as ex:
            answers = list(ex.map(work, jobs))
    finally:
        for d in drivers:
            d.close()
    out = [{"args": g} for g in games]
    for (i, op), ans in zip(jobs, answers):
        out[i][op] = ans
    return out


def make_pool_forced(ctx, shape, reps, where, target=None, index=None):
    """one forced-optimum game for the multiprocessing branch; `target` (base game) or `index` (reps = 1 only) fixes the optimum"""
    pshape = tuple(s ** reps for s in shape)
    swap, q_out, q_in = _enumerated(pshape)
    n = q_out ** q_in
    other = (pshape[1] ** pshape[3]) if swap else (pshape[0] ** pshape[2])
    assert n > 1000 and other >= n, (shape, reps)
    if target is None:
        assert reps == 1
        target = _digits(index, q_out, q_in)
    prob, pred, idx = forced_game(ctx.rng, shape, reps, target)
    return {"shape": shape, "reps": reps, "where": where, "target": list(target), "prob": prob, "pred": pred, "index": idx,
            "enumerated": "alice" if swap else "bob", "n": n}


def check_pool_forced(ctx, g, pre=None):
    shape, reps = g["shape"], g["reps"]
    ctx.count(f"classical/pool-forced/{g['where']}")
    ctx.count(f"classical/pool-forced/enumerated={g['enumerated']}/n={g['n']}" + ("/unequal-answers" if shape[0] != shape[1] else ""))
    spec = check_classical(ctx, g["prob"], g["pred"], reps, "frac", "pool-forced", pre=pre)
    if spec is not None and _strategy_value(g["prob"], g["pred"], reps, g["index"]) != spec:
        raise InfraError(f"forced_game: strategy number {g['index']} of the enumerated player does not attain the proved maximum {spec} "
                         f"(shape {shape}, reps {reps}, target {g['target']})")


def pool_forced(ctx, quick):
    rng = ctx.rng
    games = []

    def add(shape, reps, where, **kw):
        games.append(make_pool_forced(ctx, shape, reps, where, **kw))

    # corpus: optimum at the LAST, the FIRST and the MIDDLE strategy of 3^7 = 2187 (not a multiple of any power of 2 or 10) with Bob
    # enumerated, at the last one with Alice enumerated (transpose branch) and with unequal answer alphabets; the 2-fold repetition of a
    # (3, 3, 2, 2) game (9^4 = 6561 strategies): last, first, and a seeded one of the other seven product targets
    add((3, 3, 7, 7), 1, "last", target=[2] * 7)
    add((3, 3, 7, 7), 1, "first", target=[0] * 7)
    add((3, 3, 7, 7), 1, "middle", target=[1] * 7)
    add((3, 3, 7, 8), 1, "last", target=[2] * 7)
    add((4, 3, 6, 7), 1, "last", target=[2] * 7)
    add((3, 3, 2, 2), 2, "last", target=[2, 2])
    add((3, 3, 2, 2), 2, "first", target=[0, 0])
    mixed = [[2, 1], [1, 2], [2, 0], [0, 2], [1, 1], [1, 0], [0, 1]]
    for t in ([mixed[int(rng.integers(len(mixed)))]] if quick else mixed):
        add((3, 3, 2, 2), 2, "mixed", target=t)
    # seeded: block-boundary places and uniformly random places on seeded shapes
    shapes = [sh for sh, r in POOL_SHAPES if r == 1 and (not quick or sh[0] == sh[1])]
    for where, k in ([("boundary", 2), ("random", 1)] if quick else [("boundary", 60), ("random", 40)]):
        for _ in range(k):
            shape = shapes[int(rng.integers(len(shapes)))]
            _, q_out, q_in = _enumerated(shape)
            n = q_out ** q_in
            cand = _boundary_indices(n)
            idx = int(cand[int(rng.integers(len(cand)))]) if where == "boundary" else int(rng.integers(n))
            add(shape, 1, where, index=idx)
    pre = _precompute_oracles([_game_args(g["prob"], g["pred"], g["reps"]) for g in games])
    for g, p in zip(games, pre):
        check_pool_forced(ctx, g, p)


def classical_corpus(ctx):
    # minimal games on which the iteration bound matters (no swap / swap)
    pred = np.zeros((2, 3, 2, 1)); pred[:, 2, :, :] = 1
    check_classical(ctx, np.array([[.5], [.5]]), pred, 1, "01", "corpus")
    pred = np.zeros((3, 2, 1, 2)); pred[2, :, :, :] = 1
    check_classical(ctx, np.array([[.5, .5]]), pred, 1, "01", "corpus")
    # CHSH and its parallel repetition, mod-3 games with unequal alphabets
    check_classical(ctx, np.full((2, 2), .25), mod_game(2, 2, 2, 2), 1, "01", "corpus")
    check_classical(ctx, np.full((2, 2), .25), mod_game(2, 2, 2, 2), 2, "01", "corpus")
    check_classical(ctx, np.full((2, 4), .125), mod_game(2, 3, 2, 4), 1, "01", "corpus")
    check_classical(ctx, np.full((4, 2), .125), mod_game(3, 2, 4, 2), 1, "01", "corpus")
    check_classical(ctx, np.array([[.5, .25, .25]]), mod_game(4, 3, 1, 3) * 0.75, 1, "frac", "corpus")
    pred = np.zeros((2, 3, 2, 1)); pred[:, 2, :, :] = 1; pred[0, 0, 0, 0] = .5
    check_classical(ctx, np.array([[.5], [.5]]), pred, 2, "frac", "corpus")


def classical_random(ctx, n_cases, allow_pool=False):
    rng = ctx.rng
    done = 0
    while done < n_cases:
        shape = tuple(int(x) for x in rng.integers(1, 5, size=4))
        reps = 2 if rng.integers(4) == 0 else 1
        pshape = tuple(s ** reps for s in shape)
        it_cur, it_fix, _ = _iters(pshape)
        if max(it_cur, it_fix) > 1000 and not allow_pool:
            continue
        if max(it_cur, it_fix) > 6000 or int(np.prod(pshape)) > 6000:
            continue
        kind = str(rng.choice(["01", "01", "frac", "rational"]))
        prob = rand_prob(rng, shape[2], shape[3], kind)
        pred = rand_pred(rng, shape, "frac" if kind == "frac" else "01")
        check_classical(ctx, prob, pred, reps, kind)
        done += 1


# ------------------------------------------------------------------------------------------------
# (b) constructor tensors


def check_product(ctx, shape, reps):
    from toqito.nonlocal_games.nonlocal_game import NonlocalGame

    ao, bo, ai, bi = shape
    pred = (np.arange(ao * bo * ai * bi).reshape(shape) + 1).astype(float)
    prob = (np.arange(ai * bi).reshape(ai, bi) + 2).astype(float)
    desc = {"fn": "product_game", "shape": list(shape), "reps": reps}
    ctx.case(desc, bool(ao != bo and ai != bi and (ao >= 2 or ai >= 2) and (bo >= 2 or bi >= 2)), f"product/reps={reps}")
    prng = case_rng("c07/product", list(shape), reps)
    pprob, ppred = present_nd(prng, prob), present_nd(prng, pred)     # arange labels: float64 or int64
    desc["presentation"] = {"prob": describe(pprob), "pred": describe(ppred)}
    guard = Pure(pprob, ppred)
    try:
        game = NonlocalGame(pprob, ppred, reps)
    except Exception as e:  # noqa: BLE001
        ctx.violation(f"NonlocalGame(prob, pred, reps={reps}) raised {type(e).__name__}: {str(e)[:200]} for shape {shape}",
                      {"function": "NonlocalGame.__init__(reps)", "args": desc, "impl": repr(e)[:300], "theorem": "productGame_pred"})
        return
    if guard.modified():
        ctx.violation("NonlocalGame.__init__(reps): caller's arguments were modified",
                      {"function": "NonlocalGame.__init__(reps)", "args": desc, "modified": guard.modified(), "theorem": "methods_pure"})
    m = ctx.lean().ask("c07_product_game", _game_args(prob, pred, reps))
    ok = (list(np.shape(game.pred_mat)) == m["shape"] and _fl(game.pred_mat) == [_frac(v) for v in m["pred"]]
          and list(np.shape(game.prob_mat)) == m["shape"][2:] and _fl(game.prob_mat) == [_frac(v) for v in m["prob"]] and game.reps == m["reps"])
    if not ok:
        bad = [i for i, (u, v) in enumerate(zip(_fl(game.pred_mat), [_frac(v) for v in m["pred"]])) if u != v][:5]
        ctx.violation(f"reps={reps} constructor: tensors differ from the r-fold product game (first differing flat pred positions {bad})",
                      {"function": "NonlocalGame.__init__(reps)", "args": desc, "impl_shape": list(np.shape(game.pred_mat)),
                       "model_shape": m["shape"], "theorem": "productGame_pred, productGame_prob, odometer_counts"})


def check_odometer(ctx, old, lim):
    from toqito.helper import update_odometer

    prng = case_rng("c07/odometer", list(old), list(lim))
    pold = present_nd(prng, np.array(old), allow_dtype=False)        # index vectors keep their integer dtype; layout (strided view) varies
    plim = present_nd(prng, np.array(lim), allow_dtype=False) if prng.integers(3) else np.array(lim, dtype=float)   # the constructor passes float limits
    guard = Pure(plim)
    before = pold.copy()
    new = update_odometer(pold, plim)
    m = ctx.lean().ask("c07_update_odometer", {"old": list(old), "lim": list(lim)})
    ctx.case({"fn": "update_odometer", "old": list(old), "lim": list(lim)}, len(set(lim)) > 1 and len(old) >= 2, "odometer")
    if guard.modified():
        ctx.violation("update_odometer: caller's arguments were modified",
                      {"function": "update_odometer", "args": {"fn": "update_odometer", "old": list(old), "lim": list(lim)}, "modified": guard.modified()})
    # Presentation exclusion (candidate defect, reported; counted here, not alarmed): `new_ind = old_ind[:]` is a VIEW of an ndarray
    # argument, so update_odometer advances the caller's `old_ind` array in place (a list argument is copied).  The documented usage
    # `vec = update_odometer(vec, upper_lim)` hides it.  The purity assertion therefore covers `upper_lim` only.
    ctx.count("odometer/old_ind ndarray " + ("left unchanged" if np.array_equal(pold, before) else "ADVANCED IN PLACE (candidate defect, purity of old_ind not asserted)"))
    if [int(x) for x in new] != m["new"]:
        ctx.violation("update_odometer differs from the mixed-radix successor",
                      {"function": "update_odometer", "args": {"fn": "update_odometer", "old": list(old), "lim": list(lim)},
                       "impl": [int(x) for x in new], "model": m["new"], "theorem": "odometer_counts"})


def rand_constraint(rng, n, values):
    """flat C-order tensor of shape (2,)*n depending exactly on a random non-empty subset of the variables"""
    while True:
        k = int(rng.integers(1, n + 1))
        sub = sorted(int(x) for x in rng.choice(n, size=k, replace=False))
        table = rng.integers(0, 2, size=2 ** k)
        full = np.zeros((2,) * n, dtype=int)
        for idx in itertools.product(range(2), repeat=n):
            t = 0
            for v in sub:
                t = 2 * t + idx[v]
            full[idx] = values[int(table[t])]
        if any(np.diff(full, axis=i).any() for i in range(n)):
            return full


def check_bcs(ctx, n, cons, dtype="int", reps=1):
    from toqito.nonlocal_games.nonlocal_game import NonlocalGame

    arrs = [np.array(c, dtype=float if dtype == "float" else int).reshape((2,) * n) for c in cons]
    flat = [[int(v) for v in np.asarray(c).reshape(-1)] for c in cons]
    desc = {"fn": "from_bcs_game", "n": n, "constraints": flat, "dtype": dtype, "reps": reps}
    dep = [[bool(np.diff(a, axis=i).any()) for i in range(n)] for a in arrs]
    ctx.case(desc, any(not all(d) for d in dep) and len({tuple(f) for f in flat}) > 1, f"bcs/n={n}/m={len(cons)}" + ("" if reps == 1 else f"/reps={reps}"))
    prng = case_rng("c07/bcs", n, flat, dtype, reps)
    # each constraint tensor independently: layout, and int64 / float64 / bool (0/1-valued tables) as the values allow
    parrs = [present_nd(prng, a, bool_ok=True) for a in arrs]
    desc["presentation"] = describe(parrs)
    guard = Pure(parrs)
    try:
        game = NonlocalGame.from_bcs_game(parrs) if reps == 1 else NonlocalGame.from_bcs_game(parrs, reps)
    except Exception as e:  # noqa: BLE001
        ctx.violation(f"from_bcs_game raised {type(e).__name__}: {str(e)[:200]}",
                      {"function": "NonlocalGame.from_bcs_game", "args": desc, "impl": repr(e)[:300], "theorem": "bcs_pred_iff"})
        return
    if guard.modified():
        ctx.violation("NonlocalGame.from_bcs_game: caller's arguments were modified",
                      {"function": "NonlocalGame.from_bcs_game", "args": desc, "modified": guard.modified()})
    m = ctx.lean().ask("c07_bcs_game", {"n": n, "constraints": flat, "reps": reps})
    if "reject" in m:
        raise InfraError(f"driver rejected BCS system: {m}")
    ok = game.reps == m["reps"] and list(game.pred_mat.shape) == m["shape"] and _fl(game.pred_mat) == [_frac(v) for v in m["pred"]] and list(game.prob_mat.shape) == m["shape"][2:]
    if ok:
        for u, v in zip(np.asarray(game.prob_mat).reshape(-1), m["prob"]):
            if abs(Fraction(float(u)) - _frac(v)) > Fraction(1, 2 ** 50):
                ok = False
    if not ok:
        ctx.violation("from_bcs_game: tensors differ from 'Bob's bit equals Alice's assignment and the constraint is satisfied' / uniform-over-dependent-variables",
                      {"function": "NonlocalGame.from_bcs_game", "args": desc, "impl_pred": _qlist(game.pred_mat)[:64], "model_pred": m["pred"][:64],
                       "impl_prob": [float(x) for x in np.asarray(game.prob_mat).reshape(-1)], "model_prob": m["prob"], "theorem": "bcs_pred_iff"})


def constructors(ctx, quick):
    rng = ctx.rng
    for shape in [(2, 3, 2, 1), (3, 2, 1, 2), (2, 3, 3, 2), (2, 2, 2, 2), (1, 2, 3, 2), (4, 2, 2, 3)]:
        check_product(ctx, shape, 2)
    check_product(ctx, (2, 3, 2, 1), 3)
    check_product(ctx, (2, 2, 2, 2), 1)
    n = 0
    while n < (40 if quick else 250):
        shape = tuple(int(x) for x in rng.integers(1, 5, size=4))
        reps = int(rng.choice([2, 2, 2, 3]))
        if int(np.prod(shape)) ** reps > (5000 if quick else 40000):
            continue
        check_product(ctx, shape, reps)
        n += 1
    for _ in range(60 if quick else 400):
        k = int(rng.integers(1, 5))
        lim = [int(x) for x in rng.integers(1, 5, size=k)]
        old = [int(rng.integers(0, l)) for l in lim]
        if rng.integers(3) == 0:
            old = [l - 1 for l in lim]  # full wrap-around
        check_odometer(ctx, old, lim)
    # CHSH as a BCS game, then random systems
    check_bcs(ctx, 2, [[1, 0, 0, 1], [0, 1, 1, 0]], "float")
    # `from_bcs_game(constraints, reps)`: the BCS tensors go through the constructor's `reps` branch (constraints of different arity)
    check_bcs(ctx, 2, [[1, 0, 0, 1], [0, 0, 1, 1]], "int", 2)
    for _ in range(3 if quick else 20):
        nv = int(rng.integers(2, 4))
        mm = int(rng.integers(1, 3))
        check_bcs(ctx, nv, [rand_constraint(rng, nv, (0, 1)).reshape(-1).tolist() for _ in range(mm)], str(rng.choice(["int", "float"])), 2)
    # the documented rejection: an empty constraint list
    from toqito.nonlocal_games.nonlocal_game import NonlocalGame as _NG
    ctx.case({"fn": "from_bcs_game_empty"}, False, "bcs/empty")
    mrej = ctx.lean().ask("c07_bcs_game", {"n": 2, "constraints": []})
    try:
        _NG.from_bcs_game([])
        ctx.violation("from_bcs_game([]) did not raise (documented: 'At least 1 constraint is required')",
                      {"function": "NonlocalGame.from_bcs_game", "args": {"fn": "from_bcs_game_empty"}, "model": mrej, "theorem": "bcs_prob_spec (0 < m)"})
    except ValueError:
        if mrej.get("reject") != "NoConstraint":
            raise InfraError(f"driver did not reject an empty BCS system: {mrej}")
    for _ in range(60 if quick else 400):
        nv = int(rng.integers(2, 5))
        m = int(rng.integers(1, 5))
        values = [(-1, 1), (0, 1), (1, -1), (2, 1)][int(rng.integers(4))]
        cons = [rand_constraint(rng, nv, values).reshape(-1).tolist() for _ in range(m)]
        check_bcs(ctx, nv, cons, str(rng.choice(["int", "float"])))


# ------------------------------------------------------------------------------------------------
# (d), (e) SDP-based values: run in worker processes


def _sdp_worker(task):
    """Runs the value methods of one object in the given order.  Returns per call: op, value, solver names, and
    whether prob_mat / pred_mat / reps still equal the deep copies taken before the call."""
    import cvxpy
    import toqito.nonlocal_games.nonlocal_game as ng

    prob = np.array(task["prob"], dtype=float).reshape(task["pshape"])
    pred = np.array(task["pred"], dtype=float).reshape(task["shape"])
    # re-presentation of the same values (reproducible from the task alone); the predicate keeps float64 when classical_value is
    # part of the history (PRED_DTYPE_EXCLUSION)
    prng = case_rng("c07/sdp", task["seed"], task["kind"], task["shape"], task["reps"], task["ops"])
    prob = present_nd(prng, prob, bool_ok=True)
    pred = present_nd(prng, pred, bool_ok=True)
    guard = Pure(prob, pred)
    try:
        game = ng.NonlocalGame(prob, pred, task["reps"])
    except Exception as e:  # noqa: BLE001
        return {"calls": [{"op": "__init__", "value": None, "err": f"{type(e).__name__}: {str(e)[:200]}", "solvers": [], "unchanged": True, "args_modified": None}],
                "final_prob": [], "final_pred": [], "final_reps": -1, "presentation": {"prob": describe(prob), "pred": describe(pred)}}
    orig_povm = ng.random_povm
    state = {"k": 0}

    def seeded_povm(dim, n_in, n_out):
        state["k"] += 1
        return orig_povm(dim, n_in, n_out, seed=task["seed"] * 1000 + state["k"])

    solvers = []
    orig_solve = cvxpy.Problem.solve

    def rec_solve(self, *a, **k):
        r = orig_solve(self, *a, **k)
        try:
            solvers.append(self.solver_stats.solver_name)
        except Exception:  # noqa: BLE001
            solvers.append("?")
        return r

    ng.random_povm = seeded_povm
    cvxpy.Problem.solve = rec_solve
    out = []
    try:
        for op in task["ops"]:
            snap = (copy.deepcopy(game.prob_mat), copy.deepcopy(game.pred_mat), copy.deepcopy(game.reps))
            solvers.clear()
            state["k"] = 0
            try:
                if op == "classical":
                    v = game.classical_value()
                elif op == "quantum_lb":
                    v = game.quantum_value_lower_bound(dim=2, iters=task.get("iters", 2))
                elif op == "nonsignaling":
                    v = game.nonsignaling_value()
                else:
                    v = game.commuting_measurement_value_upper_bound({"npa1": 1, "npa1ab": "1+ab", "npa2": 2}[op])
                err = None
            except Exception as e:  # noqa: BLE001
                v, err = None, f"{type(e).__name__}: {str(e)[:200]}"
            same = (np.array_equal(game.prob_mat, snap[0]) and np.array_equal(game.pred_mat, snap[1]) and game.reps == snap[2]
                    and np.asarray(game.prob_mat).shape == snap[0].shape and np.asarray(game.pred_mat).shape == snap[1].shape)
            out.append({"op": op, "value": None if v is None else float(v), "err": err, "solvers": sorted(set(solvers)), "unchanged": bool(same),
                        "args_modified": guard.modified()})
    finally:
        ng.random_povm = orig_povm
        cvxpy.Problem.solve = orig_solve
    return {"calls": out, "final_prob": np.asarray(game.prob_mat, dtype=float).reshape(-1).tolist(),
            "final_pred": np.asarray(game.pred_mat, dtype=float).reshape(-1).tolist(), "final_reps": int(game.reps),
            "presentation": {"prob": describe(prob), "pred": describe(pred)}}


def _tol(solvers):
    if not solvers:
        return 0.0
    return TOL_SCS if any("SCS" in s.upper() for s in solvers) else TOL_IP


def _mk_task(prob, pred, reps, ops, seed, kind, iters=2):
    return {"prob": np.asarray(prob, dtype=float).reshape(-1).tolist(), "pshape": list(np.shape(prob)),
            "pred": np.asarray(pred, dtype=float).reshape(-1).tolist(), "shape": list(np.shape(pred)),
            "reps": reps, "ops": list(ops), "seed": int(seed), "kind": kind, "iters": iters}


def _task_desc(task):
    return {"fn": task["kind"], "shape": task["shape"], "reps": task["reps"], "ops": task["ops"], "seed": task["seed"], "iters": task["iters"],
            "prob": [_q(x) for x in task["prob"]], "pred": [_q(x) for x in task["pred"]]}


def judge(ctx, task, res):
    """ordering chain + history checks on the values returned by one worker"""
    desc = _task_desc(task)
    shape = tuple(task["shape"])
    pred = np.array(task["pred"]).reshape(shape)
    ctx.case(desc, _nontrivial(shape, pred), f"{task['kind']}/reps={task['reps']}")
    calls = res["calls"]
    info0 = {"args": desc, "calls": calls}
    for c in calls:
        ctx.count(f"sdp/{c['op']}/solver=" + ("+".join(c["solvers"]) or "none"))
        if c["err"] is not None or c["value"] is None or not np.isfinite(c["value"]):
            ctx.violation(f"{c['op']} failed on a valid game: {c['err']} value={c['value']}", {"function": c["op"], **info0, "theorem": "ordering chain"})
            return
        if not c["unchanged"]:
            ctx.violation(f"calling {c['op']} changed prob_mat / pred_mat / reps of the object", {"function": c["op"], **info0, "theorem": "methods_pure"})
        if c.get("args_modified"):
            ctx.violation(f"NonlocalGame.{c['op']}: caller's arguments were modified",
                          {"function": c["op"], **info0, "modified": c["args_modified"], "presentation": res.get("presentation"), "theorem": "methods_pure"})
    # the model's view of the history: classical values and final attributes
    m = ctx.lean().ask("c07_history", {**_game_args(np.array(task["prob"]).reshape(task["pshape"]), pred, task["reps"]), "ops": task["ops"]})
    if _fl(np.array(res["final_prob"])) != [_frac(v) for v in m["prob"]] or _fl(np.array(res["final_pred"])) != [_frac(v) for v in m["pred"]] or res["final_reps"] != m["reps"]:
        ctx.violation("attributes after the history differ from the constructed game (model: every step returns the object unchanged)",
                      {"function": "history", **info0, "theorem": "value_order_independent"})
    spec = _frac(ctx.lean().ask("c07_classical_value_fixed", _game_args(np.array(task["prob"]).reshape(task["pshape"]), pred, task["reps"]))["value"])
    first = {}
    for i, c in enumerate(calls):
        v, t = c["value"], _tol(c["solvers"])
        if c["op"] == "classical":
            hist = _frac(m["values"][i])  # the state machine's value of this step (mirror of the code since the fix)
            if hist != spec:
                raise InfraError(f"Lean: history value {hist} != classicalValueFixed {spec} on {desc}")
            if abs(Fraction(v) - spec) > Fraction(1, 10 ** 12):
                ctx.violation(f"classical_value = {v} inside a history, specification {spec}",
                              {"function": "NonlocalGame.classical_value", **info0, "impl": v, "spec": str(spec),
                               "impl_equals_current_mirror": False, "enum_complete": None, "theorem": "classicalValueFixed_eq_maxDet"})
        if c["op"] in first:
            v0, t0 = first[c["op"]]
            if (c["op"] == "classical" and v != v0) or abs(v - v0) > max(t, t0):
                ctx.violation(f"{c['op']} returned {v0} and later {v} on the same object (order dependence)",
                              {"function": c["op"], **info0, "theorem": "value_order_independent"})
        else:
            first[c["op"]] = (v, t)
    # ordering chain on whatever was computed
    npa = [k for k in ("npa1", "npa1ab", "npa2") if k in first]

    def le(a, b, what):
        (va, ta), (vb, tb) = first[a], first[b]
        ctx.count("chain/" + what)
        if va > vb + max(ta, tb):
            ctx.violation(f"ordering violated: {a} = {va} > {b} = {vb} (tolerance {max(ta, tb)}) [{what}]",
                          {"function": f"{a} <= {b}", **info0, "theorem": "ordering chain (certificate part gives the bounds their meaning)"})

    for k in npa:
        if "classical" in first:
            le("classical", k, "classical<=npa")
        if "quantum_lb" in first:
            le("quantum_lb", k, "seesaw<=npa")
        if "nonsignaling" in first:
            le(k, "nonsignaling", "npa<=ns")
    for hi, lo in (("npa1", "npa1ab"), ("npa1ab", "npa2"), ("npa1", "npa2")):
        if hi in first and lo in first:
            le(lo, hi, "npa-nonincreasing")
    if "classical" in first and "nonsignaling" in first:
        le("classical", "nonsignaling", "classical<=ns")
    if "nonsignaling" in first:
        ctx.count("chain/ns<=1")
        v, t = first["nonsignaling"]
        if v > 1 + t:
            ctx.violation(f"nonsignaling_value = {v} > 1", {"function": "nonsignaling_value", **info0, "theorem": "ordering chain"})
    if "classical" in first and first["classical"][0] > 1:
        ctx.violation(f"classical_value = {first['classical'][0]} > 1", {"function": "classical_value", **info0, "theorem": "classical_le_one"})
    if "classical" in first and "quantum_lb" in first and first["quantum_lb"][0] > first["classical"][0] + 2e-3:
        ctx.count("chain/instances-with-quantum-advantage")
    if "npa2" in first and "nonsignaling" in first and first["npa2"][0] < first["nonsignaling"][0] - 2e-3:
        ctx.count("chain/instances-with-npa2<ns-strictly")
    if "npa1" in first and "npa2" in first and first["npa2"][0] < first["npa1"][0] - 2e-3:
        ctx.count("chain/instances-with-npa2<npa1-strictly")


CHAIN_SHAPES = [(2, 2, 2, 2)] * 4 + [(2, 3, 2, 2), (3, 2, 2, 2), (2, 2, 3, 2), (2, 2, 2, 3), (2, 3, 3, 2), (3, 2, 2, 3), (2, 3, 2, 3), (3, 2, 3, 2)]


def sdp_tasks(ctx, quick):
    rng = ctx.rng
    tasks = []
    seed = 0

    def add(prob, pred, reps, ops, kind):
        nonlocal seed
        seed += 1
        tasks.append(_mk_task(prob, pred, reps, ops, seed, kind))

    # corpus: CHSH, the enumeration-bound games, a mod-3 game with unequal alphabets
    add(np.full((2, 2), .25), mod_game(2, 2, 2, 2), 1, OPS, "chain")
    pred = np.zeros((2, 3, 2, 1)); pred[:, 2, :, :] = 1; pred[0, 0, 0, 0] = 1
    add(np.array([[.5], [.5]]), pred, 1, OPS, "chain")
    add(np.full((3, 2), 1 / 6), mod_game(2, 3, 3, 2), 1, OPS, "chain")
    add(np.array([[.25, .25], [.125, .375]]), mod_game(3, 2, 2, 2), 1, OPS, "chain")
    n_chain = 36 if quick else 300
    for _ in range(n_chain):
        shape = CHAIN_SHAPES[int(rng.integers(len(CHAIN_SHAPES)))]
        kind = str(rng.choice(["01", "01", "frac", "rational"]))
        prob = rand_prob(rng, shape[2], shape[3], kind)
        pred = rand_pred(rng, shape, "frac" if kind == "frac" else "01", 0.45)
        r = int(rng.integers(4))
        if r == 0:
            pred = mod_game(*shape) * (rng.random(size=shape) < 0.9)
        elif r == 1:
            pred = xor_game(rng, shape)
        add(prob, pred, 1, OPS, "chain")
    # parallel repetition (product alphabets of size 4; NPA level 2 takes about a minute there: thorough only)
    guess = np.zeros((2, 2, 2, 1))
    for a in range(2):
        guess[a, a, a, 0] = 1  # both must answer Alice's question; Bob has to guess it
    guess[1, 0, 0, 0] = .5
    add(np.array([[.75], [.25]]), guess, 2, OPS if not quick else OPS[:5], "chain")
    if not quick:
        add(np.array([[.5, .5]]), rand_pred(rng, (2, 2, 1, 2), "01", 0.5), 2, OPS, "chain")
    # histories: random orders with repetitions
    n_hist = 14 if quick else 100
    for _ in range(n_hist):
        shape = CHAIN_SHAPES[int(rng.integers(8))]
        kind = str(rng.choice(["01", "frac", "rational"]))
        prob = rand_prob(rng, shape[2], shape[3], kind)
        pred = rand_pred(rng, shape, "frac" if kind == "frac" else "01")
        k = int(rng.integers(5, 9))
        ops = [str(x) for x in rng.choice(OPS, size=k)]
        ops.append(ops[int(rng.integers(len(ops)))])  # at least one method is called twice
        if "classical" not in ops:
            ops.insert(int(rng.integers(len(ops))), "classical")
        ops.append("classical")
        add(prob, pred, 1, ops, "history")
    return tasks


def run_sdp(ctx, tasks):
    if not tasks:
        return
    workers = max(1, min(16, os.cpu_count() or 1, len(tasks)))
    mp = multiprocessing.get_context("fork")
    with mp.Pool(workers) as pool:
        results = pool.map(_sdp_worker, tasks, chunksize=1)
    for task, res in zip(tasks, results):
        judge(ctx, task, res)



# ------------------------------------------------------------------------------------------------
# (f) stream npa_embedding: NPA hierarchy and non-signalling program, model vs code and feasibility embedding

EQ_TOL = 1e-12
PSD_TOL = 1e-9
QUANTUM_TOL = 1e-9
_PL = {"": 0, "Alice": 1, "Bob": 2}
NPA_LEVELS = {"npa1": 1, "npa1ab": "1+ab", "npa2": 2}
# (ao, bo, ai, bi): unequal answer and question alphabets, both orders; two shapes with a trivial player
EMBED_SHAPES = [(2, 2, 2, 2), (2, 3, 2, 2), (3, 2, 2, 2), (2, 2, 3, 2), (2, 2, 2, 3), (2, 3, 3, 2), (3, 2, 2, 3), (2, 3, 2, 3),
                (3, 2, 3, 2), (3, 3, 2, 2), (2, 2, 3, 3), (3, 3, 3, 3), (1, 2, 2, 2), (2, 3, 1, 2)]


def _enc_word(w):
    return [[_PL[s.player], int(s.question or 0), int(s.answer or 0)] for s in w]


def _level_args(k, ao, ai, bo, bi):
    """arguments of the c07_npa_* ops; for a string level the iteration order of the Python set is passed along"""
    from toqito.helper import npa_hierarchy as nh

    args = {"ao": ao, "ai": ai, "bo": bo, "bi": bi, "k": k}
    if isinstance(k, str):
        args["conf_order"] = [list(c) for c in nh._parse(k)[1]]
    return args


def check_words(ctx, ao, ai, bo, bi, k):
    """(i) `_parse` and `_gen_words` against `parseLevel` / `genWords`, symbol for symbol"""
    from toqito.helper import npa_hierarchy as nh

    desc = {"fn": "npa_words", "ao": ao, "ai": ai, "bo": bo, "bi": bi, "k": k}
    ctx.case(desc, ao >= 2 and bo >= 2 and (ao != bo or ai != bi), f"npa/words/k={k}")
    lean = ctx.lean()
    if isinstance(k, str):
        base, conf = nh._parse(k)
        m = lean.ask("c07_npa_parse", {"k": k})
        if "reject" in m:
            raise InfraError(f"driver rejected level {k!r}: {m}")
        if m["base"] != base or sorted(map(tuple, m["conf"])) != sorted(conf) or len(m["conf"]) != len(conf):
            ctx.violation(f"_parse({k!r}) = {(base, sorted(conf))} differs from the model {(m['base'], m['conf'])}",
                          {"function": "npa_hierarchy._parse", "args": desc, "impl": [base, sorted(conf)], "model": m, "theorem": "npa_sound_det (levelSpec)"})
            return
    impl = [_enc_word(w) for w in nh._gen_words(k, ao, ai, bo, bi)]
    m = lean.ask("c07_npa_words", _level_args(k, ao, ai, bo, bi))
    if "reject" in m:
        raise InfraError(f"driver rejected {desc}: {m}")
    if impl != m["words"]:
        first = next((i for i, (u, v) in enumerate(zip(impl, m["words"])) if u != v), min(len(impl), len(m["words"])))
        ctx.violation(f"_gen_words{(k, ao, ai, bo, bi)}: {len(impl)} words, model {len(m['words'])}; first difference at position {first} "
                      f"(the Lean soundness theorem speaks about the model's word list: the tie is broken)",
                      {"function": "npa_hierarchy._gen_words", "args": desc, "impl": impl[first:first + 3], "model": m["words"][first:first + 3],
                       "theorem": "npa_sound_det (genWords)"})


def check_reduce_batch(ctx, words, tag):
    """(i) `_reduce` against `reduceWord` on a batch of words given as lists of [player, question, answer]"""
    from toqito.helper import npa_hierarchy as nh

    names = {0: "", 1: "Alice", 2: "Bob"}
    lean = ctx.lean()
    outs = lean.ask_many([("c07_npa_reduce", {"word": w}) for w in words])
    for w, m in zip(words, outs):
        tup = tuple(nh.Symbol(names[p], q, a) if p else nh.Symbol("") for p, q, a in w)
        impl = _enc_word(nh._reduce(tup))
        players = {p for p, _, _ in w}
        ctx.case({"fn": "npa_reduce", "word": w}, len(w) >= 3 and {1, 2} <= players, f"npa/reduce/{tag}")
        if impl != m["word"]:
            ctx.violation(f"_reduce({w}) = {impl}, model reduceWord gives {m['word']}",
                          {"function": "npa_hierarchy._reduce", "args": {"fn": "npa_reduce", "word": w}, "impl": impl, "model": m["word"],
                           "theorem": "reduce_preserves_val"})


def words_and_reduce(ctx, quick):
    rng = ctx.rng
    top = 3 if quick else 4
    levels = [1, 2, "1+ab", "1+aab"] if quick else [1, 2, 3, "1+ab", "1+aab", "1+ab+aab", "2+aab", "1+abb+ab", "2+aabb", "1+b+bb"]
    for ao, ai, bo, bi in itertools.product(range(1, top + 1), repeat=4):
        for k in levels:
            if (k == 3 or (isinstance(k, str) and len(k) >= 6)) and (ao - 1) * ai + (bo - 1) * bi > 9:
                continue  # word lists of several thousand words: small alphabets only
            check_words(ctx, ao, ai, bo, bi, k)
    # random words over a small alphabet (identity symbols included), lengths 0..7
    batch = []
    for _ in range(1500 if quick else 12000):
        n = int(rng.integers(0, 8))
        nq, na = int(rng.integers(1, 3)), int(rng.integers(1, 4))
        w = []
        for _ in range(n):
            p = int(rng.choice([0, 1, 1, 1, 2, 2, 2]))
            w.append([0, 0, 0] if p == 0 else [p, int(rng.integers(nq)), int(rng.integers(na))])
        batch.append(w)
    check_reduce_batch(ctx, batch, "random")
    # the words the constraint loop really reduces: reversed(words[i]) + words[j]
    from toqito.helper import npa_hierarchy as nh
    for (ao, ai, bo, bi), k in (((2, 2, 3, 2), 2), ((3, 2, 2, 1), "1+ab"), ((3, 1, 3, 2), 2)) + (() if quick else (((3, 2, 3, 2), 2), ((2, 3, 3, 2), "1+aab"))):
        ws = [_enc_word(w) for w in nh._gen_words(k, ao, ai, bo, bi)]
        prods = [list(reversed(ws[i])) + ws[j] for i in range(len(ws)) for j in range(i, len(ws))]
        if quick and len(prods) > 700:
            prods = [prods[int(t)] for t in rng.choice(len(prods), size=700, replace=False)]
        check_reduce_batch(ctx, prods, "products")


class _Captured(Exception):
    pass


def _capture(fn):
    """Runs fn() with cvxpy.Problem.solve replaced (inside this process only, restored afterwards) by a recorder that keeps the
    Problem object and aborts the call; returns the recorded problems."""
    import cvxpy

    captured = []
    orig = cvxpy.Problem.solve

    def fake(self, *a, **kw):
        captured.append(self)
        raise _Captured()

    cvxpy.Problem.solve = fake
    try:
        try:
            fn()
        except _Captured:
            pass
    finally:
        cvxpy.Problem.solve = orig
    return captured


def _bad_constraints(P, psd_tol=PSD_TOL, eq_tol=EQ_TOL):
    """constraints of the captured problem that the current variable values violate: (index, kind, residual, text)"""
    bad = []
    for idx, c in enumerate(P.constraints):
        v = c.violation()
        r = float(np.max(np.abs(v))) if np.size(v) else 0.0
        kind = type(c).__name__
        if not np.isfinite(r) or r > (psd_tol if kind == "PSD" else eq_tol):
            bad.append([idx, kind, r, str(c)[:200]])
    return bad


def _npa_vars(P, shape):
    """(R, {(x, y): M_xy}, how) of the captured NPA problem"""
    import re

    ao, bo, ai, bi = shape
    named, rvar = {}, None
    for v in P.variables():
        nm = v.name()
        mm = re.search(r"\|\s*(\d+)\s*,\s*(\d+)\s*\)", nm)
        if nm == "R":
            rvar = v
        elif mm and tuple(v.shape) == (ao, bo):
            named[(int(mm.group(1)), int(mm.group(2)))] = v
    if rvar is not None and sorted(named) == [(x, y) for x in range(ai) for y in range(bi)] and len(P.variables()) == ai * bi + 1:
        return rvar, named, "names"
    objv = sorted(P.objective.variables(), key=lambda v: v.id)
    rest = [v for v in P.variables() if all(v is not o for o in objv)]
    if len(objv) == ai * bi and len(rest) == 1 and all(tuple(v.shape) == (ao, bo) for v in objv):
        return rest[0], {(x, y): objv[x * bi + y] for x in range(ai) for y in range(bi)}, "creation-order"
    raise CorrespondenceBroken(f"cannot identify the variables of the captured NPA problem: {[(v.name(), v.shape) for v in P.variables()]}")


def _game_of(task):
    shape = tuple(task["shape"])
    prob = np.array(task["prob"], dtype=float).reshape(shape[2], shape[3])
    pred = np.array(task["pred"], dtype=float).reshape(shape)
    return shape, prob, pred


def _strategy_nontrivial(shape, f, g):
    ao, bo, ai, bi = shape
    return bool(ao >= 2 and bo >= 2 and (ao != bo or ai != bi) and (len(set(f)) > 1 or len(set(g)) > 1 or ai == 1 or bi == 1))


def _embed_desc(fn, task, f, g):
    return {"fn": fn, "shape": list(task["shape"]), "k": task.get("k"), "kind": task["kind"], "prob": [_q(x) for x in task["prob"]],
            "pred": [_q(x) for x in task["pred"]], "f": list(f), "g": list(g)}


def work_npa_embed(task, res):
    """(ii) capture the problem of commuting_measurement_value_upper_bound(k) and embed deterministic strategies into it"""
    import warnings
    from toqito.nonlocal_games.nonlocal_game import NonlocalGame
    from toqito.helper import npa_hierarchy as nh

    warnings.filterwarnings("ignore")
    shape, prob, pred = _game_of(task)
    ao, bo, ai, bi = shape
    k = task["k"]
    drv = worker_driver()
    base_desc = _embed_desc("npa_embed", task, [], [])
    prng = case_rng("c07/npa_embed", task["shape"], k, task["kind"], task["prob"], task["pred"])
    pprob, ppred = present_nd(prng, prob, bool_ok=True), present_nd(prng, pred, bool_ok=True)     # 0/1 predicates also as int64 / bool
    base_desc["presentation"] = {"prob": describe(pprob), "pred": describe(ppred)}
    guard = Pure(pprob, ppred)
    try:
        game = NonlocalGame(pprob, ppred)
        probs = _capture(lambda: game.commuting_measurement_value_upper_bound(k))
    except Exception as e:  # noqa: BLE001
        res.violation(f"commuting_measurement_value_upper_bound({k!r}) raised {type(e).__name__}: {str(e)[:200]} while building its problem for shape {shape}",
                      {"function": "NonlocalGame.commuting_measurement_value_upper_bound", "args": base_desc, "impl": repr(e)[:300], "theorem": "npa_sound_det"})
        return
    if guard.modified():
        res.violation("NonlocalGame.commuting_measurement_value_upper_bound: caller's arguments were modified",
                      {"function": "NonlocalGame.commuting_measurement_value_upper_bound", "args": base_desc, "modified": guard.modified(), "theorem": "methods_pure"})
    if len(probs) != 1:
        raise CorrespondenceBroken(f"expected one cvxpy problem from commuting_measurement_value_upper_bound, captured {len(probs)}")
    P = probs[0]
    rvar, mvars, how = _npa_vars(P, shape)
    res.count(f"npa/embed/variables-identified-by-{how}")
    largs = _level_args(k, ao, ai, bo, bi)
    gargs = {**largs, "prob": _qlist(prob), "pred": _qlist(pred)}
    # model vs code: size of the moment matrix and number of constraints (differences are notes, not alarms)
    mc = drv.ask("c07_npa_constraints", largs)
    if "reject" in mc:
        raise InfraError(f"driver rejected {largs}: {mc}")
    n_code = len(P.constraints)
    n_zero_code = 0
    for c in P.constraints:
        if type(c).__name__ == "Equality" and any(a.is_constant() and not np.any(a.value) for a in c.args):
            n_zero_code += 1
    dim_code = int(rvar.shape[0])
    if (n_code, n_zero_code, dim_code) == (mc["count"], mc["n_zero"], mc["dim"]):
        res.count("npa/embed/constraint-counts-equal-model")
    else:
        res.count("npa/embed/constraint-counts-differ-from-model")
        res.note(f"npa_constraints shape={shape} k={k!r}: code has {n_code} constraints / {n_zero_code} forced zeros / dim {dim_code}, "
                 f"model {mc['count']} / {mc['n_zero']} / {mc['dim']} (informational)")
    code_words = nh._gen_words(k, ao, ai, bo, bi)
    first = True
    for f, g in task["strategies"]:
        desc = _embed_desc("npa_embed", task, f, g)
        res.case(desc, _strategy_nontrivial(shape, f, g), f"npa/embed/k={k}")
        m = drv.ask("c07_npa_embed", {**gargs, "f": list(f), "g": list(g), "self_check": first})
        if "reject" in m:
            raise InfraError(f"driver rejected {desc}: {m}")
        if first and m["model_violated"]:
            raise InfraError(f"Lean model: the embedded point violates model constraints {m['model_violated'][:3]} (contradicts npa_sound_det) on {desc}")
        z = np.array([float(_frac(v)) for v in m["z"]])
        if len(z) != dim_code or len(code_words) != dim_code:
            res.violation(f"moment matrix of the code has size {dim_code}, the model's word list has {len(z)} words (k={k!r}, shape {shape})",
                          {"function": "npa_constraints", "args": desc, "impl": dim_code, "model": len(z), "theorem": "npa_sound_det"})
            return
        rvar.save_value(np.outer(z, z).astype(complex))
        for (x, y), v in mvars.items():
            kxy = np.zeros((ao, bo))
            kxy[f[x], g[y]] = 1.0
            v.save_value(kxy)
        bad = _bad_constraints(P)
        obj = float(P.objective.expr.value)
        exact = _frac(m["objective"])
        if _frac(m["det_value"]) != exact:
            raise InfraError(f"Lean: objective {m['objective']} != detValueN {m['det_value']} (proved equal) on {desc}")
        if bad:
            res.violation(
                f"npa_constraints(k={k!r}) for shape (ao,bo,ai,bi)={shape}: the deterministic strategy f={list(f)}, g={list(g)} (moment matrix z z^T, "
                f"z = values of the words; K = its behaviour) violates {len(bad)} of the {n_code} constraints the code emits, e.g. {bad[0]} — "
                f"the relaxation cuts off a classical strategy, so its optimum is not an upper bound",
                {"function": "npa_constraints / commuting_measurement_value_upper_bound", "args": desc, "violated": bad[:6], "z": [int(t) for t in z],
                 "theorem": "npa_sound_det, classical_le_npa_model"})
        if abs(Fraction(obj) - exact) > Fraction(1, 10 ** 12):
            res.violation(
                f"commuting_measurement_value_upper_bound({k!r}): captured objective at the behaviour of f={list(f)}, g={list(g)} is {obj!r}, "
                f"the strategy wins with probability {exact} = {float(exact)!r}",
                {"function": "NonlocalGame.commuting_measurement_value_upper_bound (objective)", "args": desc, "impl": obj, "model": str(exact),
                 "theorem": "npa_sound_det (objective = detValue)"})
        if first:
            # negative control: the evaluation machinery must notice a point that is not feasible
            r2 = np.outer(z, z).astype(complex)
            r2[0, 0] = 2.0
            rvar.save_value(r2)
            if not _bad_constraints(P):
                raise InfraError("negative control: a moment matrix with R[0,0] = 2 passed every captured constraint")
            res.count("npa/embed/negative-control-detected")
        first = False
    # (iv) numerically: moments of random commuting projective measurements on a random state
    for seed in task.get("quantum_seeds", []):
        _quantum_embed(task, res, P, rvar, mvars, code_words, seed)
    # (v) numerically: a feasible point of the see-saw programs (assemblage + POVMs, tau singular for every other seed), dilated to a
    # commuting projective strategy exactly as in the Lean proof (seesaw_point_is_quantum / naimark_dilation), must be feasible as well
    for seed in task.get("quantum_seeds", [])[:1]:
        if len(P.constraints) <= 1200:          # evaluating a captured problem costs ~1 ms per constraint; the big level-2 problems keep (iv) only
            _seesaw_point_embed(task, res, P, rvar, mvars, code_words, seed)
        else:
            res.count("npa/seesaw-point/skipped-large-problem")


def _rand_unitary(rng, d):
    q, r = np.linalg.qr(rng.normal(size=(d, d)) + 1j * rng.normal(size=(d, d)))
    return q * (np.diag(r) / np.abs(np.diag(r)))


def _rand_projective(rng, d, n_out):
    """n_out orthogonal projectors summing to the identity of dimension d (ranks from a random composition; rank 0 allowed)"""
    cuts = np.sort(rng.integers(0, d + 1, size=n_out - 1))
    ranks = np.diff(np.concatenate([[0], cuts, [d]]))
    u = _rand_unitary(rng, d)
    out, pos = [], 0
    for r in ranks:
        cols = u[:, pos:pos + int(r)]
        out.append(cols @ cols.conj().T)
        pos += int(r)
    return out


def _quantum_embed(task, res, P, rvar, mvars, code_words, seed):
    shape, prob, pred = _game_of(task)
    ao, bo, ai, bi = shape
    rng = np.random.default_rng([7, seed])
    da, db = int(rng.integers(max(2, ao), ao + 2)), int(rng.integers(max(2, bo), bo + 2))
    a_ops = [[np.kron(p, np.eye(db)) for p in _rand_projective(rng, da, ao)] for _ in range(ai)]
    b_ops = [[np.kron(np.eye(da), p) for p in _rand_projective(rng, db, bo)] for _ in range(bi)]
    psi = rng.normal(size=da * db) + 1j * rng.normal(size=da * db)
    psi /= np.linalg.norm(psi)
    vecs = []
    for w in code_words:
        v = psi
        for s in reversed(w):
            if s.player == "Alice":
                v = a_ops[s.question][s.answer] @ v
            elif s.player == "Bob":
                v = b_ops[s.question][s.answer] @ v
        vecs.append(v)
    vmat = np.array(vecs).T
    rvar.save_value(vmat.conj().T @ vmat)
    value = 0.0
    for (x, y), v in mvars.items():
        kxy = np.array([[float(np.real(psi.conj() @ (a_ops[x][a] @ (b_ops[y][b] @ psi)))) for b in range(bo)] for a in range(ao)])
        v.save_value(kxy)
        value += prob[x, y] * float(np.sum(pred[:, :, x, y] * kxy))
    desc = {**_embed_desc("npa_quantum", task, [], []), "seed": int(seed), "dims": [da, db]}
    res.case(desc, ao >= 2 and bo >= 2 and (ao != bo or ai != bi), f"npa/quantum/k={task['k']}")
    bad = _bad_constraints(P, psd_tol=QUANTUM_TOL, eq_tol=QUANTUM_TOL)
    obj = float(P.objective.expr.value)
    if bad:
        res.violation(
            f"npa_constraints(k={task['k']!r}) for shape {shape}: the moments of random commuting projective measurements (dims {da}x{db}, seed {seed}) "
            f"violate {len(bad)} emitted constraints beyond {QUANTUM_TOL}, e.g. {bad[0]} — a quantum commuting strategy is cut off",
            {"function": "npa_constraints (quantum strategy)", "args": desc, "violated": bad[:6],
             "theorem": "soundness of the NPA relaxation for commuting projective strategies (not proved in Lean; numerical check)"})
    if abs(obj - value) > QUANTUM_TOL:
        res.violation(f"captured NPA objective {obj!r} differs from the winning probability {value!r} of the quantum strategy (seed {seed})",
                      {"function": "commuting_measurement_value_upper_bound (objective, quantum strategy)", "args": desc, "impl": obj, "model": value,
                       "theorem": "objective = winning probability"})


def _rand_povm(rng, d, n_out):
    """n_out positive semidefinite d x d matrices summing to the identity (not projective)"""
    gs = [rng.normal(size=(d, d)) + 1j * rng.normal(size=(d, d)) for _ in range(n_out)]
    ms = [g @ g.conj().T for g in gs]
    tot = sum(ms)
    w, v = np.linalg.eigh(tot)
    inv_sqrt = v @ np.diag(w ** -0.5) @ v.conj().T
    return [inv_sqrt @ m @ inv_sqrt for m in ms]


def _psd_fun(h, f):
    w, v = np.linalg.eigh((h + h.conj().T) / 2)
    return v @ np.diag([f(max(t, 0.0)) for t in w]) @ v.conj().T


def _naimark(povm):
    """the projectors P_a = U^H Pi_a U of Toq/Proofs/NpaPovm.lean on C^d + (C^k x C^d) and the inclusion J"""
    k, d = len(povm), povm[0].shape[0]
    cs = [_psd_fun(e, np.sqrt) for e in povm]
    v = np.vstack(cs)                                   # (k d) x d, block a = C_a
    n = d + k * d
    u = np.zeros((n, n), dtype=complex)
    u[:d, d:] = -v.conj().T
    u[d:, :d] = v
    u[d:, d:] = np.eye(k * d) - v @ v.conj().T
    out = []
    for a in range(k):
        pi = np.zeros((n, n), dtype=complex)
        if a == 0:
            pi[:d, :d] = np.eye(d)
        pi[d + a * d:d + (a + 1) * d, d + a * d:d + (a + 1) * d] = np.eye(d)
        out.append(u.conj().T @ pi @ u)
    j = np.zeros((n, d), dtype=complex)
    j[:d, :d] = np.eye(d)
    return out, j


def _seesaw_point_embed(task, res, P, rvar, mvars, code_words, seed):
    shape, prob, pred = _game_of(task)
    ao, bo, ai, bi = shape
    rng = np.random.default_rng([11, seed])
    d = 2
    singular = bool(seed % 2)
    if singular:
        psi0 = rng.normal(size=d) + 1j * rng.normal(size=d)
        tau = np.outer(psi0, psi0.conj())
    else:
        g = rng.normal(size=(d, d)) + 1j * rng.normal(size=(d, d))
        tau = g @ g.conj().T
        tau = tau + 0.05 * np.trace(tau).real * np.eye(d)           # well conditioned: smallest eigenvalue >= 0.045
    tau = tau / np.trace(tau).real
    s = _psd_fun(tau, np.sqrt)
    sigma = [[s @ m @ s for m in _rand_povm(rng, d, ao)] for _ in range(ai)]       # PSD, sum_a = tau
    bob = [_rand_povm(rng, d, bo) for _ in range(bi)]
    # the construction of Toq/Proofs/NpaSeesaw.lean: G = pinv(sqrt tau), Pi = G S, M = G sigma G + [a = 0] (1 - Pi), Alice E = M^T, psi = vec S
    gpi = _psd_fun(tau, lambda t: 0.0 if t < 1e-12 else t ** -0.5)
    supp = gpi @ s
    alice = [[(gpi @ sigma[x][a] @ gpi + ((np.eye(d) - supp) if a == 0 else 0)).T for a in range(ao)] for x in range(ai)]
    pa, ja = zip(*[_naimark(alice[x]) for x in range(ai)])
    pb, jb = zip(*[_naimark(bob[y]) for y in range(bi)])
    # the state psi[(i, j)] = S[j, i] as the matrix Psi = S^T (rows: Alice); (P x 1) acts as P @ Psi, (1 x Q) as Psi @ Q^T — the tensor
    # products are never formed (8 x 8 instead of 64 x 64 matrices)
    psi2 = ja[0] @ s.T @ jb[0].T
    vecs = []
    for w in code_words:
        v = psi2
        for sy in reversed(w):
            if sy.player == "Alice":
                v = pa[sy.question][sy.answer] @ v
            elif sy.player == "Bob":
                v = v @ pb[sy.question][sy.answer].T
        vecs.append(v.reshape(-1))
    vmat = np.array(vecs).T
    rvar.save_value(vmat.conj().T @ vmat)
    value, worst = 0.0, 0.0
    for (x, y), var in mvars.items():
        kxy = np.array([[float(np.real(np.trace(bob[y][b].conj().T @ sigma[x][a]))) for b in range(bo)] for a in range(ao)])
        kdil = np.array([[float(np.real(np.vdot(psi2, pa[x][a] @ psi2 @ pb[y][b].T))) for b in range(bo)] for a in range(ao)])
        worst = max(worst, float(np.max(np.abs(kxy - kdil))))
        var.save_value(kxy)
        value += prob[x, y] * float(np.sum(pred[:, :, x, y] * kxy))
    desc = {**_embed_desc("npa_seesaw_point", task, [], []), "seed": int(seed), "dim": d, "tau_singular": singular}
    res.case(desc, ao >= 2 and bo >= 2 and (ao != bo or ai != bi), f"npa/seesaw-point/k={task['k']}/" + ("tau-singular" if singular else "tau-full-rank"))
    tol = 1e-7
    if worst > tol:
        raise InfraError(f"the dilation of a see-saw point does not reproduce tr(B^H sigma) (max deviation {worst}): contradicts seesaw_point_is_quantum on {desc}")
    bad = _bad_constraints(P, psd_tol=tol, eq_tol=tol)
    obj = float(P.objective.expr.value)
    if bad:
        res.violation(
            f"npa_constraints(k={task['k']!r}) for shape {shape}: the moments of a feasible point of the see-saw programs (assemblage in dimension {d}, "
            f"tau {'singular' if singular else 'full rank'}, seed {seed}; dilated to projectors) violate {len(bad)} emitted constraints beyond {tol}, e.g. {bad[0]} — "
            f"a value quantum_value_lower_bound can achieve is cut off by the relaxation",
            {"function": "npa_constraints (see-saw point)", "args": desc, "violated": bad[:6], "theorem": "npa_sound_seesaw, seesaw_point_is_quantum, naimark_dilation"})
    if abs(obj - value) > tol:
        res.violation(f"captured NPA objective {obj!r} differs from the see-saw value {value!r} of the point (seed {seed})",
                      {"function": "commuting_measurement_value_upper_bound (objective, see-saw point)", "args": desc, "impl": obj, "model": value,
                       "theorem": "seesaw_value_le_npa_bound"})


TAU0 = [np.array([[1.0, 0.0], [0.0, 0.0]], dtype=complex), np.array([[0.75, 0.25 - 0.25j], [0.25 + 0.25j, 0.25]], dtype=complex)]


def _ns_identify(P, shape, prob, pred):
    """{(a, b, x, y): K-block variable} of the captured nonsignaling_value problem.  The variables carry no names: the blocks are the
    variables of the objective; block v belongs to (a, b, x, y) when the objective at "v = E11, everything else 0" equals
    prob[x, y] * pred[a, b, x, y].  When these products do not identify the blocks (ties, zeros, or an objective that is wrong) the
    creation order of the variables (loops a, b, x, y) is used and reported."""
    ao, bo, ai, bi = shape
    objv = sorted(P.objective.variables(), key=lambda v: v.id)
    idx = [(a, b, x, y) for a in range(ao) for b in range(bo) for x in range(ai) for y in range(bi)]
    if len(objv) != len(idx) or any(tuple(v.shape) != (2, 2) for v in objv):
        raise CorrespondenceBroken(f"nonsignaling_value: expected {len(idx)} 2x2 blocks in the objective, found {[(v.shape) for v in objv][:5]}... ({len(objv)})")
    by_order = dict(zip(idx, objv))
    target = {}
    for t in idx:
        a, b, x, y = t
        target.setdefault(Fraction(float(prob[x, y])) * Fraction(float(pred[a, b, x, y])), []).append(t)
    if any(len(v) > 1 for v in target.values()) or Fraction(0) in target:
        return by_order, "creation-order"
    zero = np.zeros((2, 2), dtype=complex)
    for v in P.variables():
        v.save_value(zero)
    found = {}
    for v in objv:
        v.save_value(TAU0[0])
        c = Fraction(float(P.objective.expr.value))
        v.save_value(zero)
        hit = [t for q, ts in target.items() for t in ts if abs(q - c) <= Fraction(1, 10 ** 13)]
        if len(hit) != 1 or hit[0] in found:
            return by_order, "creation-order"
        found[hit[0]] = v
    return found, "objective-probing"


def _propagate(P):
    """give a value to every variable that an equality constraint `expression == variable` determines (sigma, rho, tau)"""
    import cvxpy

    changed = True
    while changed:
        changed = False
        for c in P.constraints:
            if type(c).__name__ != "Equality":
                continue
            lhs, rhs = c.args
            for u, w in ((lhs, rhs), (rhs, lhs)):
                if isinstance(w, cvxpy.Variable) and w.value is None and u.value is not None:
                    w.save_value(np.array(u.value, dtype=complex))
                    changed = True
    return [v for v in P.variables() if v.value is None]


def work_ns_embed(task, res):
    """(iii) capture the problem of nonsignaling_value and embed deterministic behaviours into it"""
    import warnings
    from toqito.nonlocal_games.nonlocal_game import NonlocalGame

    warnings.filterwarnings("ignore")
    shape, prob, pred = _game_of(task)
    ao, bo, ai, bi = shape
    drv = worker_driver()
    base_desc = _embed_desc("ns_embed", task, [], [])
    prng = case_rng("c07/ns_embed", task["shape"], task["kind"], task["prob"], task["pred"])
    pprob, ppred = present_nd(prng, prob, bool_ok=True), present_nd(prng, pred, bool_ok=True)     # 0/1 predicates also as int64 / bool
    base_desc["presentation"] = {"prob": describe(pprob), "pred": describe(ppred)}
    guard = Pure(pprob, ppred)
    try:
        game = NonlocalGame(pprob, ppred)
        probs = _capture(lambda: game.nonsignaling_value())
    except Exception as e:  # noqa: BLE001
        res.violation(f"nonsignaling_value raised {type(e).__name__}: {str(e)[:200]} while building its problem for shape {shape}",
                      {"function": "NonlocalGame.nonsignaling_value", "args": base_desc, "impl": repr(e)[:300], "theorem": "ns_contains_det"})
        return
    if guard.modified():
        res.violation("NonlocalGame.nonsignaling_value: caller's arguments were modified",
                      {"function": "NonlocalGame.nonsignaling_value", "args": base_desc, "modified": guard.modified(), "theorem": "methods_pure"})
    if len(probs) != 1:
        raise CorrespondenceBroken(f"expected one cvxpy problem from nonsignaling_value, captured {len(probs)}")
    P = probs[0]
    kvars, how = _ns_identify(P, shape, prob, pred)
    res.count(f"ns/embed/blocks-identified-by-{how}")
    gargs = {"ao": ao, "ai": ai, "bo": bo, "bi": bi, "k": 1, "prob": _qlist(prob), "pred": _qlist(pred)}
    kset = {id(v) for v in kvars.values()}
    first = True
    for n, (f, g) in enumerate(task["strategies"]):
        desc = _embed_desc("ns_embed", task, f, g)
        res.case(desc, _strategy_nontrivial(shape, f, g), "ns/embed")
        m = drv.ask("c07_npa_embed", {**gargs, "f": list(f), "g": list(g), "self_check": False})
        if "reject" in m:
            raise InfraError(f"driver rejected {desc}: {m}")
        exact = _frac(m["objective"])
        tau0 = TAU0[n % 2]
        for v in P.variables():
            if id(v) not in kset:
                v.value = None
        for (a, b, x, y), v in kvars.items():
            v.save_value(tau0 * (1.0 if (f[x] == a and g[y] == b) else 0.0))
        unset = _propagate(P)
        if unset:
            res.count("ns/embed/variables-not-determined-by-equalities", len(unset))
            for v in unset:
                v.save_value(np.zeros(v.shape, dtype=complex))
        bad = _bad_constraints(P)
        obj = float(P.objective.expr.value)
        if bad:
            res.violation(
                f"nonsignaling_value for shape (ao,bo,ai,bi)={shape}: the deterministic behaviour of f={list(f)}, g={list(g)} (blocks K = [a=f x][b=g y]·tau0, "
                f"marginal blocks from the equality constraints) violates {len(bad)} of the {len(P.constraints)} constraints, e.g. {bad[0]} — "
                f"the non-signalling program excludes a classical strategy",
                {"function": "NonlocalGame.nonsignaling_value", "args": desc, "violated": bad[:6], "identified_by": how, "theorem": "ns_contains_det"})
        if abs(Fraction(obj) - exact) > Fraction(1, 10 ** 12):
            res.violation(
                f"nonsignaling_value: captured objective at the behaviour of f={list(f)}, g={list(g)} is {obj!r}, the strategy wins with probability {exact} = {float(exact)!r}",
                {"function": "NonlocalGame.nonsignaling_value (objective)", "args": desc, "impl": obj, "model": str(exact), "identified_by": how,
                 "theorem": "ns_contains_det (objective = detValue)"})
        if first:
            any_k = next(iter(kvars.values()))
            any_k.save_value(np.array([[-1.0, 0], [0, 0]], dtype=complex))
            if not _bad_constraints(P):
                raise InfraError("negative control: a block K = -E11 passed every captured constraint of nonsignaling_value")
            res.count("ns/embed/negative-control-detected")
        first = False


def _all_strategies(shape):
    ao, bo, ai, bi = shape
    return [(list(f), list(g)) for f in itertools.product(range(ao), repeat=ai) for g in itertools.product(range(bo), repeat=bi)]


def _pick_strategies(rng, shape, cap):
    ao, bo, ai, bi = shape
    total = ao ** ai * bo ** bi
    if total <= cap:
        return _all_strategies(shape)
    out = []
    seen = set()
    while len(out) < cap:
        f = [int(t) for t in rng.integers(0, ao, size=ai)]
        g = [int(t) for t in rng.integers(0, bo, size=bi)]
        if (tuple(f), tuple(g)) not in seen:
            seen.add((tuple(f), tuple(g)))
            out.append((f, g))
    return out


def _generic_game(rng, shape):
    """all products prob[x,y] * pred[a,b,x,y] distinct and non-zero (dyadic): identifies the blocks of the objective"""
    ao, bo, ai, bi = shape
    n = ao * bo * ai * bi
    while True:
        w = rng.integers(1, 8, size=(ai, bi)).astype(float)
        m = 2.0 ** int(np.ceil(np.log2(w.sum())))
        prob = w / m
        prob[0, 0] += 1.0 - prob.sum()
        pred = (rng.permutation(256)[:n].reshape(shape) + 1) / 256.0
        prods = {Fraction(float(prob[x, y])) * Fraction(float(pred[a, b, x, y])) for a in range(ao) for b in range(bo) for x in range(ai) for y in range(bi)}
        if len(prods) == n and prob.min() > 0:
            return prob, pred


def _chunks(strategies, size=30):
    """tasks stay well below the per-task timeout of the pool (an embedding into a 2000-constraint problem takes ~0.5 s)"""
    return [strategies[i:i + size] for i in range(0, len(strategies), size)] or [[]]


def embed_tasks(ctx, quick):
    rng = ctx.rng
    cap = 36 if quick else 400
    npa, ns = [], []

    def add_npa(base, k, shape, n_quantum):
        seeds = [int(t) for t in rng.integers(0, 2 ** 31, size=n_quantum)]
        for n, chunk in enumerate(_chunks(_pick_strategies(rng, shape, cap))):
            npa.append({**base, "k": k, "strategies": chunk, "quantum_seeds": seeds if n == 0 else []})

    for shape in EMBED_SHAPES:
        ao, bo, ai, bi = shape
        games = []
        kind = str(rng.choice(["01", "frac", "rational"]))
        games.append((kind, rand_prob(rng, ai, bi, kind), rand_pred(rng, shape, "frac" if kind == "frac" else "01")))
        prob, pred = _generic_game(rng, shape)
        games.append(("generic", prob, pred))
        if not quick:
            games.append(("01", rand_prob(rng, ai, bi, "01"), mod_game(*shape)))
        for kind, prob, pred in games:
            base = {"shape": list(shape), "kind": kind, "prob": np.asarray(prob, dtype=float).reshape(-1).tolist(),
                    "pred": np.asarray(pred, dtype=float).reshape(-1).tolist()}
            for k in (1, "1+ab", 2):
                if quick and k == 2 and shape == (3, 3, 3, 3) and kind != "generic":
                    continue
                add_npa(base, k, shape, 2 if quick else 6)
            for chunk in _chunks(_pick_strategies(rng, shape, cap), 100):
                ns.append({**base, "strategies": chunk})
    if not quick:
        for k in ("1+aab", "1+ab+aab"):
            for shape in ((2, 3, 2, 2), (3, 2, 2, 3)):
                prob, pred = _generic_game(rng, shape)
                add_npa({"shape": list(shape), "kind": "generic", "prob": prob.reshape(-1).tolist(), "pred": pred.reshape(-1).tolist()}, k, shape, 4)
    return npa, ns


def npa_embedding(ctx, quick):
    words_and_reduce(ctx, quick)
    npa, ns = embed_tasks(ctx, quick)
    run_pool(ctx, work_npa_embed, npa)
    run_pool(ctx, work_ns_embed, ns)


# ------------------------------------------------------------------------------------------------


def run(ctx, model_ok=True):
    # known-finding matcher (only used if a record with this matcher id exists): the implementation returns exactly
    # what the mirror of the unchanged code returns, on sizes for which its enumeration is incomplete
    ctx.matchers["c07-classical-value-iteration-bound"] = lambda info: (
        info.get("function") == "NonlocalGame.classical_value" and info.get("impl_equals_current_mirror") is True
        and info.get("enum_complete") is False)
    quick = ctx.tier == "quick"
    tasks = sdp_tasks(ctx, quick)
    classical_corpus(ctx)
    classical_random(ctx, 500 if quick else 4000)
    constructors(ctx, quick)
    # one game through the multiprocessing-pool branch of classical_value (> 1000 strategies of the enumerated player) whose
    # optimum sits at the LAST strategy index (every answer = the highest answer): a dropped tail of the enumeration shows
    prg = ctx.rng
    shp = (3, 2, 7, 10)
    base = prg.integers(0, 4, size=shp) / 8.0
    base[:, 1, :, :] += 0.5
    check_classical(ctx, rand_prob(prg, shp[2], shp[3], "01"), base, 1, "frac", "pool-tail")
    # a second, different game of the same shape through the pool branch in the same process: state kept between calls (a worker pool
    # or a cache that still holds the previous game's tensor) shows
    check_classical(ctx, rand_prob(prg, shp[2], shp[3], "01"), prg.integers(0, 8, size=shp) / 8.0, 1, "frac", "pool-second")
    # games with more than 1000 strategies on BOTH sides whose number is not a multiple of any block size, optimum forced to one place
    pool_forced(ctx, quick)
    if not quick:
        # multiprocessing-pool branch of classical_value (> 1000 iterations), after a possible repair as well
        rng = ctx.rng
        for shape in [(4, 4, 5, 5), (2, 4, 3, 5), (4, 3, 6, 6)]:
            prob = rand_prob(rng, shape[2], shape[3], "01")
            check_classical(ctx, prob, rand_pred(rng, shape, "01"), 1, "01", "pool")
        # exhaustive small space: all 0/1 predicates on the two minimal shapes with a fixed non-uniform distribution
        for shape, prob in (((2, 3, 2, 1), np.array([[.75], [.25]])), ((3, 2, 1, 2), np.array([[.25, .75]]))):
            for bits in itertools.product((0., 1.), repeat=12):
                check_classical(ctx, prob, np.array(bits).reshape(shape), 1, "01", "exhaustive")
        ctx.extra["exhaustive_small_space"] = "all 4096 0/1 predicates on shapes (2,3,2,1) and (3,2,1,2)"
    run_sdp(ctx, tasks)
    npa_embedding(ctx, quick)
    # the two programs of quantum_value_lower_bound (captured, exact points embedded, per-constraint controls) and its outer loop
    c07_seesaw.seesaw_stream(ctx, quick)


def replay(ctx, rec):
    if c07_seesaw.replay_seesaw(ctx, rec):
        return
    a = rec.get("args", {})
    fn = a.get("fn")
    if fn == "classical_value":
        shape = tuple(a["shape"])
        prob = np.array([float(_frac(x)) for x in a["prob"]]).reshape(shape[2], shape[3])
        pred = np.array([float(_frac(x)) for x in a["pred"]]).reshape(shape)
        check_classical(ctx, prob, pred, a["reps"], a["kind"], "replay")
    elif fn == "product_game":
        check_product(ctx, tuple(a["shape"]), a["reps"])
    elif fn == "update_odometer":
        check_odometer(ctx, a["old"], a["lim"])
    elif fn == "from_bcs_game":
        check_bcs(ctx, a["n"], a["constraints"], a.get("dtype", "int"), a.get("reps", 1))
    elif fn == "npa_words":
        check_words(ctx, a["ao"], a["ai"], a["bo"], a["bi"], a["k"])
    elif fn == "npa_reduce":
        check_reduce_batch(ctx, [a["word"]], "replay")
    elif fn in ("npa_embed", "ns_embed", "npa_quantum", "npa_seesaw_point"):
        task = {"shape": a["shape"], "kind": a["kind"], "k": a.get("k"), "prob": [float(_frac(x)) for x in a["prob"]],
                "pred": [float(_frac(x)) for x in a["pred"]], "strategies": [(a["f"], a["g"])] if a.get("f") else [],
                "quantum_seeds": [a["seed"]] if fn in ("npa_quantum", "npa_seesaw_point") else []}
        if fn in ("npa_quantum", "npa_seesaw_point"):
            task["strategies"] = [([0] * a["shape"][2], [0] * a["shape"][3])]
        res = Result()
        (work_ns_embed if fn == "ns_embed" else work_npa_embed)(task, res)
        fold(ctx, res)
    elif fn in ("chain", "history"):
        shape = tuple(a["shape"])
        prob = np.array([float(_frac(x)) for x in a["prob"]]).reshape(shape[2], shape[3])
        pred = np.array([float(_frac(x)) for x in a["pred"]]).reshape(shape)
        task = _mk_task(prob, pred, a["reps"], a["ops"], a["seed"], fn, a.get("iters", 2))
        run_sdp(ctx, [task])
