"""C04 hardening (wave 5): the value of a channel operation must not depend on NumPy's global floating-point error state.

choi_to_kraus (positive semidefinite -- rank-deficient and full rank --, Hermitian indefinite, general Choi matrices), kraus_to_choi,
apply_channel (Kraus lists and Choi matrices), partial_channel and natural_representation are evaluated in the default state and under
`harness.exact.strict_fp_call` (invalid / divide / overflow raise; 'invalid value' / 'divide by zero' RuntimeWarnings are errors) on the
same exact integer inputs.  Demanded: the same outcome.  A rank-deficient PSD Choi matrix has eigenvalues that LAPACK returns as
+-1e-16 residues: the square root of such a residue, taken and discarded, is invisible in the default state and raises in the strict one.
Random choices: a generator of its own per case (seed drawn by the caller from a spawned stream; the older streams are unchanged).
"""
from __future__ import annotations

import numpy as np

from toqito.channel_ops import apply_channel, choi_to_kraus, kraus_to_choi, natural_representation, partial_channel

from ..exact import Pure, call, strict_fp_call


def _same(a, b):
    if isinstance(a, (list, tuple)) or isinstance(b, (list, tuple)):
        if not (isinstance(a, (list, tuple)) and isinstance(b, (list, tuple)) and len(a) == len(b)):
            return False
        return all(_same(x, y) for x, y in zip(a, b))
    a, b = np.asarray(a), np.asarray(b)
    if a.shape != b.shape:
        return False
    sc = 1.0 + (float(np.abs(a).max()) if a.size and np.all(np.isfinite(a)) else 0.0)
    return bool(np.allclose(a, b, rtol=0, atol=1e-12 * sc, equal_nan=True))      # LAPACK is called twice on the same data


def strict_vs_default(ctx, C, fn, info, *a, **k):
    name = fn.__name__
    guard = Pure(*a, **k)
    d = call(fn, *a, **k)
    s = strict_fp_call(fn, *a, **k)
    ctx.case(dict(info["args"], strict_fp=name), True, f"strict-fp/{name}/{info['args'].get('kind', '')}")
    info = dict(info, function=name, theorem="the function's value is a function of its arguments (the mirror model has no global state)")
    C.impure(ctx, guard, name, info)
    if d[0] == "ok" and s[0] == "raise":
        ctx.violation(f"{name}: value depends on NumPy's floating-point error state (default state: a value; invalid/divide set to 'raise': {s[1]})",
                      dict(info, impl=s[1], model=str(d[1])[:200]))
        return False
    if d[0] == "ok" and s[0] == "ok" and not _same(d[1], s[1]):
        ctx.violation(f"{name}: value under the strict floating-point error state differs from the default-state value",
                      dict(info, impl=str(s[1])[:200], model=str(d[1])[:200]))
        return False
    if d[0] != "ok" and s[0] == "ok":
        ctx.violation(f"{name}: fails in the default state ({d[1]}) but not under the strict floating-point error state", dict(info, impl=str(s[1])[:200]))
        return False
    return True


def check_strict_fp(ctx, C, kind, cplx, seed):
    """one case; kind: psd-deficient / psd-full / herm / herm-deficient / gen / lowrank / kraus"""
    rng = np.random.default_rng(int(seed))
    di, do = int(rng.integers(1, 4)), int(rng.integers(1, 4))
    if di * do == 1:
        di = 2
    n = di * do
    args = {"fn": "strict_fp", "kind": kind, "complex": cplx, "d_in": di, "d_out": do}
    info = {"case_seed": int(seed), "args": args}
    g = lambda shape, bits=3: C.gint(rng, shape, cplx, bits)      # noqa: E731
    ok = True
    if kind == "kraus":
        r = int(rng.integers(1, 4))
        As = [g((do, di)) for _ in range(r)]
        if r >= 2 and rng.integers(2):
            As[-1] = np.zeros_like(As[-1])                          # a zero operator in the family
        X = C.gint(rng, (di, di), True, 3)
        info["phi"] = C.jkraus(As)
        info["X"] = C.jmat(X)
        ok &= strict_vs_default(ctx, C, kraus_to_choi, info, list(As))
        ok &= strict_vs_default(ctx, C, apply_channel, info, X, list(As))
        ok &= strict_vs_default(ctx, C, natural_representation, info, list(As))
        rho = C.gint(rng, (2 * di, 2 * di), True, 3)
        info2 = dict(info, rho=C.jmat(rho))
        ok &= strict_vs_default(ctx, C, partial_channel, info2, rho, list(As), 2, [2, di])
        ok &= strict_vs_default(ctx, C, partial_channel, info2, rho, [[a, b] for a, b in zip(As, As[::-1])], 2, [2, di])
        return ok
    if kind == "psd-deficient":
        rk = int(rng.integers(1, n))
        G = g((n, rk))
        J = G @ G.conj().T
    elif kind == "psd-full":
        G = g((n, n))
        J = G @ G.conj().T + np.eye(n)
    elif kind == "herm":
        G = g((n, n))
        J = G + G.conj().T
    elif kind == "herm-deficient":
        G1, G2 = g((n, 1)), g((n, 1))
        J = G1 @ G1.conj().T - G2 @ G2.conj().T
    elif kind == "lowrank":
        rk = int(rng.integers(1, n))
        J = g((n, rk)) @ g((rk, n))
    else:
        J = g((n, n))
    if not np.any(J):
        return True
    if not cplx:
        J = J.real.astype(np.float64)
    info["J"] = C.jmat(J)
    dim = [di, do]
    ok &= strict_vs_default(ctx, C, choi_to_kraus, info, J, dim=dim)
    if min(J.shape) >= 2:
        X = C.gint(rng, (di, di), True, 3)
        ok &= strict_vs_default(ctx, C, apply_channel, dict(info, X=C.jmat(X)), X, J)
    return ok


KINDS = ("psd-deficient", "psd-deficient", "psd-full", "herm", "herm-deficient", "gen", "lowrank", "kraus")


def run_strict_fp(ctx, C, srng):
    # corpus: the Choi matrix of the identity channel on a qubit (rank 1: three zero eigenvalues) and of the completely dephasing channel
    for lab, J in (("identity channel", np.array([[1, 0, 0, 1], [0, 0, 0, 0], [0, 0, 0, 0], [1, 0, 0, 1]], dtype=float)),
                   ("dephasing channel", np.diag([1.0, 0.0, 0.0, 1.0]))):
        info = {"case_seed": None, "args": {"fn": "strict_fp", "kind": "psd-deficient", "label": lab}, "J": C.jmat(J)}
        strict_vs_default(ctx, C, choi_to_kraus, info, J)
    for it in range(40 if ctx.tier == "quick" else 400):
        check_strict_fp(ctx, C, KINDS[it % len(KINDS)], bool(srng.integers(4)), int(srng.integers(1 << 62)))
