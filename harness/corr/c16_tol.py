"""C16, tolerance stream: toqito's predicates against the tolerance-level Lean mirrors (Toq/Model/MatrixPredsTol.lean).

The three-valued stream of c16.py only uses inputs that satisfy a definition exactly or violate it by >= 1e-3*(1+scale).  Here the
inputs sit NEAR the tolerance: a matrix built to satisfy the predicate exactly, with one entry moved (or the whole matrix scaled /
shifted) by 1/16 ... 1024 times the tolerance `atol + rtol*|entry|`, with the default tolerances and with explicit `rtol` / `atol`
arguments.  The float matrix handed to toqito IS the exact input (every float is a dyadic rational, sent to Lean exactly); the Lean
mirror evaluates the same comparisons `|a-b| <= atol + rtol*|b|` exactly (C16.allclose_is_numpy) at the tolerances scaled by
1-1e-3, 1, 1+1e-3 and the case is used only when the three verdicts agree, so that rounding inside toqito (relative 1e-16) cannot
matter.  Equality of the boolean verdicts is demanded."""
from __future__ import annotations

from fractions import Fraction

import numpy as np

from toqito.matrix_props import (is_anti_hermitian, is_circulant, is_commuting, is_density, is_diagonal, is_hermitian, is_idempotent,
                                 is_identity, is_nonnegative, is_normal, is_orthonormal, is_positive_semidefinite, is_projection,
                                 is_pseudo_hermitian, is_pseudo_unitary, is_stochastic, is_symmetric, is_totally_positive, is_unitary)
from toqito.state_props import is_ensemble, is_mutually_orthogonal

from ..common import InfraError
from ..exact import Pure, case_rng, describe, present_nd

EPS = Fraction(1, 1000)
RT_DEF, AT_DEF = 1e-05, 1e-08
MULTS = [Fraction(0), Fraction(1, 16), Fraction(1, 2), Fraction(2), Fraction(16), Fraction(1024)]
# explicit (rtol, atol) pairs; `exact_ok`: atol = 0 is only used where the compared sides are entries of the input itself
TOLS_DIRECT = [None, (1e-3, 1e-6), (0.0, 1e-7), (1e-4, 0.0)]
TOLS_PRODUCT = [None, (1e-3, 1e-6), (0.0, 1e-6)]


def _rj(x):
    x = Fraction(x)
    return [x.numerator, x.denominator]


TOL_PREDS = {
    # name: (toqito call (M, args, tolkw) -> bool, base generator name in c16.PREDS, accepts rtol/atol, tolerance list, perturbation kinds)
    "hermitian": (lambda M, a, t: is_hermitian(M, **t), "hermitian", True, TOLS_DIRECT, ("entry",)),
    "anti_hermitian": (lambda M, a, t: is_anti_hermitian(M, **t), "anti_hermitian", True, TOLS_DIRECT, ("entry",)),
    "symmetric": (lambda M, a, t: is_symmetric(M, **t), "symmetric", True, TOLS_DIRECT, ("entry",)),
    "identity": (lambda M, a, t: is_identity(M, **t), "identity", True, TOLS_DIRECT, ("entry", "scale")),
    "normal": (lambda M, a, t: is_normal(M, **t), "normal", True, TOLS_PRODUCT, ("entry",)),
    "unitary": (lambda M, a, t: is_unitary(M, **t), "unitary", True, TOLS_PRODUCT, ("entry", "scale")),
    "pseudo_unitary": (lambda M, a, t: is_pseudo_unitary(M, p=a["p"], q=a["q"], **t), "pseudo_unitary", True, TOLS_PRODUCT, ("entry",)),
    "pseudo_hermitian": (lambda M, a, t: is_pseudo_hermitian(M, a["B_np"], **t), "pseudo_hermitian", True, TOLS_PRODUCT, ("entry",)),
    "idempotent": (lambda M, a, t: is_idempotent(M, **t), "idempotent", True, TOLS_PRODUCT, ("entry",)),
    "projection": (lambda M, a, t: is_projection(M, **t), "idempotent", True, TOLS_PRODUCT, ("entry",)),
    "positive_semidefinite": (lambda M, a, t: is_positive_semidefinite(M, **t), "positive_semidefinite", True, TOLS_PRODUCT, ("entry", "shift")),
    "circulant": (lambda M, a, t: is_circulant(M), "circulant", False, [None], ("entry",)),
    "diagonal": (lambda M, a, t: is_diagonal(M), "diagonal", False, [None], ("entry",)),       # no tolerance: the reshape trick, exact zeros
    "commuting": (lambda M, a, t: is_commuting(M, a["B_np"]), "commuting", False, [None], ("entry",)),
    "density": (lambda M, a, t: is_density(M), "density", False, [None], ("entry", "scale", "shift")),
    "stochastic": (lambda M, a, t: is_stochastic(M, a["mat_type"]), "stochastic", False, [None], ("entry", "scale")),
    "nonnegative": (lambda M, a, t: is_nonnegative(M, "doubly"), "doubly_nonnegative", False, [None], ("shift",)),
}


def _json_args(C, name, args):
    out = {}
    for k, v in args.items():
        if isinstance(v, C.QM):
            out[k] = C.QM.from_np(v.to_np(force_complex=True)).to_json()       # the float image of the second matrix, exactly
        elif k == "mat_type":
            out[k] = {"left": 0, "right": 1, "doubly": 2}[v]
        elif k in ("p", "q"):
            out[k] = int(v)
    if name == "nonnegative":
        out["mat_type"] = 1
    return out


def _certify_psd(ctx, C, A, rt, at, v):
    """the definiteness part of a `positive_semidefinite` verdict of the mirror is confirmed by a certificate accepted by a proved checker"""
    herm = ctx.lean().ask("c16_tol_pred", {"name": "hermitian", "A": A.to_json(), "rtol": _rj(rt), "atol": _rj(at), "eps": _rj(0)})["v"]
    if not herm:
        if v:
            raise InfraError("psdT true on a matrix hermitianT rejects")
        return
    n = A.shape[0]
    # eigvalsh reads the lower triangle and the real part of the diagonal
    Hl = A.copy()
    for i in range(n):
        Hl.im[i, i] = Fraction(0)
        for j in range(i + 1, n):
            Hl.re[i, j], Hl.im[i, j] = A.re[j, i], -A.im[j, i]
    mu = abs(Fraction(at))
    if v:
        f = C.ldl_psd(Hl + C.QM.eye(n).scale(mu))
        ok = f is not None and ctx.lean().ask("c16_psd_cert", {"A": (Hl + C.QM.eye(n).scale(mu)).to_json(), "L": f[0].to_json(),
                                                                "D": [_rj(x) for x in f[1]]}).get("ok")
        ctx.count("cert/tol/psd")
    else:
        w, vec = np.linalg.eigh(Hl.to_np(force_complex=True))
        x = vec[:, 0]
        xq = C.QM(np.array([[Fraction(int(round(z.real * 2 ** 30)), 2 ** 30)] for z in x], dtype=object),
                  np.array([[Fraction(int(round(z.imag * 2 ** 30)), 2 ** 30)] for z in x], dtype=object))
        ok = ctx.lean().ask("c16_npsd_cert", {"A": Hl.to_json(), "x": xq.to_json(), "mu": _rj(mu)}).get("ok")
        ctx.count("cert/tol/not_psd")
    if not ok:
        raise InfraError(f"tolerance mirror: definiteness verdict {v} at atol={float(at)} is not confirmed by the verified certificate checker on {A.key()}")


def tol_case(ctx, C, name, M, args, tol, label, kind):
    """one question to both sides; M: float64 / complex128 matrix (the exact input)"""
    impl, _, _, _, _ = TOL_PREDS[name]
    A = C.QM.from_np(M)
    rt, at = (RT_DEF, AT_DEF) if tol is None else tol
    rt, at = Fraction(rt), Fraction(at)
    a2 = dict(args)
    if "B" in args:
        a2["B_np"] = args["B"].to_np(force_complex=True)
    req = {"name": name, "A": A.to_json(), "rtol": _rj(rt), "atol": _rj(at), "eps": _rj(EPS), **_json_args(C, name, args)}
    lr = ctx.lean().ask("c16_tol_pred", req)
    if lr["lo"] != lr["hi"]:
        ctx.count(f"tol/borderline/{name}")
        return None
    v = lr["v"]
    desc = {"tolpred": name, "A": A.key(), "args": C._desc_args(args), "rtol": None if tol is None else float(tol[0]),
            "atol": None if tol is None else float(tol[1]), "label": label, "kind": kind}
    if isinstance(v, dict):
        lv = "reject:" + v["reject"]
    else:
        lv = "yes" if v else "no"
        if name == "positive_semidefinite":
            _certify_psd(ctx, C, A, rt, at, v)
    prng = case_rng("c16/tol", name, desc["A"], desc["args"], desc["rtol"], desc["atol"])
    Mp = present_nd(prng, M, allow_dtype=not np.iscomplexobj(M) or not np.any(M.imag))
    if "B_np" in a2:
        a2["B_np"] = present_nd(prng, a2["B_np"])
    tkw = {} if tol is None else {"rtol": float(tol[0]), "atol": float(tol[1])}
    guard = Pure(Mp, a2.get("B_np"))
    try:
        iv = "yes" if bool(C.quiet(impl, Mp, a2, tkw)) else "no"
    except Exception as e:  # noqa: BLE001
        iv = f"raise:{type(e).__name__}:{str(e)[:80]}"
    desc["presentation"] = describe([Mp, a2.get("B_np")])
    ctx.case(desc, not A.is_trivial(), f"tol/{name}/{lv}/{'default' if tol is None else 'explicit'}")
    C.impure(ctx, guard, f"is_{name}", desc)
    ok = iv.startswith("raise:ValueError") or iv.startswith("raise:TypeError") if lv.startswith("reject") else iv == lv
    if not ok:
        ctx.violation(
            f"is_{name}: toqito says {iv}, the tolerance-level mirror (|a-b| <= atol + rtol*|b|, evaluated exactly) says {lv} on '{label}' [{kind}], "
            f"rtol={desc['rtol']}, atol={desc['atol']}",
            {"function": f"is_{name}", "args": desc, "impl": iv, "model": lv, "theorem": "allclose_is_numpy / *_tolerance_agrees (Toq.C16)"})
    return lv


def _perturb(rng, M0, kind, mult, rt, at):
    M = M0.copy()
    n = M.shape[0]
    if kind == "entry":
        i, j = int(rng.integers(M.shape[0])), int(rng.integers(M.shape[1]))
        tau = at + rt * abs(M0[i, j])
        d = float(mult) * tau * (1 if rng.integers(2) else -1)
        if np.iscomplexobj(M) and rng.integers(2):
            M[i, j] += 1j * d
        else:
            M[i, j] += d
        return M, f"entry({i},{j})*{mult}"
    if kind == "scale":
        return M * (1.0 + float(mult) * (rt + at)), f"scale*{mult}"
    if kind == "shift":
        return M - float(mult) * (at if at else 1e-8) * np.eye(n), f"shift*{mult}"
    raise ValueError(kind)


def run_matrix_tolerance(ctx, C):
    rng = ctx.rng
    quick = ctx.tier == "quick"
    for name, (impl, gname, has_tol, tols, kinds) in TOL_PREDS.items():
        spec = C.PREDS[gname]
        for n in range(1, 7):
            for cplx in (False, True):
                if cplx and gname in C.REAL_ONLY_FIELDS:
                    continue
                if quick and rng.integers(2):
                    continue                      # quick tier: about half of the (size, field) cells per run
                gens = spec["gen"](rng, n, cplx)
                if name == "nonnegative" and n >= 2:
                    B = C.QM(rng.integers(0, 4, size=(n, int(rng.integers(1, n)))))
                    gens = [("BB^T singular, B>=0", B @ B.T, {})]
                if name in ("positive_semidefinite", "density", "nonnegative"):
                    # singular matrices: the smallest eigenvalue is exactly 0, so a shift puts it at -mult*atol
                    sing = [g for g in gens if "singular" in g[0] or "rank1" in g[0]]
                    gens = sing + gens[:1] if sing else gens
                for label, A, args in gens[: (2 if quick else len(gens))]:
                    if A.shape[0] != A.shape[1]:
                        continue
                    M0 = A.to_np(force_complex=cplx)
                    tol = tols[int(rng.integers(len(tols)))]
                    rt, at = (RT_DEF, AT_DEF) if tol is None else tol
                    for kind in kinds:
                        for mult in MULTS:
                            if kind != "entry" and mult == 0:
                                continue
                            M, plabel = _perturb(rng, M0, kind, mult, rt, at)
                            tol_case(ctx, C, name, M, args, tol, label, plabel)


def set_case(ctx, C, name, V, tol_label, kind):
    """mutually_orthogonal / orthonormal on the columns of the float matrix V (d x n)"""
    A = C.QM.from_np(V)
    req = {"name": name, "A": A.to_json(), "rtol": _rj(Fraction(RT_DEF)), "atol": _rj(Fraction(AT_DEF)), "eps": _rj(EPS)}
    lr = ctx.lean().ask("c16_tol_pred", req)
    if lr["lo"] != lr["hi"]:
        ctx.count(f"tol/borderline/{name}")
        return
    v = lr["v"]
    lv = ("reject:" + v["reject"]) if isinstance(v, dict) else ("yes" if v else "no")
    desc = {"tolset": name, "V": A.key(), "label": tol_label, "kind": kind}
    prng = case_rng("c16/tolset", name, desc["V"])
    if name == "orthonormal":
        arg = present_nd(prng, np.ascontiguousarray(V.T), allow_dtype=False)
        fn = is_orthonormal
    else:
        arg = [present_nd(prng, V[:, k].copy() if prng.integers(2) else V[:, k].copy().reshape(-1, 1), allow_dtype=False) for k in range(V.shape[1])]
        fn = is_mutually_orthogonal
    guard = Pure(arg)
    try:
        iv = "yes" if bool(C.quiet(fn, arg)) else "no"
    except Exception as e:  # noqa: BLE001
        iv = f"raise:{type(e).__name__}:{str(e)[:80]}"
    desc["presentation"] = describe(arg)
    ctx.case(desc, V.shape[0] >= 2 and V.shape[1] >= 2, f"tol/{name}/{lv}")
    C.impure(ctx, guard, f"is_{name}", desc)
    ok = iv.startswith("raise:ValueError") if lv.startswith("reject") else iv == lv
    if not ok:
        ctx.violation(f"is_{name}: toqito says {iv}, the tolerance-level mirror says {lv} on '{tol_label}' [{kind}]",
                      {"function": f"is_{name}", "args": desc, "impl": iv, "model": lv, "theorem": "allclose_is_numpy / *_tolerance_agrees (Toq.C16)"})


def ensemble_case(ctx, C, mats, label, kind):
    As = [C.QM.from_np(m) for m in mats]
    lr = ctx.lean().ask("c16_tol_ensemble", {"As": [a.to_json() for a in As], "rtol": _rj(Fraction(RT_DEF)), "atol": _rj(Fraction(AT_DEF)), "eps": _rj(EPS)})
    if lr["lo"] != lr["hi"]:
        ctx.count("tol/borderline/ensemble")
        return
    lv = "yes" if lr["v"] else "no"
    desc = {"tolensemble": True, "As": [a.key() for a in As], "label": label, "kind": kind}
    prng = case_rng("c16/tolens", desc["As"])
    arrs = [present_nd(prng, m, allow_dtype=False) for m in mats]
    guard = Pure(arrs)
    try:
        iv = "yes" if bool(C.quiet(is_ensemble, arrs)) else "no"
    except Exception as e:  # noqa: BLE001
        iv = f"raise:{type(e).__name__}:{str(e)[:80]}"
    ctx.case(desc, len(mats) >= 2 and mats[0].shape[0] >= 2, f"tol/ensemble/{lv}")
    C.impure(ctx, guard, "is_ensemble", desc)
    if iv != lv:
        ctx.violation(f"is_ensemble: toqito says {iv}, the tolerance-level mirror says {lv} on '{label}' [{kind}]",
                      {"function": "is_ensemble", "args": desc, "impl": iv, "model": lv, "theorem": "allclose_is_numpy (Toq.C16)"})


def run_set_tolerance(ctx, C):
    rng = ctx.rng
    for d in range(1, 7):
        for cplx in (False, True):
            U = C.rand_unitary(rng, d, cplx)
            k = int(rng.integers(1, d + 1))
            cols = [int(x) for x in rng.choice(d, size=k, replace=False)]
            V0 = C.QM(U.re[:, cols], U.im[:, cols]).to_np(force_complex=cplx)
            for name in ("mutually_orthogonal", "orthonormal"):
                W0 = V0 if name == "orthonormal" else V0 * np.array([float(x) for x in rng.integers(1, 4, size=k)])
                for mult in MULTS:
                    M, pl = _perturb(rng, W0, "entry", mult, RT_DEF, AT_DEF)
                    set_case(ctx, C, name, M, "columns of a rational unitary", pl)
                if name == "orthonormal":
                    for mult in MULTS[1:]:
                        set_case(ctx, C, name, W0 * (1.0 + float(mult) * (RT_DEF + AT_DEF) / 2), "columns of a rational unitary", f"scale*{mult}")
            # ensembles
            m = int(rng.integers(1, 4))
            ops = [C.rand_psd(rng, d, cplx, int(rng.integers(0, d + 1))) for _ in range(m)]
            tot = sum(o.trace()[0] for o in ops)
            if tot != 0:
                ens = [o.scale(1 / tot).to_np(force_complex=cplx) for o in ops]
                for mult in MULTS:
                    sc = 1.0 + float(mult) * (RT_DEF + AT_DEF) * (1 if rng.integers(2) else -1)
                    ensemble_case(ctx, C, [e * sc for e in ens], "PSD operators, traces sum to 1", f"scale*{mult}")
                j = int(rng.integers(m))
                for mult in MULTS[1:]:
                    e2 = [e.copy() for e in ens]
                    e2[j] = e2[j] - float(mult) * AT_DEF * np.eye(d)
                    ensemble_case(ctx, C, e2, "PSD operators, traces sum to 1", f"shift[{j}]*{mult}")


def run_guards(ctx, C):
    """argument guards of the predicates (the exceptions are part of the mirrors)"""
    rng = ctx.rng
    M = C.gint(rng, 3, 3, 3, False).to_np()
    for p, q in [(-1, 4), (2, -1), (-1, -1)]:
        tol_case(ctx, C, "pseudo_unitary", M.astype(float), {"p": p, "q": q}, None, "negative signature", f"p={p},q={q}")
    V = C.rand_unitary(rng, 3, True).to_np(force_complex=True)[:, :1]
    set_case(ctx, C, "mutually_orthogonal", V, "single vector", "guard")
    set_case(ctx, C, "orthonormal", V, "single vector", "guard")
    for fn, label in ((lambda: is_nonnegative(np.eye(2), "positive"), "is_nonnegative mat_type"), (lambda: is_stochastic(np.eye(2), "both"), "is_stochastic mat_type")):
        name = "nonnegative" if "nonneg" in label else "stochastic"
        lv = ctx.lean().ask("c16_tol_pred", {"name": name, "A": C.QM.eye(2).to_json(), "rtol": _rj(Fraction(RT_DEF)), "atol": _rj(Fraction(AT_DEF)),
                                             "eps": _rj(0), "mat_type": 7})["v"]
        try:
            fn()
            iv = "no exception"
        except Exception as e:  # noqa: BLE001
            iv = type(e).__name__
        ctx.case({"guard": label}, True, "tol/guard/mat_type")
        if not (isinstance(lv, dict) and lv.get("reject") == "TypeError" and iv == "TypeError"):
            ctx.violation(f"{label}: an invalid type string must raise TypeError", {"function": label, "impl": iv, "model": lv})


def tp_case(ctx, C, M, tol, sub_sizes, label, kind):
    """is_totally_positive(M, tol, sub_sizes) on a real float matrix against totallyPositiveT (proved determinant)"""
    A = C.QM.from_np(M)
    tl = Fraction(1e-6 if tol is None else tol)
    req = {"name": "totally_positive", "A": A.to_json(), "rtol": _rj(0), "atol": _rj(tl), "eps": _rj(EPS), "sub_sizes": sub_sizes}
    lr = ctx.lean().ask("c16_tol_pred", req)
    if not (lr["lo"] == lr["hi"] == lr["v"]):
        ctx.count("tol/borderline/totally_positive")
        return
    v = lr["v"]
    lv = ("reject:" + v["reject"]) if isinstance(v, dict) else ("yes" if v else "no")
    desc = {"toltp": True, "A": A.key(), "tol": None if tol is None else float(tol), "sub_sizes": sub_sizes, "label": label, "kind": kind}
    prng = case_rng("c16/toltp", desc["A"], desc["tol"], sub_sizes)
    Mp = present_nd(prng, M, allow_dtype=True)
    kw = {}
    if tol is not None:
        kw["tol"] = float(tol)
    if sub_sizes is not None:
        kw["sub_sizes"] = list(sub_sizes)
    guard = Pure(Mp)
    try:
        iv = "yes" if bool(C.quiet(is_totally_positive, Mp, **kw)) else "no"
    except Exception as e:  # noqa: BLE001
        iv = f"raise:{type(e).__name__}:{str(e)[:80]}"
    desc["presentation"] = describe(Mp)
    ctx.case(desc, min(M.shape) >= 2 if M.ndim == 2 and M.size else False, f"tol/totally_positive/{lv}/{'default' if tol is None else 'explicit'}")
    C.impure(ctx, guard, "is_totally_positive", desc)
    ok = iv.startswith("raise:ValueError") if lv.startswith("reject") else iv == lv
    if not ok:
        ctx.violation(f"is_totally_positive: toqito says {iv}, the tolerance-level mirror (entries >= -tol, larger minors >= tol; proved determinant) says {lv} "
                      f"on '{label}' [{kind}], tol={desc['tol']}, sub_sizes={sub_sizes}",
                      {"function": "is_totally_positive", "args": desc, "impl": iv, "model": lv, "theorem": "det_correct / totallyPositive_yes_iff (Toq.C16)"})


def run_tp_tolerance(ctx, C):
    rng = ctx.rng
    tp_case(ctx, C, np.zeros((0, 3)), None, None, "empty matrix", "guard")
    for n in range(1, 7):
        for label, A, args in C.g_totally_positive(rng, n, False):
            M0 = A.to_np()
            ss = args.get("sub_sizes")
            tol = None if rng.integers(2) else 1e-4
            tl = 1e-6 if tol is None else tol
            tp_case(ctx, C, M0, tol, ss, label, "exact")
            r, c = M0.shape
            for mult in MULTS[1:]:
                # (a) one entry at -mult*tol: accepted by the 1x1 rule iff >= -tol, rejected by larger minors
                M = M0.copy()
                i, j = int(rng.integers(r)), int(rng.integers(c))
                M[i, j] = -float(mult) * tl
                tp_case(ctx, C, M, tol, [1], label, f"entry({i},{j})=-{mult}*tol, sub_sizes=[1]")
                tp_case(ctx, C, M, tol, ss, label, f"entry({i},{j})=-{mult}*tol")
                # (b) a nearly dependent pair of rows: minors through both rows are delta times the original minors
                if r >= 2 and c >= 2:
                    i = int(rng.integers(r - 1))
                    M = M0.copy()
                    dl = float(mult) * tl / max(1.0, float(np.abs(M0).max()) ** 2)
                    M[i + 1, :] = M0[i, :] + dl * M0[i + 1, :]
                    tp_case(ctx, C, M, tol, ss, label, f"row{i + 1} = row{i} + {mult}*tol'*row{i + 1}")
                    tp_case(ctx, C, M, tol, [2], label, f"row{i + 1} = row{i} + {mult}*tol'*row{i + 1}, sub_sizes=[2]")


def run_tolerance(ctx, C):
    run_matrix_tolerance(ctx, C)
    run_tp_tolerance(ctx, C)
    run_set_tolerance(ctx, C)
    run_guards(ctx, C)


def replay_tol(ctx, C, a):
    if "tolpred" in a:
        A = C.QM.from_json(a["A"])
        M = A.to_np(force_complex=not A.is_real())
        tol = None if a.get("rtol") is None else (a["rtol"], a["atol"])
        tol_case(ctx, C, a["tolpred"], M, C._args_from_desc(a.get("args", {})), tol, a.get("label", "replay"), a.get("kind", "replay"))
        return True
    if a.get("toltp"):
        A = C.QM.from_json(a["A"])
        tp_case(ctx, C, A.to_np(), a.get("tol"), a.get("sub_sizes"), a.get("label", "replay"), a.get("kind", "replay"))
        return True
    if "tolset" in a:
        A = C.QM.from_json(a["V"])
        set_case(ctx, C, a["tolset"], A.to_np(force_complex=not A.is_real()), a.get("label", "replay"), a.get("kind", "replay"))
        return True
    if a.get("tolensemble"):
        mats = [C.QM.from_json(x) for x in a["As"]]
        ensemble_case(ctx, C, [m.to_np(force_complex=not m.is_real()) for m in mats], a.get("label", "replay"), a.get("kind", "replay"))
        return True
    return False
