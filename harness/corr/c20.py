"""C20: completely_bounded_trace_norm / diamond_distance / completely_bounded_spectral_norm / channel_fidelity (and the channel
fidelity_of_separability) against certified intervals and the closed forms / relations the property states.

Per instance the exact dyadic image of the float Choi matrix handed to toqito defines the instance.  Primal and dual certificate
candidates come from an independent (untrusted) cvxpy solve, are rounded and repaired exactly and are accepted only by the verified
Lean checkers (`checkCbPrimal/Dual`, `checkCfPrimal/Dual`; theorems `checkCb*_sound`, `cb_bracket`, `checkCf*_sound`, `cf_bracket` in
lean/Toq/Properties/C20.lean): `lo <= optimum <= hi`.  toqito's value must lie in [lo - tau, hi + tau].  Relations between values of the
implementation (symmetry, homogeneity, unitary invariance, closed forms) are checked with the same slack; each has its theorem
(`diamond_symm`, `cb_homogeneous`, `diamond_unitary_invariant`, `cb_channel_one`, `cb_cp_eq`, `diamond_le_two`, `chanFid_symm`,
`chanFid_self`, `cf_le_choi_fidelity`)."""
from __future__ import annotations

import warnings
from fractions import Fraction

import numpy as np

from ..cert import DM, chol_factor, frac_json
from ..exact import Pure, call_rng, describe, present_nd
from ..pool import Result, run_pool, worker_driver, fold
from .. import qgen

RULE = ("qubit and qutrit maps given by Choi matrices built from exact data by the seeded generator: unitary channels (Cayley-rational unitaries, "
        "Choi matrix through toqito's kraus_to_choi), mixtures of unitaries with dyadic weights, random CPTP maps from Stinespring isometries "
        "(columns of a rational unitary, Kraus rank 2..dX*dY), their differences, random Hermitian (Hermiticity-preserving, non-CP) maps, CP non-TP "
        "maps, complex multiples; per instance the Lean checkers certify [lo, hi] for the exact dyadic image of the float Choi matrix and "
        "toqito's value must lie within tau; plus relations (symmetry, zero, <=2, Choi trace-norm bounds, two-unitary closed form, unitary "
        "invariance, homogeneity, channel = 1, CP = ||Phi*(1)||, dual map, fidelity symmetric/=1/<= Choi fidelity/dimension 5, product states). "
        "non-trivial = certified interval narrower than 1e-4 and the optimum >= 1e-2 away from the trivial values (0 and 2 for the diamond "
        "distance of channels, 0 and 1 for the channel fidelity), or a relation evaluated on such an instance; distinct = hash of the instance and call form; "
        "presentation: every call of a toqito function receives the same values in a freshly drawn presentation per array argument (C / Fortran / strided memory "
        "layout; real-valued Choi matrices as float64, integer-valued ones also as int64; real/complex pairs in both argument orders); the arrays handed over must "
        "be untouched afterwards; the main diamond_distance / channel_fidelity / completely_bounded_trace_norm call is repeated on the same objects for one qubit task in "
        "four and must return the same value")
ASSUMPTIONS = [
    "toqito computes with the float Choi matrices it is given; the instance certified is their exact dyadic image (J1 - J2 is the float difference, exact image taken after the subtraction)",
    "tolerance 2e-5 on picos/CVXOPT-solved values (completely_bounded_trace_norm and callers); 1e-3 on channel_fidelity: SCS is called with eps=1e-7 but stops at its iteration limit "
    "('solved (inaccurate - reached max_iters)') with errors around 3e-4 on the library's own examples, so the 1e-5 tolerance for tight-eps SCS does not apply",
    "composition with a rational unitary channel is carried out in float on the Kraus operators (error 1e-15, the cb norm is 1-Lipschitz in the trace norm of the Choi matrix)",
    "closed forms evaluated in float by the harness (trace norm and fidelity through numpy eigendecompositions, convex-hull distance of unit-circle eigenvalues): tolerance 1e-7 on top of tau",
    "two-unitary closed form 2 sqrt(1 - delta^2) and 'fidelity of the Choi states = optimum of its SDP dual' are cited (Watrous TQI Thm 3.55 / Thm 3.17), not proved",
    "channel fidelity: the program certified is Katariya-Wilde Prop. 50 with the Loewner order on the Hermitian part of Tr_Y Q; a primal certificate (lower bound) needs J1, J2 > 0, "
    "so lower bounds are certified only for full-rank Choi matrices; rank-deficient pairs get the upper bound only",
    "dX != dY maps are certified by the Lean checkers only (the toqito functions take no dimension argument and assume dX = dY)",
]
TAU_CB = 2e-5
TAU_CF = 1e-3
WIDTH_OK = 1e-4
CLOSED = 1e-7


# ------------------------------------------------------------------------------------------------
# exact helpers (complex dyadic matrices)


def dm_zero(n, m=None):
    m = n if m is None else m
    z = np.zeros((n, m), dtype=object)
    z[...] = 0
    return DM(z, z.copy(), 0)


def dm_neg(A: DM) -> DM:
    return DM(-A.re, -A.im, A.e)


def dm_kron_I(rho: DM, dY: int) -> DM:
    """rho (x) 1_Y with index x*dY + y"""
    dX = rho.re.shape[0]
    N = dX * dY
    re = np.zeros((N, N), dtype=object)
    im = np.zeros((N, N), dtype=object)
    re[...] = 0
    im[...] = 0
    for a in range(dX):
        for b in range(dX):
            for y in range(dY):
                re[a * dY + y, b * dY + y] = rho.re[a, b]
                im[a * dY + y, b * dY + y] = rho.im[a, b]
    return DM(re, im, rho.e)


def dm_ptr(A: DM, dX: int, dY: int) -> DM:
    """Tr_Y"""
    re = np.zeros((dX, dX), dtype=object)
    im = np.zeros((dX, dX), dtype=object)
    re[...] = 0
    im[...] = 0
    for a in range(dX):
        for b in range(dX):
            re[a, b] = sum(int(A.re[a * dY + y, b * dY + y]) for y in range(dY))
            im[a, b] = sum(int(A.im[a * dY + y, b * dY + y]) for y in range(dY))
    return DM(re, im, A.e)


def dm_block(A: DM, B: DM, C: DM, D: DM) -> DM:
    e = max(A.e, B.e, C.e, D.e)
    A, B, C, D = A.at(e), B.at(e), C.at(e), D.at(e)
    return DM(np.block([[A.re, B.re], [C.re, D.re]]), np.block([[A.im, B.im], [C.im, D.im]]), e)


def dm_fix_trace(rho: DM) -> DM:
    """add (1 - tr rho) to the (0,0) entry (exact)"""
    one = 1 << rho.e
    t = sum(int(rho.re[i, i]) for i in range(rho.re.shape[0]))
    re = rho.re.copy()
    re[0, 0] = int(re[0, 0]) + (one - t)
    return DM(re, rho.im.copy(), rho.e)


def dm_density(rho_f, eps_bits, bits=40) -> DM:
    """exact density operator close to the float one: (1 - eps) herm(rho) + eps 1/d, trace fixed exactly"""
    d = rho_f.shape[0]
    R = DM.from_float((rho_f + rho_f.conj().T) / 2, bits).herm_part()
    R = R.scale_dy((1 << eps_bits) - 1, eps_bits) + DM.eye(d).scale_dy((1 << 30) // d, 30 + eps_bits)
    return dm_fix_trace(R)


def dyadic_up(x: float, bits=40) -> Fraction:
    return Fraction(int(np.ceil(x * (1 << bits))), 1 << bits)


def dyadic_down(x: float, bits=40) -> Fraction:
    return Fraction(int(np.floor(x * (1 << bits))), 1 << bits)


def ok_val(r):
    return r["ok"][0] / r["ok"][1] if "ok" in r else None


# ------------------------------------------------------------------------------------------------
# untrusted reference solves (cvxpy)


def _solve(prob):
    import cvxpy as cp
    last = None
    for kw in (dict(solver=cp.CLARABEL), dict(solver=cp.SCS, eps=1e-9, max_iters=50000)):
        try:
            prob.solve(**kw)
            if prob.status in ("optimal", "optimal_inaccurate") and all(v.value is not None for v in prob.variables()):
                return
        except Exception as e:  # noqa: BLE001
            last = e
    raise RuntimeError(f"reference solve failed: {last}")


def solve_cb_ref(Jf, dX, dY):
    """Watrous' primal and dual for the float Choi matrix: returns dict of float arrays"""
    import cvxpy as cp
    N = dX * dY
    IY = np.eye(dY)
    r0 = cp.Variable((dX, dX), hermitian=True)
    r1 = cp.Variable((dX, dX), hermitian=True)
    Z = cp.Variable((2 * N, 2 * N), hermitian=True)
    cons = [Z >> 0, r0 >> 0, r1 >> 0, cp.real(cp.trace(r0)) == 1, cp.real(cp.trace(r1)) == 1,
            Z[:N, :N] == cp.kron(r0, IY), Z[N:, N:] == cp.kron(r1, IY)]
    X = Z[:N, N:]
    pr = cp.Problem(cp.Maximize(cp.real(cp.trace(Jf.conj().T @ X))), cons)
    _solve(pr)
    out = {"rho0": np.array(r0.value), "rho1": np.array(r1.value), "X": np.array(Z.value)[:N, N:], "pval": float(pr.value)}
    W = cp.Variable((2 * N, 2 * N), hermitian=True)
    T0 = cp.Variable((dX, dX), hermitian=True)
    T1 = cp.Variable((dX, dX), hermitian=True)
    t0 = cp.Variable()
    t1 = cp.Variable()
    cons = [W >> 0, W[:N, N:] == -Jf, T0 == cp.partial_trace(W[:N, :N], (dX, dY), axis=1), T1 == cp.partial_trace(W[N:, N:], (dX, dY), axis=1),
            t0 * np.eye(dX) - T0 >> 0, t1 * np.eye(dX) - T1 >> 0]
    du = cp.Problem(cp.Minimize((t0 + t1) / 2), cons)
    _solve(du)
    Wv = np.array(W.value)
    out.update({"Y0": Wv[:N, :N], "Y1": Wv[N:, N:], "dval": float(du.value)})
    return out


def solve_cf_ref(J1f, J2f, dX, dY, primal=True):
    import cvxpy as cp
    N = dX * dY
    out = {}
    if primal:
        Z = cp.Variable((2 * N, 2 * N), hermitian=True)
        T = cp.Variable((dX, dX), hermitian=True)
        lam = cp.Variable()
        Q = Z[N:, :N]
        PT = cp.partial_trace(Q, (dX, dY), axis=1)
        cons = [Z >> 0, Z[:N, :N] == J1f, Z[N:, N:] == J2f, T == (PT + PT.H) / 2, T - lam * np.eye(dX) >> 0]
        pr = cp.Problem(cp.Maximize(lam), cons)
        _solve(pr)
        out.update({"Q": np.array(Z.value)[N:, :N], "lam": float(lam.value)})
    rho = cp.Variable((dX, dX), hermitian=True)
    W = cp.Variable((2 * N, 2 * N), hermitian=True)
    cons = [W >> 0, rho >> 0, cp.real(cp.trace(rho)) == 1, W[:N, N:] == -cp.kron(rho, np.eye(dY))]
    du = cp.Problem(cp.Minimize(0.5 * cp.real(cp.trace(J1f @ W[:N, :N]) + cp.trace(J2f @ W[N:, N:]))), cons)
    _solve(du)
    Wv = np.array(W.value)
    out.update({"rho": np.array(rho.value), "W0": Wv[:N, :N], "W1": Wv[N:, N:], "dval": float(du.value)})
    return out


def entrywise_program_value(J1f, J2f, d):
    """optimum of the program exactly as written in channel_fidelity.py (entrywise `<=` on the entrywise real part of Tr_Y Q), solved
    independently with CLARABEL: evidence that a value outside the certified interval is the optimum of that other program"""
    import cvxpy as cp
    from toqito.channels import partial_trace
    N = d * d
    lam = cp.Variable(nonneg=True)
    q = cp.Variable((N, N), complex=True)
    cons = [cp.bmat([[J1f, q.H], [q, J2f]]) >> 0, lam * np.identity(d) <= cp.real(partial_trace(q, [1], [d, d]))]
    pr = cp.Problem(cp.Maximize(lam), cons)
    try:
        return float(pr.solve(solver=cp.CLARABEL))
    except Exception:  # noqa: BLE001
        return None


# ------------------------------------------------------------------------------------------------
# exact repair + Lean verdicts


def certify_cb(drv, J: DM, dX, dY, sol, eps_bits=20):
    """returns (lo, hi, why) — lo/hi floats or None — from the verified checkers"""
    N = dX * dY
    why = []
    lo = hi = None
    try:
        r0 = dm_density(sol["rho0"], eps_bits)
        r1 = dm_density(sol["rho1"], eps_bits)
        X = DM.from_float(sol["X"], 40).scale_dy((1 << eps_bits) - 1, eps_bits)
        blk = dm_block(dm_kron_I(r0, dY), X, X.H(), dm_kron_I(r1, dY))
        Lb, L0, L1 = chol_factor(blk.to_float()), chol_factor(r0.to_float()), chol_factor(r1.to_float())
        if Lb is None or L0 is None or L1 is None:
            why.append("primal:cholesky")
        else:
            r = drv.ask("c20_cb_primal", {"dX": dX, "dY": dY, "J": J.json(), "rho0": r0.json(), "rho1": r1.json(), "X": X.json(),
                                          "Lb": Lb.json(), "L0": L0.json(), "L1": L1.json()})
            lo = ok_val(r)
            if lo is None:
                why.append("primal:" + r["reject"])
    except KeyError:
        why.append("primal:no-candidate")
    try:
        eta = DM.eye(N).scale_dy(1, 22)
        Y0 = DM.from_float((sol["Y0"] + sol["Y0"].conj().T) / 2, 40).herm_part() + eta
        Y1 = DM.from_float((sol["Y1"] + sol["Y1"].conj().T) / 2, 40).herm_part() + eta
        blk = dm_block(Y0, dm_neg(J), dm_neg(J.H()), Y1)
        T0, T1 = dm_ptr(Y0, dX, dY), dm_ptr(Y1, dX, dY)
        c0 = dyadic_up(float(np.max(np.linalg.eigvalsh(T0.to_float()))) + 2.0 ** -24)
        c1 = dyadic_up(float(np.max(np.linalg.eigvalsh(T1.to_float()))) + 2.0 ** -24)
        Lb = chol_factor(blk.to_float())
        L0 = chol_factor(float(c0) * np.eye(dX) - T0.to_float())
        L1 = chol_factor(float(c1) * np.eye(dX) - T1.to_float())
        if Lb is None or L0 is None or L1 is None:
            why.append("dual:cholesky")
        else:
            r = drv.ask("c20_cb_dual", {"dX": dX, "dY": dY, "J": J.json(), "Y0": Y0.json(), "Y1": Y1.json(), "c0": frac_json(c0), "c1": frac_json(c1),
                                        "Lb": Lb.json(), "L0": L0.json(), "L1": L1.json()})
            hi = ok_val(r)
            if hi is None:
                why.append("dual:" + r["reject"])
    except KeyError:
        why.append("dual:no-candidate")
    return lo, hi, why


def certify_cf(drv, J1: DM, J2: DM, dX, dY, sol):
    N = dX * dY
    why = []
    lo = hi = None
    if "Q" in sol:
        eps_bits = 16
        Q = DM.from_float(sol["Q"], 40).scale_dy((1 << eps_bits) - 1, eps_bits)
        blk = dm_block(J1, Q.H(), Q, J2)
        T = dm_ptr(Q, dX, dY).herm_part()
        lam = dyadic_down(float(np.min(np.linalg.eigvalsh(T.to_float()))) - 2.0 ** -24)
        Lb = chol_factor(blk.to_float())
        Lc = chol_factor(T.to_float() - float(lam) * np.eye(dX))
        if lam < 0:
            why.append("primal:negative")
        elif Lb is None or Lc is None:
            why.append("primal:cholesky")
        else:
            r = drv.ask("c20_cf_primal", {"dX": dX, "dY": dY, "J1": J1.json(), "J2": J2.json(), "Q": Q.json(), "lam": frac_json(lam), "Lb": Lb.json(), "Lc": Lc.json()})
            lo = ok_val(r)
            if lo is None:
                why.append("primal:" + r["reject"])
    else:
        why.append("primal:rank-deficient")
    rho = dm_density(sol["rho"], 20)
    eta = DM.eye(N).scale_dy(1, 18)
    W0 = DM.from_float((sol["W0"] + sol["W0"].conj().T) / 2, 40).herm_part() + eta
    W1 = DM.from_float((sol["W1"] + sol["W1"].conj().T) / 2, 40).herm_part() + eta
    K = dm_kron_I(rho, dY)
    blk = dm_block(W0, dm_neg(K), dm_neg(K), W1)
    Lb, Lr = chol_factor(blk.to_float()), chol_factor(rho.to_float())
    if Lb is None or Lr is None:
        why.append("dual:cholesky")
    else:
        r = drv.ask("c20_cf_dual", {"dX": dX, "dY": dY, "J1": J1.json(), "J2": J2.json(), "rho": rho.json(), "W0": W0.json(), "W1": W1.json(), "Lrho": Lr.json(), "Lb": Lb.json()})
        hi = ok_val(r)
        if hi is None:
            why.append("dual:" + r["reject"])
    return lo, hi, why


# ------------------------------------------------------------------------------------------------
# float closed forms


def trace_norm_h(A):
    return float(np.sum(np.abs(np.linalg.eigvalsh((A + A.conj().T) / 2))))


def hull_distance(eigs):
    """distance from the origin to the convex hull of points on the unit circle"""
    ang = np.sort(np.mod(np.angle(eigs), 2 * np.pi))
    gaps = np.diff(np.concatenate([ang, [ang[0] + 2 * np.pi]]))
    g = float(np.max(gaps))
    if g <= np.pi:
        return 0.0
    return float(np.cos((2 * np.pi - g) / 2))


def root_fidelity(r, s):
    w, v = np.linalg.eigh((r + r.conj().T) / 2)
    sq = (v * np.sqrt(np.clip(w, 0, None))) @ v.conj().T
    m = sq @ s @ sq
    return float(np.sum(np.sqrt(np.clip(np.linalg.eigvalsh((m + m.conj().T) / 2), 0, None))))


def dual_choi(Jf, dX, dY):
    """Choi matrix (on Y (x) X) of the adjoint map: J*_{(y,x),(y',x')} = conj J_{(x,y),(x',y')}"""
    return Jf.conj().reshape(dX, dY, dX, dY).transpose(1, 0, 3, 2).reshape(dX * dY, dX * dY)


def is_psd(A, tol=1e-9):
    return bool(np.min(np.linalg.eigvalsh((A + A.conj().T) / 2)) >= -tol) and bool(np.max(np.abs(A - A.conj().T)) <= 1e-12)


# ------------------------------------------------------------------------------------------------
# generators (parent process; every random choice from ctx.rng)


def gen_channel(rng, d, kind):
    """returns Kraus operators (float arrays d x d) of a channel on dimension d"""
    if kind == "unitary":
        return [qgen.cayley_unitary(rng, d, True)]
    if kind == "mixture":
        k = int(rng.integers(2, 4))
        p = qgen.dyadic_probs(rng, k, bits=4, allow_uniform=False)
        return [np.sqrt(pi) * qgen.cayley_unitary(rng, d, bool(rng.integers(4) > 0)) for pi in p]
    # Stinespring: first d columns of a rational unitary on Y (x) E, environment index first
    r = int(rng.choice([2, 2, 3, d * d])) if kind == "stinespring" else d * d
    V = qgen.cayley_unitary(rng, d * r, True, lim=2)[:, :d]
    return [V[e * d:(e + 1) * d, :] for e in range(r)]


def choi_of(kraus):
    from toqito.channel_ops import kraus_to_choi
    return np.asarray(kraus_to_choi([np.asarray(k, dtype=complex) for k in kraus]), dtype=complex)


def rand_herm(rng, n, lim=4):
    A = rng.integers(-lim, lim + 1, size=(n, n)) + 1j * rng.integers(-lim, lim + 1, size=(n, n))
    return (A + A.conj().T) / 8.0


def gen_cb_task(rng, i, quick):
    d = int(rng.choice([2, 2, 3]))
    kind = ["diff", "diff", "diff", "herm", "cp", "channel", "unitary_pair", "diff"][i % 8]
    t = {"d": d, "kind": kind, "id": i}
    if kind in ("diff", "unitary_pair"):
        k1 = "unitary" if kind == "unitary_pair" else str(rng.choice(["unitary", "mixture", "stinespring", "stinespring"]))
        k2 = "unitary" if kind == "unitary_pair" else str(rng.choice(["unitary", "mixture", "stinespring"]))
        t["K1"], t["K2"] = gen_channel(rng, d, k1), gen_channel(rng, d, k2)
        t["kinds"] = [k1, k2]
        t["V"], t["W"] = qgen.cayley_unitary(rng, d, True), qgen.cayley_unitary(rng, d, True)
    elif kind == "herm":
        if (i // 8) % 2 == 1:
            # trace-preserving, Hermiticity-preserving, generally not CP: (1+a) Phi_1 - a Phi_2
            a = float(rng.choice([0.25, 0.5, 1.0, 2.0]))
            t["J"] = (1 + a) * choi_of(gen_channel(rng, d, str(rng.choice(["unitary", "mixture", "stinespring"])))) \
                - a * choi_of(gen_channel(rng, d, str(rng.choice(["unitary", "mixture", "stinespring"]))))
            t["tp_noncp"] = a
        else:
            t["J"] = rand_herm(rng, d * d)
        t["c_real"] = float(rng.choice([-3.0, -0.5, 2.0, 0.25]))
        t["c_cplx"] = complex(float(rng.integers(-3, 4)), float(rng.integers(1, 4))) / 2
    elif kind == "cp":
        ks = [(rng.integers(-2, 3, size=(d, d)) + 1j * rng.integers(-2, 3, size=(d, d))) / 2.0 for _ in range(int(rng.integers(1, 4)))]
        t["K"] = ks
    else:
        t["K"] = gen_channel(rng, d, str(rng.choice(["unitary", "mixture", "stinespring"])))
    return t


def gen_cf_task(rng, i, quick, d=None):
    d = d or 2
    k1 = str(rng.choice(["unitary", "mixture", "stinespring", "stinespring"]))
    k2 = str(rng.choice(["mixture", "stinespring", "stinespring"]))
    full = (i % 3) != 2
    return {"d": d, "id": i, "K1": gen_channel(rng, d, k1), "K2": gen_channel(rng, d, k2), "kinds": [k1, k2], "full": full,
            "p1": float(rng.choice([0.125, 0.25])), "p2": float(rng.choice([0.125, 0.25, 0.5]))}


# ------------------------------------------------------------------------------------------------
# workers


def _call(fn, *a, **k):
    try:
        return "ok", float(np.real(fn(*a, **k)))
    except (ArithmeticError, ZeroDivisionError) as e:
        return "numfail", f"{type(e).__name__}: {str(e)[:100]}"
    except Exception as e:  # noqa: BLE001
        return "raise", f"{type(e).__name__}: {str(e)[:200]}"


class Presenter:
    """calls of toqito functions for one task: every ndarray argument is handed over as the same values in a presentation drawn for this call
    (a function of the task's presentation seed and the call's key), the objects handed over must be untouched afterwards, and with
    again=(d == 2) the call is repeated on the same objects and must return the same value within tol"""

    def __init__(self, pres, res, desc):
        self.pres, self.res, self.desc = pres, res, desc
        self.last = None   # description of the presentation of the last call (for violation records)

    def call(self, key, fn, *a, again=False, tol=0.0, **k):
        prng = call_rng(self.pres, key)
        args = [present_nd(prng, np.array(x, copy=True)) if isinstance(x, np.ndarray) else x for x in a]
        self.last = describe([x for x in args if isinstance(x, np.ndarray)])
        guard = Pure(*args)
        name = getattr(fn, "__name__", str(fn))
        st, v = _call(fn, *args, **k)
        why = guard.modified()
        if why is None and again and st == "ok" and prng is not None and int(prng.integers(4)) == 0:
            st2, v2 = _call(fn, *args, **k)   # the SAME objects again
            why = guard.modified()
            self.res.count("repeat-call/" + name)
            if why is None and st2 == "ok" and abs(v2 - v) > tol:
                self.res.violation(f"{name}: a second call on the same objects returns {v2:.8f}, the first returned {v:.8f}",
                                   {"function": name, "args": dict(self.desc, call=key), "values": [v, v2], "presentation": self.last, "check": "repeat"})
        if why is not None:
            self.res.violation(f"{name}: caller's arguments were modified ({why})", {"function": name, "args": dict(self.desc, call=key), "modified": why, "presentation": self.last, "check": "purity"})
        return st, v


def _check_interval(res, fn, desc, val, lo, hi, tau, thm, extra=None):
    """val must lie in [lo - tau, hi + tau]; returns True when checked and fine"""
    if lo is None or hi is None:
        return None
    if not (lo - tau <= val <= hi + tau):
        info = {"function": fn, "args": desc, "impl": val, "certified": [lo, hi], "tau": tau, "theorem": thm}
        info.update(extra or {})
        res.violation(f"{fn} = {val:.8f} outside the certified optimum [{lo:.8f}, {hi:.8f}] ({desc.get('kind')}, d={desc.get('d')})", info)
        return False
    return True


def _cb_interval(drv, res, Jf, dX, dY, tag):
    """certified interval for the exact image of the float matrix Jf"""
    J = DM.exact_float(Jf)
    try:
        sol = solve_cb_ref(J.to_float(), dX, dY)
    except Exception:  # noqa: BLE001
        res.count(f"uncertified/{tag}/ref-solve-failed")
        return None, None
    lo, hi, why = certify_cb(drv, J, dX, dY, sol)
    if lo is None or hi is None or hi - lo > WIDTH_OK:
        res.count(f"uncertified/{tag}/" + ";".join(why)[:70] + ("" if lo is None or hi is None else "wide"))
        return None, None
    if lo > hi + 1e-12:
        res.violation("certified lower bound above certified upper bound (checker or harness unsound)", {"function": "cb_bracket", "args": {"J": Jf, "dX": dX, "dY": dY}, "certified": [lo, hi], "theorem": "cb_bracket"})
        return None, None
    return lo, hi


def work_cb(task, res: Result):
    from toqito.channel_metrics import completely_bounded_spectral_norm, completely_bounded_trace_norm, diamond_distance
    from toqito.channel_ops import dual_channel
    warnings.filterwarnings("ignore")
    drv = worker_driver()
    d, kind = task["d"], task["kind"]
    base = {"fn": "cb", "kind": kind, "d": d, "id": task["id"], "pres": task.get("pres")}
    P = Presenter(task.get("pres"), res, base)

    if kind in ("diff", "unitary_pair"):
        J1, J2 = choi_of(task["K1"]), choi_of(task["K2"])
        Jd = J1 - J2
        desc = dict(base, kinds=task["kinds"], J1=J1, J2=J2)
        lo, hi = _cb_interval(drv, res, Jd, d, d, kind)
        st, v = P.call("main", diamond_distance, J1, J2, again=(d == 2), tol=2 * TAU_CB)
        desc["presentation"] = P.last
        nontriv = lo is not None and lo >= 1e-2 and hi <= 2 - 1e-2
        res.case(desc, nontriv, f"diamond/{kind}/{'-'.join(task['kinds'])}/d{d}/{st}")
        if st == "numfail":
            res.count("solver-numerical-failure")
            return
        if st == "raise":
            res.violation(f"diamond_distance raises {v} on a pair of channels", {"function": "diamond_distance", "args": desc, "exception": v})
            return
        if _check_interval(res, "diamond_distance", desc, v, lo, hi, TAU_CB, "checkCbPrimal_sound / checkCbDual_sound / cb_bracket") is False:
            return
        # symmetry (diamond_symm)
        st2, v2 = P.call("swap", diamond_distance, J2, J1)
        if st2 == "ok":
            res.count("relation/symmetry")
            if abs(v - v2) > 2 * TAU_CB:
                res.violation(f"diamond_distance not symmetric: {v:.8f} vs {v2:.8f}", {"function": "diamond_distance", "args": desc, "values": [v, v2], "theorem": "diamond_symm"})
        # zero for equal channels (diamond_self_zero)
        st3, v3 = P.call("self", diamond_distance, J1, J1.copy())
        if st3 == "ok":
            res.count("relation/self-zero")
            if abs(v3) > TAU_CB:
                res.violation(f"diamond_distance(J, J) = {v3:.8f}, expected 0", {"function": "diamond_distance", "args": dict(base, J1=J1, J2=J1), "impl": v3, "theorem": "diamond_self_zero"})
        elif st3 == "raise":
            res.violation(f"diamond_distance(J, J) raises {v3}", {"function": "diamond_distance", "args": dict(base, J1=J1, J2=J1), "exception": v3})
        # at most 2 (diamond_le_two), Choi trace-norm bounds (diamond_choi_lower / cb_jordan_dual_cert)
        tn = trace_norm_h(Jd)
        res.count("relation/le-two-and-choi-bounds")
        if v > 2 + TAU_CB:
            res.violation(f"diamond_distance of two channels = {v:.8f} > 2", {"function": "diamond_distance", "args": desc, "impl": v, "theorem": "diamond_le_two"})
        if not (tn / d - TAU_CB - CLOSED <= v <= tn + TAU_CB + CLOSED):
            res.violation(f"diamond_distance = {v:.8f} outside the Choi bounds [{tn / d:.8f}, {tn:.8f}]", {"function": "diamond_distance", "args": desc, "impl": v, "bounds": [tn / d, tn], "theorem": "diamond_choi_lower / cb_jordan_dual_cert"})
        if lo is not None and not (tn / d - CLOSED <= hi and lo <= tn + CLOSED):
            res.violation("certified interval violates the Choi trace-norm bounds (harness error)", {"function": "choi_bounds", "args": desc, "certified": [lo, hi], "bounds": [tn / d, tn]})
        # two unitaries: 2 sqrt(1 - delta^2)
        if kind == "unitary_pair":
            U, V = task["K1"][0], task["K2"][0]
            delta = hull_distance(np.linalg.eigvals(U.conj().T @ V))
            cf = 2 * np.sqrt(max(0.0, 1 - delta ** 2))
            res.count("closed-form/two-unitaries")
            if abs(v - cf) > TAU_CB + CLOSED:
                res.violation(f"diamond_distance of two unitary channels = {v:.8f}, closed form 2 sqrt(1-delta^2) = {cf:.8f}", {"function": "diamond_distance", "args": desc, "impl": v, "closed_form": cf, "theorem": "cited: Watrous TQI Thm 3.55"})
            if lo is not None and not (lo - CLOSED <= cf <= hi + CLOSED):
                res.violation("certified interval disagrees with the two-unitary closed form (harness or cited closed form wrong)", {"function": "two_unitaries", "args": desc, "certified": [lo, hi], "closed_form": cf})
        # unitary invariance (diamond_unitary_invariant): both channels composed with V before and W after
        Vu, Wu = task["V"], task["W"]
        J1r, J2r = choi_of([Wu @ k @ Vu for k in task["K1"]]), choi_of([Wu @ k @ Vu for k in task["K2"]])
        # the rotated Choi matrices equal (V^T (x) W) J (V^T (x) W)^H: ties kraus_to_choi's convention to the theorem's
        R = np.kron(Vu.T, Wu)
        if np.max(np.abs(R @ J1 @ R.conj().T - J1r)) > 1e-9:
            res.violation("kraus_to_choi of the rotated Kraus operators differs from (V^T (x) W) J (V^T (x) W)^H (Choi convention)", {"function": "kraus_to_choi", "args": dict(base, K=task["K1"], V=Vu, W=Wu)})
        st4, v4 = P.call("rot", diamond_distance, J1r, J2r)
        if st4 == "ok":
            res.count("relation/unitary-invariance")
            if abs(v - v4) > 2 * TAU_CB or (lo is not None and not (lo - TAU_CB <= v4 <= hi + TAU_CB)):
                res.violation(f"diamond_distance changes under composition with the same unitaries: {v:.8f} vs {v4:.8f}", {"function": "diamond_distance", "args": dict(desc, V=Vu, W=Wu), "values": [v, v4], "certified": [lo, hi], "theorem": "diamond_unitary_invariant"})
        elif st4 == "raise":
            res.violation(f"diamond_distance raises {v4} on rotated channels", {"function": "diamond_distance", "args": dict(desc, V=Vu, W=Wu), "exception": v4})
        return

    if kind == "herm":
        Jf = task["J"]
        desc = dict(base, J=Jf)
        lo, hi = _cb_interval(drv, res, Jf, d, d, kind)
        st, v = P.call("main", completely_bounded_trace_norm, Jf, again=(d == 2), tol=2 * TAU_CB)
        desc["presentation"] = P.last
        res.case(desc, lo is not None and lo >= 1e-2, f"cb/herm/d{d}/{st}")
        if st == "numfail":
            res.count("solver-numerical-failure")
            return
        if st == "raise":
            res.violation(f"completely_bounded_trace_norm raises {v} on a Hermitian Choi matrix", {"function": "completely_bounded_trace_norm", "args": desc, "exception": v})
            return
        if _check_interval(res, "completely_bounded_trace_norm", desc, v, lo, hi, TAU_CB, "checkCbPrimal_sound / checkCbDual_sound / cb_bracket") is False:
            return
        # homogeneity (cb_homogeneous): real (also negative) and complex factors
        for c in (task["c_real"], task["c_cplx"]):
            stc, vc = P.call(("homog", repr(c)), completely_bounded_trace_norm, c * Jf)
            dc = dict(base, J=Jf, c=c)
            res.case(dc, lo is not None and lo >= 1e-2, f"cb/homogeneity/{'complex' if isinstance(c, complex) else 'real'}/{stc}")
            if stc == "numfail":
                res.count("solver-numerical-failure")
                continue
            if stc == "raise":
                res.violation(f"completely_bounded_trace_norm raises {vc} on c*J (c={c})", {"function": "completely_bounded_trace_norm", "args": dc, "exception": vc})
                continue
            a = abs(c)
            if abs(vc - a * v) > (1 + a) * TAU_CB or (lo is not None and not (a * lo - a * TAU_CB - TAU_CB <= vc <= a * hi + a * TAU_CB + TAU_CB)):
                res.violation(f"cb trace norm not absolutely homogeneous: ||cJ|| = {vc:.8f}, |c| ||J|| = {a * v:.8f} (c={c})", {"function": "completely_bounded_trace_norm", "args": dc, "values": [v, vc], "certified": [lo, hi], "theorem": "cb_homogeneous"})
        # cb spectral norm = cb trace norm of the dual map
        Jdual = dual_choi(Jf, d, d)
        try:
            a_J = present_nd(call_rng(task.get("pres"), "dual_channel"), Jf.copy())
            g_J = Pure(a_J)
            td = np.asarray(dual_channel(a_J))
            if g_J.modified() is not None:
                res.violation(f"dual_channel: caller's arguments were modified ({g_J.modified()})", {"function": "dual_channel", "args": desc, "modified": g_J.modified(), "presentation": describe(a_J), "check": "purity"})
            if np.max(np.abs(td - Jdual)) > 0:
                res.violation("dual_channel(J) differs from the Choi matrix of the adjoint map", {"function": "dual_channel", "args": desc, "impl": td, "model": Jdual})
        except Exception as e:  # noqa: BLE001
            res.violation(f"dual_channel raises {type(e).__name__}", {"function": "dual_channel", "args": desc, "exception": str(e)[:200]})
        lo2, hi2 = _cb_interval(drv, res, Jdual, d, d, "herm-dual")
        sts, vs = P.call("spectral", completely_bounded_spectral_norm, Jf)
        res.case(dict(desc, fn="cb_spectral"), lo2 is not None and lo2 >= 1e-2, f"cb_spectral/herm/d{d}/{sts}")
        if sts == "raise":
            res.violation(f"completely_bounded_spectral_norm raises {vs}", {"function": "completely_bounded_spectral_norm", "args": desc, "exception": vs})
        elif sts == "ok":
            _check_interval(res, "completely_bounded_spectral_norm", desc, vs, lo2, hi2, TAU_CB, "cb_bracket applied to the Choi matrix of the adjoint map")
        return

    if kind == "cp":
        Jf = choi_of(task["K"])
        desc = dict(base, J=Jf)
        T = Jf.reshape(d, d, d, d).trace(axis1=1, axis2=3)
        lam_max = float(np.max(np.linalg.eigvalsh((T + T.conj().T) / 2)))
        tr = float(np.real(np.trace(T)))
        tp = bool(np.max(np.abs(T - np.eye(d))) < 1e-6)
        lo, hi = _cb_interval(drv, res, Jf, d, d, kind)
        # the certified interval must contain lambda_max(Tr_Y J) (cb_cp_eq)
        if lo is not None and not (lo - CLOSED <= lam_max <= hi + CLOSED):
            res.violation("certified interval of a CP map does not contain the operator norm of Phi*(1) (harness error)", {"function": "cp_closed_form", "args": desc, "certified": [lo, hi], "lam_max": lam_max})
        extra = {"cp_non_tp": (not tp) and is_psd(Jf), "trace_of_ptr": tr, "lam_max": lam_max}
        for fn, name, Jarg, L, H in ((completely_bounded_trace_norm, "completely_bounded_trace_norm", Jf, lo, hi),):
            st, v = P.call("main", fn, Jarg, again=(d == 2), tol=2 * TAU_CB)
            res.case(dict(desc, fn=name), L is not None and abs(tr - lam_max) >= 1e-2, f"cb/cp/d{d}/{st}")
            if st == "raise":
                res.violation(f"{name} raises {v} on a CP map", {"function": name, "args": desc, "exception": v, **extra})
            elif st == "ok":
                _check_interval(res, name, desc, v, L, H, TAU_CB, "cb_cp_eq / cb_bracket", extra)
        return

    if kind == "channel":
        Jf = choi_of(task["K"])
        desc = dict(base, J=Jf)
        lo, hi = _cb_interval(drv, res, Jf, d, d, kind)
        if lo is not None and not (lo - 1e-6 <= 1 <= hi + 1e-6):
            res.violation("certified interval of a channel does not contain 1 (harness error)", {"function": "channel_one", "args": desc, "certified": [lo, hi]})
        st, v = P.call("main", completely_bounded_trace_norm, Jf)
        res.case(desc, lo is not None, f"cb/channel/d{d}/{st}")
        if st == "raise":
            res.violation(f"completely_bounded_trace_norm raises {v} on a channel", {"function": "completely_bounded_trace_norm", "args": desc, "exception": v})
        elif st == "ok":
            if abs(v - 1) > TAU_CB:
                res.violation(f"cb trace norm of a channel = {v:.8f}, expected 1", {"function": "completely_bounded_trace_norm", "args": desc, "impl": v, "theorem": "cb_channel_one"})
        # cb spectral norm of a channel = cb trace norm of its (unital CP) adjoint = ||Phi(1)||
        Jdual = dual_choi(Jf, d, d)
        T = Jdual.reshape(d, d, d, d).trace(axis1=1, axis2=3)
        lam_max = float(np.max(np.linalg.eigvalsh((T + T.conj().T) / 2)))
        tr = float(np.real(np.trace(T)))
        tp = bool(np.max(np.abs(T - np.eye(d))) < 1e-6)
        lo2, hi2 = _cb_interval(drv, res, Jdual, d, d, "channel-dual")
        sts, vs = P.call("spectral", completely_bounded_spectral_norm, Jf)
        res.case(dict(desc, fn="cb_spectral"), lo2 is not None and abs(tr - lam_max) >= 1e-2, f"cb_spectral/channel/d{d}/{sts}/{'unital' if tp else 'nonunital'}")
        extra = {"cp_non_tp": (not tp) and is_psd(Jdual), "trace_of_ptr": tr, "lam_max": lam_max}
        if sts == "raise":
            res.violation(f"completely_bounded_spectral_norm raises {vs} on a channel", {"function": "completely_bounded_spectral_norm", "args": desc, "exception": vs, **extra})
        elif sts == "ok":
            _check_interval(res, "completely_bounded_spectral_norm", desc, vs, lo2, hi2, TAU_CB, "cb_cp_eq / cb_bracket on the adjoint map", extra)
        return


def work_model_only(task, res: Result):
    """dX != dY: the verified checkers alone (index convention x*dY + y, rho (x) 1_Y, Tr_Y): a channel X -> Y must be certified at 1,
    the difference of two channels inside the Choi bounds"""
    warnings.filterwarnings("ignore")
    drv = worker_driver()
    dX, dY, V1, V2 = task["dX"], task["dY"], task["V1"], task["V2"]

    def choi(V, r):
        ks = [V[e * dY:(e + 1) * dY, :] for e in range(r)]
        J = np.zeros((dX * dY, dX * dY), dtype=complex)
        for a in range(dX):
            for b in range(dX):
                E = np.zeros((dX, dX))
                E[a, b] = 1
                J[a * dY:(a + 1) * dY, b * dY:(b + 1) * dY] = sum(k @ E @ k.conj().T for k in ks)
        return J
    J1, J2 = choi(V1, task["r"]), choi(V2, task["r"])
    desc = {"fn": "model_only", "dX": dX, "dY": dY, "J1": J1, "J2": J2}
    lo, hi = _cb_interval(drv, res, J1, dX, dY, "rect-channel")
    res.case(dict(desc, which="channel"), lo is not None, f"model-only/channel/{dX}x{dY}")
    if lo is not None and not (lo - 1e-6 <= 1 <= hi + 1e-6):
        res.violation("certified interval of a channel X -> Y (dX != dY) does not contain 1: checker index convention and harness disagree", {"function": "checkCb", "args": desc, "certified": [lo, hi], "theorem": "cb_channel_one"})
    Jd = J1 - J2
    lo, hi = _cb_interval(drv, res, Jd, dX, dY, "rect-diff")
    tn = trace_norm_h(Jd)
    res.case(dict(desc, which="diff"), lo is not None and lo >= 1e-2 and hi <= 2 - 1e-2, f"model-only/diff/{dX}x{dY}")
    if lo is not None and not (tn / dX - CLOSED <= hi and lo <= min(2.0, tn) + CLOSED):
        res.violation("certified diamond distance (dX != dY) outside the Choi bounds", {"function": "checkCb", "args": desc, "certified": [lo, hi], "bounds": [tn / dX, tn], "theorem": "diamond_choi_lower / diamond_le_two"})


def _mix_full(Jf, p, d):
    """(1 - p) Phi + p * completely depolarizing (Choi matrix 1/d): full rank"""
    return (1 - p) * Jf + p * np.eye(d * d) / d


def _as_given(J):
    """a real-valued Choi matrix is handed over with a real dtype (as a user would), a complex one as complex128"""
    J = np.asarray(J)
    return J.real.copy() if np.iscomplexobj(J) and not np.any(J.imag) else J


def work_cf(task, res: Result):
    from toqito.channel_metrics import channel_fidelity
    warnings.filterwarnings("ignore")
    drv = worker_driver()
    d = task["d"]
    J1, J2 = choi_of(task["K1"]), choi_of(task["K2"])
    if task["full"]:
        J1, J2 = _mix_full(J1, task["p1"], d), _mix_full(J2, task["p2"], d)
    J1, J2 = (J1 + J1.conj().T) / 2, (J2 + J2.conj().T) / 2
    desc = {"fn": "channel_fidelity", "kind": "full-rank" if task["full"] else "rank-deficient", "d": d, "id": task["id"], "kinds": task["kinds"], "J1": J1, "J2": J2, "pres": task.get("pres")}
    P = Presenter(task.get("pres"), res, {k_: v_ for k_, v_ in desc.items() if k_ not in ("J1", "J2")})
    E1, E2 = DM.exact_float(J1), DM.exact_float(J2)
    lo = hi = None
    try:
        sol = solve_cf_ref(E1.to_float(), E2.to_float(), d, d, primal=task["full"])
        lo, hi, why = certify_cf(drv, E1, E2, d, d, sol)
        if task["full"] and (lo is None or hi is None or hi - lo > WIDTH_OK):
            res.count("uncertified/cf/" + ";".join(why)[:70] + ("" if lo is None or hi is None else "wide"))
            lo = None if (lo is None or hi is None or hi - lo > WIDTH_OK) else lo
        if hi is None:
            res.count("uncertified/cf-upper/" + ";".join(why)[:70])
    except Exception as e:  # noqa: BLE001
        res.count("uncertified/cf/ref-solve-failed")
    if lo is not None and hi is not None and lo > hi + 1e-12:
        res.violation("certified lower bound above certified upper bound (checker or harness unsound)", {"function": "cf_bracket", "args": desc, "certified": [lo, hi], "theorem": "cf_bracket"})
        return
    choi_fid = root_fidelity(J1 / d, J2 / d)
    st, v = P.call("main", channel_fidelity, _as_given(J1), _as_given(J2), again=(d == 2), tol=2 * TAU_CF)
    desc["presentation"] = P.last
    nontriv = hi is not None and hi <= 1 - 1e-2 and (lo is None or lo >= 1e-2)
    res.case(desc, nontriv, f"cf/{desc['kind']}/{'-'.join(task['kinds'])}/d{d}/{st}")
    if st == "numfail":
        res.count("solver-numerical-failure")
        return
    if st == "raise":
        res.violation(f"channel_fidelity raises {v} on a pair of channels of dimension {d}", {"function": "channel_fidelity", "args": desc, "exception": v, "local_dim": d})
        return
    bad = False
    if hi is not None and v > hi + TAU_CF:
        bad = True
    if lo is not None and v < lo - TAU_CF:
        bad = True
    if bad:
        res.violation(f"channel_fidelity = {v:.6f} outside the certified optimum [{'-inf' if lo is None else f'{lo:.6f}'}, {hi:.6f}] of the Katariya-Wilde SDP ({desc['kind']}, d={d})",
                      {"function": "channel_fidelity", "args": desc, "impl": v, "certified": [lo, hi], "tau": TAU_CF, "theorem": "checkCfPrimal_sound / checkCfDual_sound / cf_bracket", "local_dim": d,
                       "entrywise_program_value": entrywise_program_value(J1, J2, d)})
        return
    # never exceeds the fidelity of the normalised Choi states (cf_le_choi_fidelity)
    res.count("relation/le-choi-fidelity")
    if v > choi_fid + TAU_CF + CLOSED:
        res.violation(f"channel_fidelity = {v:.6f} exceeds the fidelity of the normalised Choi states {choi_fid:.6f}", {"function": "channel_fidelity", "args": desc, "impl": v, "choi_fidelity": choi_fid, "theorem": "cf_le_choi_fidelity"})
    if hi is not None and lo is not None and lo > choi_fid + CLOSED:
        res.violation("certified channel fidelity exceeds the Choi-state fidelity (harness error)", {"function": "choi_fidelity", "args": desc, "certified": [lo, hi], "choi_fidelity": choi_fid})
    # symmetry (chanFid_symm)
    st2, v2 = P.call("swap", channel_fidelity, _as_given(J2), _as_given(J1))
    if st2 == "ok":
        res.count("relation/cf-symmetry")
        if abs(v - v2) > 2 * TAU_CF:
            res.violation(f"channel_fidelity not symmetric: {v:.6f} vs {v2:.6f}", {"function": "channel_fidelity", "args": desc, "values": [v, v2], "certified": [lo, hi], "theorem": "chanFid_symm", "local_dim": d})
    elif st2 == "raise":
        res.violation(f"channel_fidelity raises {v2} with the arguments exchanged", {"function": "channel_fidelity", "args": desc, "exception": v2, "local_dim": d})
    # equal channels (chanFid_self)
    if task.get("self", True):
        st3, v3 = P.call("self", channel_fidelity, J1, J1.copy())
        if st3 == "ok":
            res.count("relation/cf-self")
            if abs(v3 - 1) > TAU_CF:
                res.violation(f"channel_fidelity(J, J) = {v3:.6f}, expected 1", {"function": "channel_fidelity", "args": dict(desc, J2=J1), "impl": v3, "certified": [1.0, 1.0], "theorem": "chanFid_self", "local_dim": d})
        elif st3 == "raise":
            res.violation(f"channel_fidelity(J, J) raises {v3}", {"function": "channel_fidelity", "args": dict(desc, J2=J1), "exception": v3, "local_dim": d})


def work_cf_dim(task, res: Result):
    """defined for every local dimension: two equal depolarizing channels of dimension d -> 1"""
    from toqito.channel_metrics import channel_fidelity
    from toqito.channels import depolarizing
    warnings.filterwarnings("ignore")
    d = task["d"]
    J = np.asarray(depolarizing(d), dtype=complex)
    desc = {"fn": "channel_fidelity", "kind": "depolarizing-pair", "d": d, "pres": task.get("pres")}
    st, v = Presenter(task.get("pres"), res, desc).call("main", channel_fidelity, _as_given(J), _as_given(J))
    res.case(desc, True, f"cf/depolarizing-pair/d{d}/{st}")
    if st == "raise":
        res.violation(f"channel_fidelity raises {v} on two depolarizing channels of local dimension {d} (expected 1.0)", {"function": "channel_fidelity", "args": desc, "exception": v, "local_dim": d, "theorem": "chanFid_self"})
    elif st == "ok" and abs(v - 1) > TAU_CF:
        res.violation(f"channel_fidelity of two equal depolarizing channels of dimension {d} = {v:.6f}, expected 1", {"function": "channel_fidelity", "args": desc, "impl": v, "certified": [1.0, 1.0], "local_dim": d, "theorem": "chanFid_self"})


def work_fos(task, res: Result):
    """channel fidelity of separability of a pure tripartite product state is 1"""
    from toqito.channel_metrics import fidelity_of_separability
    warnings.filterwarnings("ignore")
    vs, dims, k = task["vecs"], task["dims"], task["k"]
    v = vs[0]
    for w in vs[1:]:
        v = np.kron(v, w)
    rho = np.outer(v, v.conj())
    desc = {"fn": "fidelity_of_separability", "dims": dims, "k": k, "vecs": vs, "pres": task.get("pres")}
    st, val = Presenter(task.get("pres"), res, desc).call("main", fidelity_of_separability, rho, list(dims), k)
    res.case(desc, True, f"fos/{'x'.join(map(str, dims))}/k{k}/{st}")
    if st == "numfail":
        res.count("solver-numerical-failure")
    elif st == "raise":
        res.violation(f"channel fidelity_of_separability raises {val} on a pure product state", {"function": "fidelity_of_separability", "args": desc, "exception": val})
    elif abs(val - 1) > TAU_CB * 5:
        res.violation(f"channel fidelity_of_separability of a pure product state = {val:.8f}, expected 1", {"function": "fidelity_of_separability", "args": desc, "impl": val, "theorem": "property statement (product state: the identity extension attains 1)"})


# ------------------------------------------------------------------------------------------------


def install_matchers(ctx):
    def cp_shortcut(info):
        return (info.get("function") in ("completely_bounded_trace_norm", "completely_bounded_spectral_norm") and info.get("cp_non_tp") is True
                and "impl" in info and abs(info["impl"] - info["trace_of_ptr"]) <= 1e-6 and "certified" in info
                and abs(info["certified"][0] - info["lam_max"]) <= 1e-4 and abs(info["certified"][1] - info["lam_max"]) <= 1e-4)

    ctx.matchers["c20-cb-cp-shortcut-trace-norm"] = cp_shortcut


def run(ctx, model_ok=True):
    rng = ctx.rng
    quick = ctx.tier == "quick"
    install_matchers(ctx)
    # corpus first: the library's own pinned example Choi = 1_4 (X -> tr(X) 1, cb norm 2) goes through the CP branch
    cb_tasks = [{"d": 2, "kind": "cp", "id": -1, "K": [np.array([[1, 0], [0, 0]], dtype=complex), np.array([[0, 1], [0, 0]], dtype=complex),
                                                         np.array([[0, 0], [1, 0]], dtype=complex), np.array([[0, 0], [0, 1]], dtype=complex)]},
                {"d": 2, "kind": "cp", "id": -2, "K": [np.sqrt(2) * np.eye(2, dtype=complex)]}]
    # trace-preserving maps that are not completely positive (the cb norm of a trace-preserving map is 1 only when it is CP):
    # the transpose map (Choi = SWAP, cb trace norm d) and affine combinations (1+a) Phi_1 - a Phi_2 of channels
    for d in (2, 3):
        sw = np.zeros((d * d, d * d), dtype=complex)
        for a in range(d):
            for b in range(d):
                sw[a * d + b, b * d + a] = 1.0
        cb_tasks.append({"d": d, "kind": "herm", "id": -10 - d, "J": sw, "c_real": -0.5, "c_cplx": complex(1.0, 1.5)})
    Zk = [np.diag([1.0, -1.0]).astype(complex)]
    Xk = [np.array([[0, 1], [1, 0]], dtype=complex)]
    Ik = [np.eye(2, dtype=complex)]
    cb_tasks.append({"d": 2, "kind": "herm", "id": -20, "J": 2 * choi_of(Ik) - choi_of(Zk), "c_real": 2.0, "c_cplx": complex(-0.5, 1.0)})
    cb_tasks.append({"d": 2, "kind": "herm", "id": -21, "J": 1.5 * choi_of(Xk) - 0.5 * choi_of(Zk), "c_real": -3.0, "c_cplx": complex(1.0, 0.5)})
    n_cb = 64 if quick else 480
    for i in range(n_cb):
        cb_tasks.append(gen_cb_task(rng, i, quick))
    prs = rng.spawn(1)[0]   # presentation stream: a child of the seeded generator (spawning does not consume the parent's draws)

    def seeded(tasks):
        for t in tasks:
            t["pres"] = int(prs.integers(1, 2 ** 31))
        return tasks
    run_pool(ctx, work_cb, seeded(cb_tasks))
    rect = []
    for i in range(6 if quick else 40):
        dX, dY = [(2, 3), (3, 2), (2, 4), (1, 3), (3, 1), (2, 1)][i % 6]
        r = max(2, -(-dX // dY))
        rect.append({"dX": dX, "dY": dY, "r": r, "V1": qgen.cayley_unitary(rng, dY * r, True, lim=2)[:, :dX], "V2": qgen.cayley_unitary(rng, dY * r, True, lim=2)[:, :dX]})
    run_pool(ctx, work_model_only, rect)
    cf_tasks = [gen_cf_task(rng, i, quick) for i in range(30 if quick else 240)]
    for i in range(3 if quick else 24):
        t = gen_cf_task(rng, 1000 + i, quick, d=3)
        t["self"] = False
        t["full"] = True
        cf_tasks.insert(0, t)
    # mixed dtypes in both argument orders: a real Choi matrix (identity channel, real rotation, dephasing-type mixture of
    # real unitaries) against a genuinely complex one
    for i in range(4 if quick else 24):
        d = 2 if i % 3 else 3
        th = [0.0, 0.6435011087932844, 0.9272952180016122][i % 3]          # angles with rational sin/cos (3-4-5 triangles)
        R = np.eye(d, dtype=complex)
        R[:2, :2] = np.array([[np.cos(th), -np.sin(th)], [np.sin(th), np.cos(th)]])
        U = np.diag(np.exp(1j * np.pi * np.array([0, 0.5, 0.25][:d]) * (1 + i % 2))).astype(complex)
        t = {"d": d, "id": 2000 + i, "K1": [R.real.astype(float)], "K2": [qgen.cayley_unitary(rng, d, True, lim=2) if i % 2 else U],
             "kinds": ["real-unitary", "complex-unitary"], "full": False, "p1": 0.25, "p2": 0.25}
        cf_tasks.insert(0, t)
    run_pool(ctx, work_cf, seeded(cf_tasks))
    run_pool(ctx, work_cf_dim, seeded([{"d": 5}] + ([] if quick else [{"d": 6}])))
    fos = []
    for i in range(3 if quick else 12):
        dims = [2, 2, 2]
        vecs = [qgen.unit(qgen.int_vector(rng, dd, True, lim=3)) for dd in dims]
        fos.append({"vecs": vecs, "dims": dims, "k": 2})
    fos.append({"vecs": [qgen.unit(qgen.int_vector(rng, 2, True, lim=3)) for _ in range(3)], "dims": [2, 2, 2], "k": 1})
    for dims, k in [[[3, 2, 2], 2], [[2, 2, 3], 2], [[2, 3, 2], 1]] + ([] if quick else [[[3, 2, 2], 2], [[2, 3, 3], 1], [[2, 2, 3], 2]]):
        fos.append({"vecs": [qgen.unit(qgen.int_vector(rng, dd, True, lim=3)) for dd in dims], "dims": dims, "k": k})   # unequal local dimensions
    run_pool(ctx, work_fos, seeded(fos))
    ctx.extra["tolerances"] = {"cb": TAU_CB, "channel_fidelity": TAU_CF, "closed_forms": CLOSED}
    ctx.extra["certified_interval_width_bound"] = WIDTH_OK


def _arr(s):
    def conv(e):
        return complex(e["re"], e["im"]) if isinstance(e, dict) else e
    return np.array([[conv(e) for e in row] for row in s], dtype=complex)


def replay(ctx, rec):
    """re-evaluate the recorded call on the recorded Choi matrices and re-certify"""
    from toqito.channel_metrics import channel_fidelity, completely_bounded_spectral_norm, completely_bounded_trace_norm, diamond_distance
    install_matchers(ctx)
    warnings.filterwarnings("ignore")
    a = rec["args"]
    fn = rec["function"]
    d = a.get("d", 2)
    res = Result()
    drv = ctx.lean()
    P = Presenter(a.get("pres"), res, {k_: v_ for k_, v_ in a.items() if k_ not in ("J1", "J2", "J")})   # the recorded presentation seed reproduces the presentation of the main call
    if fn == "channel_fidelity" and "J1" in a:
        J1, J2 = _arr(a["J1"]), _arr(a["J2"])
        st, v = P.call("main", channel_fidelity, _as_given(J1), _as_given(J2))
        lo = hi = None
        try:
            sol = solve_cf_ref(J1, J2, d, d, primal=a.get("kind") == "full-rank")
            lo, hi, _ = certify_cf(drv, DM.exact_float(J1), DM.exact_float(J2), d, d, sol)
        except Exception:  # noqa: BLE001
            pass
        res.case(a, True, "replay/cf")
        if st != "ok" or (hi is not None and v > hi + TAU_CF) or (lo is not None and v < lo - TAU_CF):
            res.violation(f"replay: channel_fidelity -> {v} vs certified [{lo}, {hi}]", {"function": fn, "args": a, "impl": v if st == "ok" else None, "exception": v if st != "ok" else None, "certified": [lo, hi], "local_dim": d,
                                                                                                  "entrywise_program_value": entrywise_program_value(J1, J2, d)})
    elif fn == "channel_fidelity":
        work_cf_dim({"d": a.get("d", 5)}, res)
    elif fn in ("completely_bounded_trace_norm", "completely_bounded_spectral_norm") and "J" in a:
        J = _arr(a["J"])
        Jeff = dual_choi(J, d, d) if fn.endswith("spectral_norm") else J
        f = completely_bounded_spectral_norm if fn.endswith("spectral_norm") else completely_bounded_trace_norm
        st, v = P.call("spectral" if fn.endswith("spectral_norm") else "main", f, J)
        lo, hi = _cb_interval(drv, res, Jeff, d, d, "replay")
        res.case(a, True, "replay/cb")
        if st != "ok" or (lo is not None and not (lo - TAU_CB <= v <= hi + TAU_CB)):
            T = Jeff.reshape(d, d, d, d).trace(axis1=1, axis2=3)
            res.violation(f"replay: {fn} -> {v} vs certified [{lo}, {hi}]", {"function": fn, "args": a, "impl": v if st == "ok" else None, "certified": [lo, hi],
                                                                              "cp_non_tp": is_psd(Jeff) and np.max(np.abs(T - np.eye(d))) >= 1e-6, "trace_of_ptr": float(np.real(np.trace(T))),
                                                                              "lam_max": float(np.max(np.linalg.eigvalsh((T + T.conj().T) / 2)))})
    elif fn == "diamond_distance" and "J1" in a:
        J1, J2 = _arr(a["J1"]), _arr(a["J2"])
        st, v = P.call("main", diamond_distance, J1, J2)
        lo, hi = _cb_interval(drv, res, J1 - J2, d, d, "replay")
        res.case(a, True, "replay/diamond")
        if st != "ok" or (lo is not None and not (lo - TAU_CB <= v <= hi + TAU_CB)):
            res.violation(f"replay: diamond_distance -> {v} vs certified [{lo}, {hi}]", {"function": fn, "args": a, "impl": v if st == "ok" else None, "certified": [lo, hi]})
    else:
        ctx.note("replay: record kind not replayable individually; rerun the check with the recorded seed")
    fold(ctx, res)
