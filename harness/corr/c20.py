"""C20: completely_bounded_trace_norm / diamond_distance / completely_bounded_spectral_norm / channel_fidelity (and the channel
fidelity_of_separability) against certified intervals and the closed forms / relations the property states.

Per instance the exact dyadic image of the float Choi matrix handed to toqito defines the instance.  Primal and dual certificate
candidates come from an independent (untrusted) cvxpy solve, are rounded and repaired exactly and are accepted only by the verified
Lean checkers (`checkCbPrimal/Dual`, `checkCfPrimal/Dual`; theorems `checkCb*_sound`, `cb_bracket`, `checkCf*_sound`, `cf_bracket` in
lean/Toq/Properties/C20.lean): `lo <= optimum <= hi`.  toqito's value must lie in [lo - tau, hi + tau].  Relations between values of the
implementation (symmetry, homogeneity, unitary invariance, closed forms) are checked with the same slack; each has its theorem
(`diamond_symm`, `cb_homogeneous`, `diamond_unitary_invariant`, `cb_channel_one`, `cb_cp_eq`, `diamond_le_two`, `chanFid_symm`,
`chanFid_self`, `cf_le_choi_fidelity`, `chanFid_le_choi_fidelity`, `diamond_choi_bounds`, `diamond_two_unitaries_closed_form`).

Streams `paths` / `embedding` (no program is solved by toqito there; `Problem.solve` of picos and cvxpy is replaced by a recorder): the code
around the programs -- guards, the `return 1` and CP shortcuts, the inferred subsystem dimension, `dual_channel`, the solver arguments -- is
compared with the Lean mirror `Toq.Model.ChanMetricsPath` (`cbPath`, `cpShortcutAsCoded`, `dualChoiE`, `cfPath`; theorems `cbPath_*`, `cfPath_*`,
`cbSpectral_model`) on exact dyadic inputs whose predicate verdicts are certified exactly (PSD factor / negative witness); the programs the code
builds (also the one of the channel fidelity_of_separability: streams fos-program / fos-guards, mirror `Toq.Model.ChanMetricsFos`, theorems `fos_*`) are evaluated at exact points of the modelled programs (certified by the verified checkers) and at negative controls: constraint matrices
must equal the model's `cbDualBlock` / `cfPrimalBlock` / `cfLoewnerSlack` entrywise, the picos objective must be `||Tr_Y Y0|| + ||Tr_Y Y1||` of the
model's partial traces.  A captured problem with other variables / constraint kinds than the modelled one raises `CorrespondenceBroken`; so does a call
that leaves the modelled path (guard, shortcut, solver arguments) while the value it returns is still inside the certified optimum -- a value outside
the certified optimum is a failing input (theorem `cb_bracket`)."""
from __future__ import annotations

import warnings
from fractions import Fraction

import numpy as np

from ..cert import DM, chol_factor, frac_json
from ..common import CorrespondenceBroken
from ..exact import Pure, call_rng, describe, present_nd, strict_fp_call
from ..pool import Result, run_pool, worker_driver, fold
from .. import qgen

RULE = ("qubit and qutrit maps given by Choi matrices built from exact data by the seeded generator: unitary channels (Cayley-rational unitaries, "
        "Choi matrix through toqito's kraus_to_choi), mixtures of unitaries with dyadic weights, random CPTP maps from Stinespring isometries "
        "(columns of a rational unitary, Kraus rank 2..dX*dY), their differences, random Hermitian (Hermiticity-preserving, non-CP) maps, CP non-TP "
        "maps, complex multiples; per instance the Lean checkers certify [lo, hi] for the exact dyadic image of the float Choi matrix and "
        "toqito's value must lie within tau; plus relations (symmetry, zero, <=2, Choi trace-norm bounds, two-unitary closed form, unitary "
        "invariance, homogeneity, channel = 1, CP = ||Phi*(1)||, dual map, fidelity symmetric/=1/<= Choi fidelity/dimension 5, product states). "
        "non-trivial = certified interval narrower than 1e-4 and the optimum >= 1e-2 away from the trivial values (0 and 2 for the diamond "
        "distance of channels, 0 and 1 for the channel fidelity), or a relation evaluated on such an instance; distinct = hash of the instance and call form; "
        "stream maps (diamond_distance on pairs of linear maps that are not both channels): c*Phi_U against c*Phi_V (c in {3, 5/2, 2, 3/2}; closed form |c| 2 sqrt(1-delta^2)), c1*Phi_1 against c2*Phi_2 for "
        "channels of every kind and c in {3, 5/2, 2, 3/2, 1}, pairs of random Hermitian Choi matrices (entries (a+bi)/2, |a|,|b| <= 4, Hermitian part), a completely positive non-trace-preserving map "
        "(Kraus entries (a+bi)/2) against a channel in both orders, d = 2, 3, with the difference indefinite (both extreme eigenvalues 0.05 away from 0); corpus 3*id vs 3*X (6), 2*id vs X (3), 3*id vs 3*shift on the "
        "qutrit (6); demanded: the value inside the certified interval of cbNorm(J1 - J2), inside [||J1 - J2||_1/d, ||J1 - J2||_1], symmetric, zero on equal arguments, equal to completely_bounded_trace_norm(J1 - J2); "
        "non-trivial = certified optimum >= 2.01 (further apart than any two channels); "
        "presentation: every call of a toqito function receives the same values in a freshly drawn presentation per array argument (C / Fortran / strided memory "
        "layout; real-valued Choi matrices as float64, integer-valued ones also as int64; real/complex pairs in both argument orders); the arrays handed over must "
        "be untouched afterwards; the main diamond_distance / channel_fidelity / completely_bounded_trace_norm call is repeated on the same objects for one qubit task in "
        "four and must return the same value; "
        "streams paths/embedding: exact dyadic Choi matrices (mixtures with weights w^2, w dyadic, of phased permutation unitaries and reset channels; CP maps with Kraus entries (a+bi)/2; "
        "their affine combinations, the transpose map, random dyadic Hermitian matrices with smallest eigenvalue <= -0.05; non-square arrays), call forms completely_bounded_trace_norm(J) / (J, 'cvxopt') / "
        "(J, solver='cvxopt', abs_prim_fsb_tol=1e-9), diamond_distance(J1, J2) (also J1 = J2), completely_bounded_spectral_norm(J); channel_fidelity on full-rank mixtures with eps in {default, 1e-5, 1e-6}, "
        "shapes d^2 x d^2 for d = 2..7 and mismatching / non-square shapes; a paths case is non-trivial when the model's verdicts are decided (never 'undecided'), an embedding case when the verified checker "
        "accepted the point (certified feasible) or the point is a negative control; "
        "streams fos-program/fos-guards: pure product states b (x) a (x) r of exactly rational unit vectors with complex amplitudes (pool: Gaussian integer vectors, entries |re|,|im| <= 3 (d=2) / 2 (d=3), squared norm a "
        "perfect square, at least two non-zero entries), psi_dims in {[2,2,2],[2,2,3],[2,3,2],[3,2,2]} (thorough also [3,3,2],[2,3,3]), levels k = 1, 2 (thorough 3), four call forms (k positional / keyword, solver_option and "
        "verbosity_option given or not); points: the feasible point of fos_feasible_product, a random Hermitian point with entries in Z[i]/4, controls trace-doubled / not-psd / not-symmetric (k >= 2) / not-ppt (k = 1, dR <= dA); "
        "guards: trace 3/4, 2 psi - psi', a non-Hermitian perturbation, two and four dimensions, the maximally mixed state, a 9/25 : 16/25 mixture, and combinations with a wrong number of dimensions; every case non-trivial "
        "(a guards case when the model's verdicts are decided). "
        "Wave-5 hardening: stream cf/sequence - on local dimensions 6 and 7 (Choi matrices of 1296 / 2401 entries) the calls F(a,a), F(a,b), F(b,a) in one process for a / b = p * (identity | phase flip of one "
        "middle level) + (1-p) * completely depolarising, p in {1/4, 1/2, 3/4}, either channel first, real or complex dtype: F(a,a) = 1, F(a,b) <= fidelity of the normalised Choi states, symmetric; "
        "stream strict-fp - diamond_distance (equal channels, pairs), channel_fidelity (equal channels), completely_bounded_trace_norm (zero map, differences, Hermitian maps, CP maps, channels) and "
        "completely_bounded_spectral_norm evaluated a second time with NumPy's error state set to raise for invalid / divide / overflow (harness.exact.strict_fp_call): same value as in the default state")
ASSUMPTIONS = [
    "toqito computes with the float Choi matrices it is given; the instance certified is their exact dyadic image (J1 - J2 is the float difference, exact image taken after the subtraction)",
    "tolerance 2e-5 on picos/CVXOPT-solved values (completely_bounded_trace_norm and callers); 1e-3 on channel_fidelity: SCS is called with eps=1e-7 but stops at its iteration limit "
    "('solved (inaccurate - reached max_iters)') with errors around 3e-4 on the library's own examples, so the 1e-5 tolerance for tight-eps SCS does not apply",
    "composition with a rational unitary channel is carried out in float on the Kraus operators (error 1e-15, the cb norm is 1-Lipschitz in the trace norm of the Choi matrix)",
    "closed forms evaluated in float by the harness (trace norm and fidelity through numpy eigendecompositions, convex-hull distance of unit-circle eigenvalues): tolerance 1e-7 on top of tau",
    "two-unitary closed form 2 sqrt(1 - delta^2): proved for every pair of unitaries (diamond_two_unitaries_closed_form; the unitary diagonalisation of U^H V comes from exists_unitary_diagonalisation); "
    "the harness evaluates delta in float from numpy eigenvalues (convex-hull distance of unit-circle points through the largest angular gap)",
    "'never exceeds the fidelity of the normalised Choi states' is proved against the fidelity program of C13 (chanFid_le_choi_fidelity, closed form via fidV_eq_docFid); the harness evaluates the closed form in float",
    "supported solvers: picos offers cvxopt and osqp in this environment and only cvxopt solves semidefinite programs, so 'every supported solver' of completely_bounded_trace_norm (and of fidelity_of_separability) "
    "is cvxopt, given by default, positionally and by keyword; channel_fidelity fixes cvxpy's SCS itself and takes only eps; the paths stream checks that the solver name and further solver options reach Problem.solve",
    "paths/embedding streams: the model's verdicts for is_completely_positive / is_trace_preserving are exact (PSD factor with zero residual, exact partial trace, negative witness with margin 100*(atol + rtol*scale)); "
    "inputs within tolerance of a branch boundary are not generated; a captured constraint matrix must agree with the model's to 1e-12 relative (both are float images of the same exact affine expression), "
    "a negative control must violate some captured constraint by 1e-3",
    "a call that leaves the modelled code path is a failing input only when the value it returns is outside the certified optimum of the exact instance (or it raises on a valid input); otherwise it is reported as a broken "
    "correspondence (CorrespondenceBroken: rejected malformed shapes, a shortcut taken or not taken with the right value, solver arguments not reaching Problem.solve); a constraint matrix / objective of a captured program that "
    "differs from the model's at an exact point, an accepted negative control and a rejected certified point are failing inputs (the point)",
    "the CP shortcut is mirrored AS CODED (it returns tr J; cpShortcutAsCoded_toC), so the paths stream agrees with the code there while the certified-interval stream reports the known finding c20-cb-cp-shortcut-trace-norm",
    "channel fidelity of separability: the optimum of the program the function builds is proved to be exactly 1 for every pure product state, every level k >= 1 and all local dimensions "
    "(fos_feasible_product, fos_obj_product, fos_obj_le_one, fos_optimum_product, fos_product_eq_one) for the index-tuple form of the program; the executable mirror "
    "Toq.Model.ChanMetricsFos.exprs (flattened indices: mirrors of permute_systems / symmetric_projection, specifications of picos' partial trace / partial transpose) is identified with that form (transcribed to flattened indices: Toq.Model.ChanMetricsFos.tupleExprs, exact equality of every expression, evaluated by the driver) and with the "
    "picos problem the code builds by the stream fos-program only (every captured expression equals the mirror's entrywise to 1e-12 relative at the exact feasible point, at random exact Hermitian points and at "
    "negative controls; the mirror's residuals at the feasible point are exactly 0 and its objective exactly 1); the solved-value stream (value 1 within 1e-4) additionally trusts CVXOPT",
    "fos-program: states are products of exactly rational unit vectors (Gaussian integer vectors whose squared norm is a perfect square), so the state, the feasible point 1 (x) (a a^H)^(x)k and the psd certificate of the "
    "density guard are exact; the recording solver reports the proved optimum 1 and the function must return 1 (with the value 0.8125 it must return 0.625 = the mirrored return line, correspondence only); "
    "a captured constraint at the float image of the exact feasible point may be off by 1e-9, the captured objective there by 1e-12; a negative control must violate a captured constraint by 1e-3",
    "fos-guards: which guard fires is compared with the model's cascade on exact verdicts (fosPath_program_iff, fosPath_errors, fos_verdicts_sound); a different rejection of a rejected input is a broken correspondence "
    "(rejections are outside the property's quantifier), a rejected pure product state with three dimensions is a failing input; psi_dims whose product is not the size of psi is not generated (permute_systems rejects it)",
    "channel fidelity: the program certified is Katariya-Wilde Prop. 50 with the Loewner order on the Hermitian part of Tr_Y Q; a primal certificate (lower bound) needs J1, J2 > 0, "
    "so lower bounds are certified only for full-rank Choi matrices; rank-deficient pairs get the upper bound only",
    "dX != dY maps are certified by the Lean checkers only (the toqito functions take no dimension argument and assume dX = dY)",
]
TAU_CB = 2e-5
TAU_CF = 1e-3
WIDTH_OK = 1e-4
CLOSED = 1e-7


# ------------------------------------------------------------------------------------------------
# exact helpers (complex dyadic matrices)


def dm_zero(n, m=None):
    m = n if m is None else m
    z = np.zeros((n, m), dtype=object)
    z[...] = 0
    return DM(z, z.copy(), 0)


def dm_neg(A: DM) -> DM:
    return DM(-A.re, -A.im, A.e)


def dm_kron_I(rho: DM, dY: int) -> DM:
    """rho (x) 1_Y with index x*dY + y"""
    dX = rho.re.shape[0]
    N = dX * dY
    re = np.zeros((N, N), dtype=object)
    im = np.zeros((N, N), dtype=object)
    re[...] = 0
    im[...] = 0
    for a in range(dX):
        for b in range(dX):
            for y in range(dY):
                re[a * dY + y, b * dY + y] = rho.re[a, b]
                im[a * dY + y, b * dY + y] = rho.im[a, b]
    return DM(re, im, rho.e)


def dm_ptr(A: DM, dX: int, dY: int) -> DM:
    """Tr_Y"""
    re = np.zeros((dX, dX), dtype=object)
    im = np.zeros((dX, dX), dtype=object)
    re[...] = 0
    im[...] = 0
    for a in range(dX):
        for b in range(dX):
            re[a, b] = sum(int(A.re[a * dY + y, b * dY + y]) for y in range(dY))
            im[a, b] = sum(int(A.im[a * dY + y, b * dY + y]) for y in range(dY))
    return DM(re, im, A.e)


def dm_block(A: DM, B: DM, C: DM, D: DM) -> DM:
    e = max(A.e, B.e, C.e, D.e)
    A, B, C, D = A.at(e), B.at(e), C.at(e), D.at(e)
    return DM(np.block([[A.re, B.re], [C.re, D.re]]), np.block([[A.im, B.im], [C.im, D.im]]), e)


def dm_fix_trace(rho: DM) -> DM:
    """add (1 - tr rho) to the (0,0) entry (exact)"""
    one = 1 << rho.e
    t = sum(int(rho.re[i, i]) for i in range(rho.re.shape[0]))
    re = rho.re.copy()
    re[0, 0] = int(re[0, 0]) + (one - t)
    return DM(re, rho.im.copy(), rho.e)


def dm_density(rho_f, eps_bits, bits=40) -> DM:
    """exact density operator close to the float one: (1 - eps) herm(rho) + eps 1/d, trace fixed exactly"""
    d = rho_f.shape[0]
    R = DM.from_float((rho_f + rho_f.conj().T) / 2, bits).herm_part()
    R = R.scale_dy((1 << eps_bits) - 1, eps_bits) + DM.eye(d).scale_dy((1 << 30) // d, 30 + eps_bits)
    return dm_fix_trace(R)


def dyadic_up(x: float, bits=40) -> Fraction:
    return Fraction(int(np.ceil(x * (1 << bits))), 1 << bits)


def dyadic_down(x: float, bits=40) -> Fraction:
    return Fraction(int(np.floor(x * (1 << bits))), 1 << bits)


def ok_val(r):
    return r["ok"][0] / r["ok"][1] if "ok" in r else None


# ------------------------------------------------------------------------------------------------
# untrusted reference solves (cvxpy)


def _solve(prob):
    import cvxpy as cp
    last = None
    for kw in (dict(solver=cp.CLARABEL), dict(solver=cp.SCS, eps=1e-9, max_iters=50000)):
        try:
            prob.solve(**kw)
            if prob.status in ("optimal", "optimal_inaccurate") and all(v.value is not None for v in prob.variables()):
                return
        except Exception as e:  # noqa: BLE001
            last = e
    raise RuntimeError(f"reference solve failed: {last}")


def solve_cb_ref(Jf, dX, dY):
    """Watrous' primal and dual for the float Choi matrix: returns dict of float arrays"""
    import cvxpy as cp
    N = dX * dY
    IY = np.eye(dY)
    r0 = cp.Variable((dX, dX), hermitian=True)
    r1 = cp.Variable((dX, dX), hermitian=True)
    Z = cp.Variable((2 * N, 2 * N), hermitian=True)
    cons = [Z >> 0, r0 >> 0, r1 >> 0, cp.real(cp.trace(r0)) == 1, cp.real(cp.trace(r1)) == 1,
            Z[:N, :N] == cp.kron(r0, IY), Z[N:, N:] == cp.kron(r1, IY)]
    X = Z[:N, N:]
    pr = cp.Problem(cp.Maximize(cp.real(cp.trace(Jf.conj().T @ X))), cons)
    _solve(pr)
    out = {"rho0": np.array(r0.value), "rho1": np.array(r1.value), "X": np.array(Z.value)[:N, N:], "pval": float(pr.value)}
    W = cp.Variable((2 * N, 2 * N), hermitian=True)
    T0 = cp.Variable((dX, dX), hermitian=True)
    T1 = cp.Variable((dX, dX), hermitian=True)
    t0 = cp.Variable()
    t1 = cp.Variable()
    cons = [W >> 0, W[:N, N:] == -Jf, T0 == cp.partial_trace(W[:N, :N], (dX, dY), axis=1), T1 == cp.partial_trace(W[N:, N:], (dX, dY), axis=1),
            t0 * np.eye(dX) - T0 >> 0, t1 * np.eye(dX) - T1 >> 0]
    du = cp.Problem(cp.Minimize((t0 + t1) / 2), cons)
    _solve(du)
    Wv = np.array(W.value)
    out.update({"Y0": Wv[:N, :N], "Y1": Wv[N:, N:], "dval": float(du.value)})
    return out


def solve_cf_ref(J1f, J2f, dX, dY, primal=True):
    import cvxpy as cp
    N = dX * dY
    out = {}
    if primal:
        Z = cp.Variable((2 * N, 2 * N), hermitian=True)
        T = cp.Variable((dX, dX), hermitian=True)
        lam = cp.Variable()
        Q = Z[N:, :N]
        PT = cp.partial_trace(Q, (dX, dY), axis=1)
        cons = [Z >> 0, Z[:N, :N] == J1f, Z[N:, N:] == J2f, T == (PT + PT.H) / 2, T - lam * np.eye(dX) >> 0]
        pr = cp.Problem(cp.Maximize(lam), cons)
        _solve(pr)
        out.update({"Q": np.array(Z.value)[N:, :N], "lam": float(lam.value)})
    rho = cp.Variable((dX, dX), hermitian=True)
    W = cp.Variable((2 * N, 2 * N), hermitian=True)
    cons = [W >> 0, rho >> 0, cp.real(cp.trace(rho)) == 1, W[:N, N:] == -cp.kron(rho, np.eye(dY))]
    du = cp.Problem(cp.Minimize(0.5 * cp.real(cp.trace(J1f @ W[:N, :N]) + cp.trace(J2f @ W[N:, N:]))), cons)
    _solve(du)
    Wv = np.array(W.value)
    out.update({"rho": np.array(rho.value), "W0": Wv[:N, :N], "W1": Wv[N:, N:], "dval": float(du.value)})
    return out


def entrywise_program_value(J1f, J2f, d):
    """optimum of the program exactly as written in channel_fidelity.py (entrywise `<=` on the entrywise real part of Tr_Y Q), solved
    independently with CLARABEL: evidence that a value outside the certified interval is the optimum of that other program"""
    import cvxpy as cp
    from toqito.channels import partial_trace
    N = d * d
    lam = cp.Variable(nonneg=True)
    q = cp.Variable((N, N), complex=True)
    cons = [cp.bmat([[J1f, q.H], [q, J2f]]) >> 0, lam * np.identity(d) <= cp.real(partial_trace(q, [1], [d, d]))]
    pr = cp.Problem(cp.Maximize(lam), cons)
    try:
        return float(pr.solve(solver=cp.CLARABEL))
    except Exception:  # noqa: BLE001
        return None


# ------------------------------------------------------------------------------------------------
# exact repair + Lean verdicts


def certify_cb(drv, J: DM, dX, dY, sol, eps_bits=20):
    """returns (lo, hi, why) — lo/hi floats or None — from the verified checkers"""
    N = dX * dY
    why = []
    lo = hi = None
    try:
        r0 = dm_density(sol["rho0"], eps_bits)
        r1 = dm_density(sol["rho1"], eps_bits)
        X = DM.from_float(sol["X"], 40).scale_dy((1 << eps_bits) - 1, eps_bits)
        blk = dm_block(dm_kron_I(r0, dY), X, X.H(), dm_kron_I(r1, dY))
        Lb, L0, L1 = chol_factor(blk.to_float()), chol_factor(r0.to_float()), chol_factor(r1.to_float())
        if Lb is None or L0 is None or L1 is None:
            why.append("primal:cholesky")
        else:
            r = drv.ask("c20_cb_primal", {"dX": dX, "dY": dY, "J": J.json(), "rho0": r0.json(), "rho1": r1.json(), "X": X.json(),
                                          "Lb": Lb.json(), "L0": L0.json(), "L1": L1.json()})
            lo = ok_val(r)
            if lo is None:
                why.append("primal:" + r["reject"])
    except KeyError:
        why.append("primal:no-candidate")
    try:
        eta = DM.eye(N).scale_dy(1, 22)
        Y0 = DM.from_float((sol["Y0"] + sol["Y0"].conj().T) / 2, 40).herm_part() + eta
        Y1 = DM.from_float((sol["Y1"] + sol["Y1"].conj().T) / 2, 40).herm_part() + eta
        blk = dm_block(Y0, dm_neg(J), dm_neg(J.H()), Y1)
        T0, T1 = dm_ptr(Y0, dX, dY), dm_ptr(Y1, dX, dY)
        c0 = dyadic_up(float(np.max(np.linalg.eigvalsh(T0.to_float()))) + 2.0 ** -24)
        c1 = dyadic_up(float(np.max(np.linalg.eigvalsh(T1.to_float()))) + 2.0 ** -24)
        Lb = chol_factor(blk.to_float())
        L0 = chol_factor(float(c0) * np.eye(dX) - T0.to_float())
        L1 = chol_factor(float(c1) * np.eye(dX) - T1.to_float())
        if Lb is None or L0 is None or L1 is None:
            why.append("dual:cholesky")
        else:
            r = drv.ask("c20_cb_dual", {"dX": dX, "dY": dY, "J": J.json(), "Y0": Y0.json(), "Y1": Y1.json(), "c0": frac_json(c0), "c1": frac_json(c1),
                                        "Lb": Lb.json(), "L0": L0.json(), "L1": L1.json()})
            hi = ok_val(r)
            if hi is None:
                why.append("dual:" + r["reject"])
    except KeyError:
        why.append("dual:no-candidate")
    return lo, hi, why


def certify_cf(drv, J1: DM, J2: DM, dX, dY, sol):
    N = dX * dY
    why = []
    lo = hi = None
    if "Q" in sol:
        eps_bits = 16
        Q = DM.from_float(sol["Q"], 40).scale_dy((1 << eps_bits) - 1, eps_bits)
        blk = dm_block(J1, Q.H(), Q, J2)
        T = dm_ptr(Q, dX, dY).herm_part()
        lam = dyadic_down(float(np.min(np.linalg.eigvalsh(T.to_float()))) - 2.0 ** -24)
        Lb = chol_factor(blk.to_float())
        Lc = chol_factor(T.to_float() - float(lam) * np.eye(dX))
        if lam < 0:
            why.append("primal:negative")
        elif Lb is None or Lc is None:
            why.append("primal:cholesky")
        else:
            r = drv.ask("c20_cf_primal", {"dX": dX, "dY": dY, "J1": J1.json(), "J2": J2.json(), "Q": Q.json(), "lam": frac_json(lam), "Lb": Lb.json(), "Lc": Lc.json()})
            lo = ok_val(r)
            if lo is None:
                why.append("primal:" + r["reject"])
    else:
        why.append("primal:rank-deficient")
    rho = dm_density(sol["rho"], 20)
    eta = DM.eye(N).scale_dy(1, 18)
    W0 = DM.from_float((sol["W0"] + sol["W0"].conj().T) / 2, 40).herm_part() + eta
    W1 = DM.from_float((sol["W1"] + sol["W1"].conj().T) / 2, 40).herm_part() + eta
    K = dm_kron_I(rho, dY)
    blk = dm_block(W0, dm_neg(K), dm_neg(K), W1)
    Lb, Lr = chol_factor(blk.to_float()), chol_factor(rho.to_float())
    if Lb is None or Lr is None:
        why.append("dual:cholesky")
    else:
        r = drv.ask("c20_cf_dual", {"dX": dX, "dY": dY, "J1": J1.json(), "J2": J2.json(), "rho": rho.json(), "W0": W0.json(), "W1": W1.json(), "Lrho": Lr.json(), "Lb": Lb.json()})
        hi = ok_val(r)
        if hi is None:
            why.append("dual:" + r["reject"])
    return lo, hi, why


# ------------------------------------------------------------------------------------------------
# float closed forms


def trace_norm_h(A):
    return float(np.sum(np.abs(np.linalg.eigvalsh((A + A.conj().T) / 2))))


def hull_distance(eigs):
    """distance from the origin to the convex hull of points on the unit circle"""
    ang = np.sort(np.mod(np.angle(eigs), 2 * np.pi))
    gaps = np.diff(np.concatenate([ang, [ang[0] + 2 * np.pi]]))
    g = float(np.max(gaps))
    if g <= np.pi:
        return 0.0
    return float(np.cos((2 * np.pi - g) / 2))


def root_fidelity(r, s):
    w, v = np.linalg.eigh((r + r.conj().T) / 2)
    sq = (v * np.sqrt(np.clip(w, 0, None))) @ v.conj().T
    m = sq @ s @ sq
    return float(np.sum(np.sqrt(np.clip(np.linalg.eigvalsh((m + m.conj().T) / 2), 0, None))))


def dual_choi(Jf, dX, dY):
    """Choi matrix (on Y (x) X) of the adjoint map: J*_{(y,x),(y',x')} = conj J_{(x,y),(x',y')}"""
    return Jf.conj().reshape(dX, dY, dX, dY).transpose(1, 0, 3, 2).reshape(dX * dY, dX * dY)


def is_psd(A, tol=1e-9):
    return bool(np.min(np.linalg.eigvalsh((A + A.conj().T) / 2)) >= -tol) and bool(np.max(np.abs(A - A.conj().T)) <= 1e-12)


# ------------------------------------------------------------------------------------------------
# generators (parent process; every random choice from ctx.rng)


def gen_channel(rng, d, kind):
    """returns Kraus operators (float arrays d x d) of a channel on dimension d"""
    if kind == "unitary":
        return [qgen.cayley_unitary(rng, d, True)]
    if kind == "mixture":
        k = int(rng.integers(2, 4))
        p = qgen.dyadic_probs(rng, k, bits=4, allow_uniform=False)
        return [np.sqrt(pi) * qgen.cayley_unitary(rng, d, bool(rng.integers(4) > 0)) for pi in p]
    # Stinespring: first d columns of a rational unitary on Y (x) E, environment index first
    r = int(rng.choice([2, 2, 3, d * d])) if kind == "stinespring" else d * d
    V = qgen.cayley_unitary(rng, d * r, True, lim=2)[:, :d]
    return [V[e * d:(e + 1) * d, :] for e in range(r)]


def choi_of(kraus):
    from toqito.channel_ops import kraus_to_choi
    return np.asarray(kraus_to_choi([np.asarray(k, dtype=complex) for k in kraus]), dtype=complex)


def rand_herm(rng, n, lim=4):
    A = rng.integers(-lim, lim + 1, size=(n, n)) + 1j * rng.integers(-lim, lim + 1, size=(n, n))
    return (A + A.conj().T) / 8.0


def gen_cb_task(rng, i, quick):
    d = int(rng.choice([2, 2, 3]))
    kind = ["diff", "diff", "diff", "herm", "cp", "channel", "unitary_pair", "diff"][i % 8]
    t = {"d": d, "kind": kind, "id": i}
    if kind in ("diff", "unitary_pair"):
        k1 = "unitary" if kind == "unitary_pair" else str(rng.choice(["unitary", "mixture", "stinespring", "stinespring"]))
        k2 = "unitary" if kind == "unitary_pair" else str(rng.choice(["unitary", "mixture", "stinespring"]))
        t["K1"], t["K2"] = gen_channel(rng, d, k1), gen_channel(rng, d, k2)
        t["kinds"] = [k1, k2]
        t["V"], t["W"] = qgen.cayley_unitary(rng, d, True), qgen.cayley_unitary(rng, d, True)
    elif kind == "herm":
        if (i // 8) % 2 == 1:
            # trace-preserving, Hermiticity-preserving, generally not CP: (1+a) Phi_1 - a Phi_2
            a = float(rng.choice([0.25, 0.5, 1.0, 2.0]))
            t["J"] = (1 + a) * choi_of(gen_channel(rng, d, str(rng.choice(["unitary", "mixture", "stinespring"])))) \
                - a * choi_of(gen_channel(rng, d, str(rng.choice(["unitary", "mixture", "stinespring"]))))
            t["tp_noncp"] = a
        else:
            t["J"] = rand_herm(rng, d * d)
        t["c_real"] = float(rng.choice([-3.0, -0.5, 2.0, 0.25]))
        t["c_cplx"] = complex(float(rng.integers(-3, 4)), float(rng.integers(1, 4))) / 2
    elif kind == "cp":
        ks = [(rng.integers(-2, 3, size=(d, d)) + 1j * rng.integers(-2, 3, size=(d, d))) / 2.0 for _ in range(int(rng.integers(1, 4)))]
        t["K"] = ks
    else:
        t["K"] = gen_channel(rng, d, str(rng.choice(["unitary", "mixture", "stinespring"])))
    return t


def _indefinite(J, margin=0.05):
    w = np.linalg.eigvalsh((J + J.conj().T) / 2)
    return bool(w[0] <= -margin and w[-1] >= margin)


def gen_maps_task(rng, i):
    """pairs of Hermiticity-preserving maps that are NOT both channels (scaled channels, completely positive maps that do not preserve the trace, general Hermitian
    Choi matrices) and lie further apart than 2 in most draws; the difference is indefinite (the call does not go through the completely-positive branch)"""
    d = int(rng.choice([2, 2, 3]))
    sub = ["scaled-unitaries", "scaled", "herm", "cp-vs-channel"][i % 4]
    t = {"d": d, "kind": "maps", "sub": sub, "id": 5000 + i}
    while True:
        if sub == "scaled-unitaries":
            c = float(rng.choice([3.0, 2.5, 1.5, 2.0]))
            U, V = qgen.cayley_unitary(rng, d, True), qgen.cayley_unitary(rng, d, True)
            t["J1"], t["J2"] = c * choi_of([U]), c * choi_of([V])
            t["c"], t["U"], t["V"] = c, U, V
        elif sub == "scaled":
            c1, c2 = (float(x) for x in rng.choice([3.0, 2.0, 1.0, 1.5, 2.5], size=2))
            kinds = [str(rng.choice(["unitary", "mixture", "stinespring"])) for _ in range(2)]
            t["J1"], t["J2"] = c1 * choi_of(gen_channel(rng, d, kinds[0])), c2 * choi_of(gen_channel(rng, d, kinds[1]))
            t["scales"], t["kinds"] = [c1, c2], kinds
        elif sub == "herm":
            t["J1"], t["J2"] = 2 * rand_herm(rng, d * d), 2 * rand_herm(rng, d * d)
        else:
            ks = [(rng.integers(-2, 3, size=(d, d)) + 1j * rng.integers(-2, 3, size=(d, d))) / 2.0 for _ in range(int(rng.integers(1, 4)))]
            t["J1"], t["J2"] = choi_of(ks), choi_of(gen_channel(rng, d, str(rng.choice(["unitary", "mixture", "stinespring"]))))
            if i % 8 >= 4:
                t["J1"], t["J2"] = t["J2"], t["J1"]
        if _indefinite(t["J1"] - t["J2"]):
            return t


def gen_cf_task(rng, i, quick, d=None):
    d = d or 2
    k1 = str(rng.choice(["unitary", "mixture", "stinespring", "stinespring"]))
    k2 = str(rng.choice(["mixture", "stinespring", "stinespring"]))
    full = (i % 3) != 2
    return {"d": d, "id": i, "K1": gen_channel(rng, d, k1), "K2": gen_channel(rng, d, k2), "kinds": [k1, k2], "full": full,
            "p1": float(rng.choice([0.125, 0.25])), "p2": float(rng.choice([0.125, 0.25, 0.5]))}


# ------------------------------------------------------------------------------------------------
# workers


def _call(fn, *a, **k):
    try:
        return "ok", float(np.real(fn(*a, **k)))
    except (ArithmeticError, ZeroDivisionError) as e:
        return "numfail", f"{type(e).__name__}: {str(e)[:100]}"
    except Exception as e:  # noqa: BLE001
        return "raise", f"{type(e).__name__}: {str(e)[:200]}"


class Presenter:
    """calls of toqito functions for one task: every ndarray argument is handed over as the same values in a presentation drawn for this call
    (a function of the task's presentation seed and the call's key), the objects handed over must be untouched afterwards, and with
    again=(d == 2) the call is repeated on the same objects and must return the same value within tol"""

    def __init__(self, pres, res, desc):
        self.pres, self.res, self.desc = pres, res, desc
        self.last = None   # description of the presentation of the last call (for violation records)

    def call(self, key, fn, *a, again=False, tol=0.0, **k):
        prng = call_rng(self.pres, key)
        args = [present_nd(prng, np.array(x, copy=True)) if isinstance(x, np.ndarray) else x for x in a]
        self.last = describe([x for x in args if isinstance(x, np.ndarray)])
        guard = Pure(*args)
        name = getattr(fn, "__name__", str(fn))
        st, v = _call(fn, *args, **k)
        why = guard.modified()
        if why is None and again and st == "ok" and prng is not None and int(prng.integers(4)) == 0:
            st2, v2 = _call(fn, *args, **k)   # the SAME objects again
            why = guard.modified()
            self.res.count("repeat-call/" + name)
            if why is None and st2 == "ok" and abs(v2 - v) > tol:
                self.res.violation(f"{name}: a second call on the same objects returns {v2:.8f}, the first returned {v:.8f}",
                                   {"function": name, "args": dict(self.desc, call=key), "values": [v, v2], "presentation": self.last, "check": "repeat"})
        if why is not None:
            self.res.violation(f"{name}: caller's arguments were modified ({why})", {"function": name, "args": dict(self.desc, call=key), "modified": why, "presentation": self.last, "check": "purity"})
        return st, v


def _check_interval(res, fn, desc, val, lo, hi, tau, thm, extra=None):
    """val must lie in [lo - tau, hi + tau]; returns True when checked and fine"""
    if lo is None or hi is None:
        return None
    if not (lo - tau <= val <= hi + tau):
        info = {"function": fn, "args": desc, "impl": val, "certified": [lo, hi], "tau": tau, "theorem": thm}
        info.update(extra or {})
        res.violation(f"{fn} = {val:.8f} outside the certified optimum [{lo:.8f}, {hi:.8f}] ({desc.get('kind')}, d={desc.get('d')})", info)
        return False
    return True


def _cb_interval(drv, res, Jf, dX, dY, tag):
    """certified interval for the exact image of the float matrix Jf"""
    J = DM.exact_float(Jf)
    try:
        sol = solve_cb_ref(J.to_float(), dX, dY)
    except Exception:  # noqa: BLE001
        res.count(f"uncertified/{tag}/ref-solve-failed")
        return None, None
    lo, hi, why = certify_cb(drv, J, dX, dY, sol)
    if lo is None or hi is None or hi - lo > WIDTH_OK:
        res.count(f"uncertified/{tag}/" + ";".join(why)[:70] + ("" if lo is None or hi is None else "wide"))
        return None, None
    if lo > hi + 1e-12:
        res.violation("certified lower bound above certified upper bound (checker or harness unsound)", {"function": "cb_bracket", "args": {"J": Jf, "dX": dX, "dY": dY}, "certified": [lo, hi], "theorem": "cb_bracket"})
        return None, None
    return lo, hi


def work_cb(task, res: Result):
    from toqito.channel_metrics import completely_bounded_spectral_norm, completely_bounded_trace_norm, diamond_distance
    from toqito.channel_ops import dual_channel
    warnings.filterwarnings("ignore")
    drv = worker_driver()
    d, kind = task["d"], task["kind"]
    base = {"fn": "cb", "kind": kind, "d": d, "id": task["id"], "pres": task.get("pres")}
    P = Presenter(task.get("pres"), res, base)

    if kind in ("diff", "unitary_pair"):
        J1, J2 = choi_of(task["K1"]), choi_of(task["K2"])
        Jd = J1 - J2
        desc = dict(base, kinds=task["kinds"], J1=J1, J2=J2)
        lo, hi = _cb_interval(drv, res, Jd, d, d, kind)
        st, v = P.call("main", diamond_distance, J1, J2, again=(d == 2), tol=2 * TAU_CB)
        desc["presentation"] = P.last
        nontriv = lo is not None and lo >= 1e-2 and hi <= 2 - 1e-2
        res.case(desc, nontriv, f"diamond/{kind}/{'-'.join(task['kinds'])}/d{d}/{st}")
        if st == "numfail":
            res.count("solver-numerical-failure")
            return
        if st == "raise":
            res.violation(f"diamond_distance raises {v} on a pair of channels", {"function": "diamond_distance", "args": desc, "exception": v})
            return
        if _check_interval(res, "diamond_distance", desc, v, lo, hi, TAU_CB, "checkCbPrimal_sound / checkCbDual_sound / cb_bracket") is False:
            return
        # symmetry (diamond_symm)
        st2, v2 = P.call("swap", diamond_distance, J2, J1)
        if st2 == "ok":
            res.count("relation/symmetry")
            if abs(v - v2) > 2 * TAU_CB:
                res.violation(f"diamond_distance not symmetric: {v:.8f} vs {v2:.8f}", {"function": "diamond_distance", "args": desc, "values": [v, v2], "theorem": "diamond_symm"})
        # zero for equal channels (diamond_self_zero)
        st3, v3 = P.call("self", diamond_distance, J1, J1.copy())
        if st3 == "ok":
            res.count("relation/self-zero")
            if abs(v3) > TAU_CB:
                res.violation(f"diamond_distance(J, J) = {v3:.8f}, expected 0", {"function": "diamond_distance", "args": dict(base, J1=J1, J2=J1), "impl": v3, "theorem": "diamond_self_zero"})
        elif st3 == "raise":
            res.violation(f"diamond_distance(J, J) raises {v3}", {"function": "diamond_distance", "args": dict(base, J1=J1, J2=J1), "exception": v3})
        # at most 2 (diamond_le_two), Choi trace-norm bounds (diamond_choi_lower / cb_jordan_dual_cert)
        tn = trace_norm_h(Jd)
        res.count("relation/le-two-and-choi-bounds")
        if v > 2 + TAU_CB:
            res.violation(f"diamond_distance of two channels = {v:.8f} > 2", {"function": "diamond_distance", "args": desc, "impl": v, "theorem": "diamond_le_two"})
        if not (tn / d - TAU_CB - CLOSED <= v <= tn + TAU_CB + CLOSED):
            res.violation(f"diamond_distance = {v:.8f} outside the Choi bounds [{tn / d:.8f}, {tn:.8f}]", {"function": "diamond_distance", "args": desc, "impl": v, "bounds": [tn / d, tn], "theorem": "diamond_choi_lower / cb_jordan_dual_cert"})
        if lo is not None and not (tn / d - CLOSED <= hi and lo <= tn + CLOSED):
            res.violation("certified interval violates the Choi trace-norm bounds (harness error)", {"function": "choi_bounds", "args": desc, "certified": [lo, hi], "bounds": [tn / d, tn]})
        # two unitaries: 2 sqrt(1 - delta^2)
        if kind == "unitary_pair":
            U, V = task["K1"][0], task["K2"][0]
            delta = hull_distance(np.linalg.eigvals(U.conj().T @ V))
            cf = 2 * np.sqrt(max(0.0, 1 - delta ** 2))
            res.count("closed-form/two-unitaries")
            if abs(v - cf) > TAU_CB + CLOSED:
                res.violation(f"diamond_distance of two unitary channels = {v:.8f}, closed form 2 sqrt(1-delta^2) = {cf:.8f}", {"function": "diamond_distance", "args": desc, "impl": v, "closed_form": cf, "theorem": "diamond_two_unitaries_closed_form"})
            if lo is not None and not (lo - CLOSED <= cf <= hi + CLOSED):
                res.violation("certified interval disagrees with the two-unitary closed form (harness or cited closed form wrong)", {"function": "two_unitaries", "args": desc, "certified": [lo, hi], "closed_form": cf})
        # unitary invariance (diamond_unitary_invariant): both channels composed with V before and W after
        Vu, Wu = task["V"], task["W"]
        J1r, J2r = choi_of([Wu @ k @ Vu for k in task["K1"]]), choi_of([Wu @ k @ Vu for k in task["K2"]])
        # the rotated Choi matrices equal (V^T (x) W) J (V^T (x) W)^H: ties kraus_to_choi's convention to the theorem's
        R = np.kron(Vu.T, Wu)
        if np.max(np.abs(R @ J1 @ R.conj().T - J1r)) > 1e-9:
            res.violation("kraus_to_choi of the rotated Kraus operators differs from (V^T (x) W) J (V^T (x) W)^H (Choi convention)", {"function": "kraus_to_choi", "args": dict(base, K=task["K1"], V=Vu, W=Wu)})
        st4, v4 = P.call("rot", diamond_distance, J1r, J2r)
        if st4 == "ok":
            res.count("relation/unitary-invariance")
            if abs(v - v4) > 2 * TAU_CB or (lo is not None and not (lo - TAU_CB <= v4 <= hi + TAU_CB)):
                res.violation(f"diamond_distance changes under composition with the same unitaries: {v:.8f} vs {v4:.8f}", {"function": "diamond_distance", "args": dict(desc, V=Vu, W=Wu), "values": [v, v4], "certified": [lo, hi], "theorem": "diamond_unitary_invariant"})
        elif st4 == "raise":
            res.violation(f"diamond_distance raises {v4} on rotated channels", {"function": "diamond_distance", "args": dict(desc, V=Vu, W=Wu), "exception": v4})
        return

    if kind == "maps":
        # diamond_distance on pairs of linear maps that are not both channels: the value is the cb trace norm of the difference (no bound 2 there)
        J1, J2, sub = task["J1"], task["J2"], task["sub"]
        Jd = J1 - J2
        desc = dict(base, sub=sub, J1=J1, J2=J2)
        for k_ in ("c", "scales", "kinds"):
            if k_ in task:
                desc[k_] = task[k_]
        lo, hi = _cb_interval(drv, res, Jd, d, d, kind)
        st, v = P.call("main", diamond_distance, J1, J2, again=(d == 2), tol=2 * TAU_CB)
        desc["presentation"] = P.last
        res.case(desc, lo is not None and lo >= 2 + 1e-2, f"diamond/maps/{sub}/d{d}/{st}")
        if st == "numfail":
            res.count("solver-numerical-failure")
            return
        if st == "raise":
            res.violation(f"diamond_distance raises {v} on a pair of Hermiticity-preserving maps", {"function": "diamond_distance", "args": desc, "exception": v})
            return
        if _check_interval(res, "diamond_distance", desc, v, lo, hi, TAU_CB, "checkCbPrimal_sound / checkCbDual_sound / cb_bracket (the diamond distance of two linear maps is the cb trace norm of the difference)") is False:
            return
        tn = trace_norm_h(Jd)
        res.count("relation/maps-choi-bounds")
        if not (tn / d - TAU_CB - CLOSED * max(1.0, tn) <= v <= tn + TAU_CB + CLOSED * max(1.0, tn)):
            res.violation(f"diamond_distance of two Hermiticity-preserving maps = {v:.8f} outside the Choi bounds [{tn / d:.8f}, {tn:.8f}]",
                          {"function": "diamond_distance", "args": desc, "impl": v, "bounds": [tn / d, tn], "theorem": "diamond_choi_bounds"})
            return
        if lo is not None and not (tn / d - CLOSED * max(1.0, tn) <= hi and lo <= tn + CLOSED * max(1.0, tn)):
            res.violation("certified interval violates the Choi trace-norm bounds (harness error)", {"function": "choi_bounds", "args": desc, "certified": [lo, hi], "bounds": [tn / d, tn]})
        st2, v2 = P.call("swap", diamond_distance, J2, J1)
        if st2 == "ok":
            res.count("relation/maps-symmetry")
            if abs(v - v2) > 2 * TAU_CB:
                res.violation(f"diamond_distance not symmetric on a pair of maps: {v:.8f} vs {v2:.8f}", {"function": "diamond_distance", "args": desc, "values": [v, v2], "certified": [lo, hi], "theorem": "diamond_symm"})
        elif st2 == "raise":
            res.violation(f"diamond_distance raises {v2} on the exchanged pair", {"function": "diamond_distance", "args": dict(desc, J1=J2, J2=J1), "exception": v2})
        st3, v3 = P.call("self", diamond_distance, J1, J1.copy())
        if st3 == "ok":
            res.count("relation/maps-self-zero")
            if abs(v3) > TAU_CB:
                res.violation(f"diamond_distance(J, J) = {v3:.8f} for a map that is no channel, expected 0", {"function": "diamond_distance", "args": dict(base, J1=J1, J2=J1), "impl": v3, "theorem": "diamond_self_zero"})
        elif st3 == "raise":
            res.violation(f"diamond_distance(J, J) raises {v3}", {"function": "diamond_distance", "args": dict(base, J1=J1, J2=J1), "exception": v3})
        st4, v4 = P.call("cb-of-difference", completely_bounded_trace_norm, Jd)
        if st4 == "ok":
            res.count("relation/maps-definition")
            if abs(v - v4) > 2 * TAU_CB:
                res.violation(f"diamond_distance(J1, J2) = {v:.8f} differs from completely_bounded_trace_norm(J1 - J2) = {v4:.8f}",
                              {"function": "diamond_distance", "args": desc, "values": [v, v4], "certified": [lo, hi], "theorem": "(definition) / cb_bracket"})
        if sub == "scaled-unitaries":
            # |c| * 2 sqrt(1 - delta^2) (cb_homogeneous and the two-unitary closed form)
            c, U, V = task["c"], task["U"], task["V"]
            delta = hull_distance(np.linalg.eigvals(U.conj().T @ V))
            cf = abs(c) * 2 * np.sqrt(max(0.0, 1 - delta ** 2))
            res.count("closed-form/scaled-two-unitaries")
            if abs(v - cf) > (1 + abs(c)) * (TAU_CB + CLOSED):
                res.violation(f"diamond_distance of c*Phi_U, c*Phi_V (c={c}) = {v:.8f}, closed form |c| 2 sqrt(1-delta^2) = {cf:.8f}",
                              {"function": "diamond_distance", "args": desc, "impl": v, "closed_form": cf, "theorem": "cb_homogeneous / diamond_two_unitaries_closed_form"})
            if lo is not None and not (lo - abs(c) * CLOSED <= cf <= hi + abs(c) * CLOSED):
                res.violation("certified interval disagrees with the scaled two-unitary closed form (harness or cited closed form wrong)", {"function": "two_unitaries", "args": desc, "certified": [lo, hi], "closed_form": cf})
        return

    if kind == "herm":
        Jf = task["J"]
        desc = dict(base, J=Jf)
        lo, hi = _cb_interval(drv, res, Jf, d, d, kind)
        st, v = P.call("main", completely_bounded_trace_norm, Jf, again=(d == 2), tol=2 * TAU_CB)
        desc["presentation"] = P.last
        res.case(desc, lo is not None and lo >= 1e-2, f"cb/herm/d{d}/{st}")
        if st == "numfail":
            res.count("solver-numerical-failure")
            return
        if st == "raise":
            res.violation(f"completely_bounded_trace_norm raises {v} on a Hermitian Choi matrix", {"function": "completely_bounded_trace_norm", "args": desc, "exception": v})
            return
        if _check_interval(res, "completely_bounded_trace_norm", desc, v, lo, hi, TAU_CB, "checkCbPrimal_sound / checkCbDual_sound / cb_bracket") is False:
            return
        # homogeneity (cb_homogeneous): real (also negative) and complex factors
        for c in (task["c_real"], task["c_cplx"]):
            stc, vc = P.call(("homog", repr(c)), completely_bounded_trace_norm, c * Jf)
            dc = dict(base, J=Jf, c=c)
            res.case(dc, lo is not None and lo >= 1e-2, f"cb/homogeneity/{'complex' if isinstance(c, complex) else 'real'}/{stc}")
            if stc == "numfail":
                res.count("solver-numerical-failure")
                continue
            if stc == "raise":
                res.violation(f"completely_bounded_trace_norm raises {vc} on c*J (c={c})", {"function": "completely_bounded_trace_norm", "args": dc, "exception": vc})
                continue
            a = abs(c)
            cJ = c * Jf
            if is_psd(cJ):
                # c*J happens to be completely positive (J itself CP, e.g. an affine combination of channels that is a channel): the call goes through the
                # CP branch of the code; judge it against the certified optimum of c*J itself, with the fields the known-finding matcher needs
                Tc = cJ.reshape(d, d, d, d).trace(axis1=1, axis2=3)
                extra_c = {"cp_non_tp": bool(np.max(np.abs(Tc - np.eye(d))) >= 1e-6), "trace_of_ptr": float(np.real(np.trace(Tc))),
                           "lam_max": float(np.max(np.linalg.eigvalsh((Tc + Tc.conj().T) / 2)))}
                lo_c, hi_c = _cb_interval(drv, res, cJ, d, d, "herm-scaled-cp")
                res.count("relation/homogeneity-through-cp-branch")
                _check_interval(res, "completely_bounded_trace_norm", dict(dc, J=cJ), vc, lo_c, hi_c, TAU_CB, "cb_cp_eq / cb_bracket / cb_homogeneous", extra_c)
                continue
            if abs(vc - a * v) > (1 + a) * TAU_CB or (lo is not None and not (a * lo - a * TAU_CB - TAU_CB <= vc <= a * hi + a * TAU_CB + TAU_CB)):
                res.violation(f"cb trace norm not absolutely homogeneous: ||cJ|| = {vc:.8f}, |c| ||J|| = {a * v:.8f} (c={c})", {"function": "completely_bounded_trace_norm", "args": dc, "values": [v, vc], "certified": [lo, hi], "theorem": "cb_homogeneous"})
        # cb spectral norm = cb trace norm of the dual map
        Jdual = dual_choi(Jf, d, d)
        try:
            a_J = present_nd(call_rng(task.get("pres"), "dual_channel"), Jf.copy())
            g_J = Pure(a_J)
            td = np.asarray(dual_channel(a_J))
            if g_J.modified() is not None:
                res.violation(f"dual_channel: caller's arguments were modified ({g_J.modified()})", {"function": "dual_channel", "args": desc, "modified": g_J.modified(), "presentation": describe(a_J), "check": "purity"})
            if np.max(np.abs(td - Jdual)) > 0:
                res.violation("dual_channel(J) differs from the Choi matrix of the adjoint map", {"function": "dual_channel", "args": desc, "impl": td, "model": Jdual})
        except Exception as e:  # noqa: BLE001
            res.violation(f"dual_channel raises {type(e).__name__}", {"function": "dual_channel", "args": desc, "exception": str(e)[:200]})
        lo2, hi2 = _cb_interval(drv, res, Jdual, d, d, "herm-dual")
        sts, vs = P.call("spectral", completely_bounded_spectral_norm, Jf)
        res.case(dict(desc, fn="cb_spectral"), lo2 is not None and lo2 >= 1e-2, f"cb_spectral/herm/d{d}/{sts}")
        if sts == "raise":
            res.violation(f"completely_bounded_spectral_norm raises {vs}", {"function": "completely_bounded_spectral_norm", "args": desc, "exception": vs})
        elif sts == "ok":
            _check_interval(res, "completely_bounded_spectral_norm", desc, vs, lo2, hi2, TAU_CB, "cb_bracket applied to the Choi matrix of the adjoint map")
        return

    if kind == "cp":
        Jf = choi_of(task["K"])
        desc = dict(base, J=Jf)
        T = Jf.reshape(d, d, d, d).trace(axis1=1, axis2=3)
        lam_max = float(np.max(np.linalg.eigvalsh((T + T.conj().T) / 2)))
        tr = float(np.real(np.trace(T)))
        tp = bool(np.max(np.abs(T - np.eye(d))) < 1e-6)
        lo, hi = _cb_interval(drv, res, Jf, d, d, kind)
        # the certified interval must contain lambda_max(Tr_Y J) (cb_cp_eq)
        if lo is not None and not (lo - CLOSED <= lam_max <= hi + CLOSED):
            res.violation("certified interval of a CP map does not contain the operator norm of Phi*(1) (harness error)", {"function": "cp_closed_form", "args": desc, "certified": [lo, hi], "lam_max": lam_max})
        extra = {"cp_non_tp": (not tp) and is_psd(Jf), "trace_of_ptr": tr, "lam_max": lam_max}
        for fn, name, Jarg, L, H in ((completely_bounded_trace_norm, "completely_bounded_trace_norm", Jf, lo, hi),):
            st, v = P.call("main", fn, Jarg, again=(d == 2), tol=2 * TAU_CB)
            res.case(dict(desc, fn=name), L is not None and abs(tr - lam_max) >= 1e-2, f"cb/cp/d{d}/{st}")
            if st == "raise":
                res.violation(f"{name} raises {v} on a CP map", {"function": name, "args": desc, "exception": v, **extra})
            elif st == "ok":
                _check_interval(res, name, desc, v, L, H, TAU_CB, "cb_cp_eq / cb_bracket", extra)
        return

    if kind == "channel":
        Jf = choi_of(task["K"])
        desc = dict(base, J=Jf)
        lo, hi = _cb_interval(drv, res, Jf, d, d, kind)
        if lo is not None and not (lo - 1e-6 <= 1 <= hi + 1e-6):
            res.violation("certified interval of a channel does not contain 1 (harness error)", {"function": "channel_one", "args": desc, "certified": [lo, hi]})
        st, v = P.call("main", completely_bounded_trace_norm, Jf)
        res.case(desc, lo is not None, f"cb/channel/d{d}/{st}")
        if st == "raise":
            res.violation(f"completely_bounded_trace_norm raises {v} on a channel", {"function": "completely_bounded_trace_norm", "args": desc, "exception": v})
        elif st == "ok":
            if abs(v - 1) > TAU_CB:
                res.violation(f"cb trace norm of a channel = {v:.8f}, expected 1", {"function": "completely_bounded_trace_norm", "args": desc, "impl": v, "theorem": "cb_channel_one"})
        # cb spectral norm of a channel = cb trace norm of its (unital CP) adjoint = ||Phi(1)||
        Jdual = dual_choi(Jf, d, d)
        T = Jdual.reshape(d, d, d, d).trace(axis1=1, axis2=3)
        lam_max = float(np.max(np.linalg.eigvalsh((T + T.conj().T) / 2)))
        tr = float(np.real(np.trace(T)))
        tp = bool(np.max(np.abs(T - np.eye(d))) < 1e-6)
        lo2, hi2 = _cb_interval(drv, res, Jdual, d, d, "channel-dual")
        sts, vs = P.call("spectral", completely_bounded_spectral_norm, Jf)
        res.case(dict(desc, fn="cb_spectral"), lo2 is not None and abs(tr - lam_max) >= 1e-2, f"cb_spectral/channel/d{d}/{sts}/{'unital' if tp else 'nonunital'}")
        extra = {"cp_non_tp": (not tp) and is_psd(Jdual), "trace_of_ptr": tr, "lam_max": lam_max}
        if sts == "raise":
            res.violation(f"completely_bounded_spectral_norm raises {vs} on a channel", {"function": "completely_bounded_spectral_norm", "args": desc, "exception": vs, **extra})
        elif sts == "ok":
            _check_interval(res, "completely_bounded_spectral_norm", desc, vs, lo2, hi2, TAU_CB, "cb_cp_eq / cb_bracket on the adjoint map", extra)
        return


def work_model_only(task, res: Result):
    """dX != dY: the verified checkers alone (index convention x*dY + y, rho (x) 1_Y, Tr_Y): a channel X -> Y must be certified at 1,
    the difference of two channels inside the Choi bounds"""
    warnings.filterwarnings("ignore")
    drv = worker_driver()
    dX, dY, V1, V2 = task["dX"], task["dY"], task["V1"], task["V2"]

    def choi(V, r):
        ks = [V[e * dY:(e + 1) * dY, :] for e in range(r)]
        J = np.zeros((dX * dY, dX * dY), dtype=complex)
        for a in range(dX):
            for b in range(dX):
                E = np.zeros((dX, dX))
                E[a, b] = 1
                J[a * dY:(a + 1) * dY, b * dY:(b + 1) * dY] = sum(k @ E @ k.conj().T for k in ks)
        return J
    J1, J2 = choi(V1, task["r"]), choi(V2, task["r"])
    desc = {"fn": "model_only", "dX": dX, "dY": dY, "J1": J1, "J2": J2}
    lo, hi = _cb_interval(drv, res, J1, dX, dY, "rect-channel")
    res.case(dict(desc, which="channel"), lo is not None, f"model-only/channel/{dX}x{dY}")
    if lo is not None and not (lo - 1e-6 <= 1 <= hi + 1e-6):
        res.violation("certified interval of a channel X -> Y (dX != dY) does not contain 1: checker index convention and harness disagree", {"function": "checkCb", "args": desc, "certified": [lo, hi], "theorem": "cb_channel_one"})
    Jd = J1 - J2
    lo, hi = _cb_interval(drv, res, Jd, dX, dY, "rect-diff")
    tn = trace_norm_h(Jd)
    res.case(dict(desc, which="diff"), lo is not None and lo >= 1e-2 and hi <= 2 - 1e-2, f"model-only/diff/{dX}x{dY}")
    if lo is not None and not (tn / dX - CLOSED <= hi and lo <= min(2.0, tn) + CLOSED):
        res.violation("certified diamond distance (dX != dY) outside the Choi bounds", {"function": "checkCb", "args": desc, "certified": [lo, hi], "bounds": [tn / dX, tn], "theorem": "diamond_choi_lower / diamond_le_two"})


def _mix_full(Jf, p, d):
    """(1 - p) Phi + p * completely depolarizing (Choi matrix 1/d): full rank"""
    return (1 - p) * Jf + p * np.eye(d * d) / d


def _as_given(J):
    """a real-valued Choi matrix is handed over with a real dtype (as a user would), a complex one as complex128"""
    J = np.asarray(J)
    return J.real.copy() if np.iscomplexobj(J) and not np.any(J.imag) else J


def work_cf(task, res: Result):
    from toqito.channel_metrics import channel_fidelity
    warnings.filterwarnings("ignore")
    drv = worker_driver()
    d = task["d"]
    J1, J2 = choi_of(task["K1"]), choi_of(task["K2"])
    if task["full"]:
        J1, J2 = _mix_full(J1, task["p1"], d), _mix_full(J2, task["p2"], d)
    J1, J2 = (J1 + J1.conj().T) / 2, (J2 + J2.conj().T) / 2
    desc = {"fn": "channel_fidelity", "kind": "full-rank" if task["full"] else "rank-deficient", "d": d, "id": task["id"], "kinds": task["kinds"], "J1": J1, "J2": J2, "pres": task.get("pres")}
    P = Presenter(task.get("pres"), res, {k_: v_ for k_, v_ in desc.items() if k_ not in ("J1", "J2")})
    E1, E2 = DM.exact_float(J1), DM.exact_float(J2)
    lo = hi = None
    try:
        sol = solve_cf_ref(E1.to_float(), E2.to_float(), d, d, primal=task["full"])
        lo, hi, why = certify_cf(drv, E1, E2, d, d, sol)
        if task["full"] and (lo is None or hi is None or hi - lo > WIDTH_OK):
            res.count("uncertified/cf/" + ";".join(why)[:70] + ("" if lo is None or hi is None else "wide"))
            lo = None if (lo is None or hi is None or hi - lo > WIDTH_OK) else lo
        if hi is None:
            res.count("uncertified/cf-upper/" + ";".join(why)[:70])
    except Exception as e:  # noqa: BLE001
        res.count("uncertified/cf/ref-solve-failed")
    if lo is not None and hi is not None and lo > hi + 1e-12:
        res.violation("certified lower bound above certified upper bound (checker or harness unsound)", {"function": "cf_bracket", "args": desc, "certified": [lo, hi], "theorem": "cf_bracket"})
        return
    choi_fid = root_fidelity(J1 / d, J2 / d)
    st, v = P.call("main", channel_fidelity, _as_given(J1), _as_given(J2), again=(d == 2), tol=2 * TAU_CF)
    desc["presentation"] = P.last
    nontriv = hi is not None and hi <= 1 - 1e-2 and (lo is None or lo >= 1e-2)
    res.case(desc, nontriv, f"cf/{desc['kind']}/{'-'.join(task['kinds'])}/d{d}/{st}")
    if st == "numfail":
        res.count("solver-numerical-failure")
        return
    if st == "raise":
        res.violation(f"channel_fidelity raises {v} on a pair of channels of dimension {d}", {"function": "channel_fidelity", "args": desc, "exception": v, "local_dim": d})
        return
    bad = False
    if hi is not None and v > hi + TAU_CF:
        bad = True
    if lo is not None and v < lo - TAU_CF:
        bad = True
    if bad:
        res.violation(f"channel_fidelity = {v:.6f} outside the certified optimum [{'-inf' if lo is None else f'{lo:.6f}'}, {hi:.6f}] of the Katariya-Wilde SDP ({desc['kind']}, d={d})",
                      {"function": "channel_fidelity", "args": desc, "impl": v, "certified": [lo, hi], "tau": TAU_CF, "theorem": "checkCfPrimal_sound / checkCfDual_sound / cf_bracket", "local_dim": d,
                       "entrywise_program_value": entrywise_program_value(J1, J2, d)})
        return
    # never exceeds the fidelity of the normalised Choi states (cf_le_choi_fidelity)
    res.count("relation/le-choi-fidelity")
    if v > choi_fid + TAU_CF + CLOSED:
        res.violation(f"channel_fidelity = {v:.6f} exceeds the fidelity of the normalised Choi states {choi_fid:.6f}", {"function": "channel_fidelity", "args": desc, "impl": v, "choi_fidelity": choi_fid, "theorem": "cf_le_choi_fidelity"})
    if hi is not None and lo is not None and lo > choi_fid + CLOSED:
        res.violation("certified channel fidelity exceeds the Choi-state fidelity (harness error)", {"function": "choi_fidelity", "args": desc, "certified": [lo, hi], "choi_fidelity": choi_fid})
    # symmetry (chanFid_symm)
    st2, v2 = P.call("swap", channel_fidelity, _as_given(J2), _as_given(J1))
    if st2 == "ok":
        res.count("relation/cf-symmetry")
        if abs(v - v2) > 2 * TAU_CF:
            res.violation(f"channel_fidelity not symmetric: {v:.6f} vs {v2:.6f}", {"function": "channel_fidelity", "args": desc, "values": [v, v2], "certified": [lo, hi], "theorem": "chanFid_symm", "local_dim": d})
    elif st2 == "raise":
        res.violation(f"channel_fidelity raises {v2} with the arguments exchanged", {"function": "channel_fidelity", "args": desc, "exception": v2, "local_dim": d})
    # equal channels (chanFid_self)
    if task.get("self", True):
        st3, v3 = P.call("self", channel_fidelity, J1, J1.copy())
        if st3 == "ok":
            res.count("relation/cf-self")
            if abs(v3 - 1) > TAU_CF:
                res.violation(f"channel_fidelity(J, J) = {v3:.6f}, expected 1", {"function": "channel_fidelity", "args": dict(desc, J2=J1), "impl": v3, "certified": [1.0, 1.0], "theorem": "chanFid_self", "local_dim": d})
        elif st3 == "raise":
            res.violation(f"channel_fidelity(J, J) raises {v3}", {"function": "channel_fidelity", "args": dict(desc, J2=J1), "exception": v3, "local_dim": d})


def work_cf_dim(task, res: Result):
    """defined for every local dimension: two equal depolarizing channels of dimension d -> 1"""
    from toqito.channel_metrics import channel_fidelity
    from toqito.channels import depolarizing
    warnings.filterwarnings("ignore")
    d = task["d"]
    J = np.asarray(depolarizing(d), dtype=complex)
    desc = {"fn": "channel_fidelity", "kind": "depolarizing-pair", "d": d, "pres": task.get("pres")}
    st, v = Presenter(task.get("pres"), res, desc).call("main", channel_fidelity, _as_given(J), _as_given(J))
    res.case(desc, True, f"cf/depolarizing-pair/d{d}/{st}")
    if st == "raise":
        res.violation(f"channel_fidelity raises {v} on two depolarizing channels of local dimension {d} (expected 1.0)", {"function": "channel_fidelity", "args": desc, "exception": v, "local_dim": d, "theorem": "chanFid_self"})
    elif st == "ok" and abs(v - 1) > TAU_CF:
        res.violation(f"channel_fidelity of two equal depolarizing channels of dimension {d} = {v:.6f}, expected 1", {"function": "channel_fidelity", "args": desc, "impl": v, "certified": [1.0, 1.0], "local_dim": d, "theorem": "chanFid_self"})


def _phase_flip_pair(d, level, p):
    """a = p id + (1-p) completely depolarising, b = p (phase flip of one level) + (1-p) completely depolarising: full-rank channels whose Choi matrices
    (toqito's convention: vec(K) vec(K)^H summed) differ only in the rows / columns of the flipped level"""
    om = np.eye(d).reshape(-1, 1)
    flip = np.eye(d)
    flip[level, level] = -1
    v = flip.reshape(-1, 1)
    dep = np.eye(d * d) / d
    return p * (om @ om.T) + (1 - p) * dep, p * (v @ v.T) + (1 - p) * dep


def work_cf_sequence(task, res: Result):
    """defined for every local dimension, as a FUNCTION of its arguments: a sequence of calls in one process on local dimension 6 / 7 (Choi matrices of
    1296 / 2401 entries) - F(a, a), F(a, b), F(b, a) (or starting from b) for two different full-rank channels that agree except on one middle level.
    F(x, x) = 1 (chanFid_self); F(a, b) <= fidelity of the normalised Choi states (cf_le_choi_fidelity / chanFid_le_choi_fidelity); symmetric (chanFid_symm).
    A value carried over from an earlier call with other arguments (a cache keyed by a lossy rendering of large arrays) shows as F(a, b) = 1 > bound."""
    from toqito.channel_metrics import channel_fidelity
    warnings.filterwarnings("ignore")
    d, level, p = task["d"], task["level"], task["p"]
    a, b = _phase_flip_pair(d, level, p)
    if task["first"] == "b":
        a, b = b, a
    if task["complex"]:
        a, b = a.astype(complex), b.astype(complex)
    desc = {"fn": "cf-sequence", "d": d, "level": level, "p": p, "first": task["first"], "complex": task["complex"], "id": task["id"], "pres": task.get("pres"),
            "sequence": "F(a,a); F(a,b); F(b,a)  with a, b = p*(identity | phase flip of |level>) + (1-p)*completely depolarising" + (" exchanged" if task["first"] == "b" else "")}
    P = Presenter(task.get("pres"), res, desc)
    bound = root_fidelity(a / d, b / d)
    res.case(desc, True, f"cf/sequence/d{d}")
    vals = []
    for key, x, y in (("seq-aa", a, a.copy()), ("seq-ab", a, b), ("seq-ba", b, a)):
        st, v = P.call(key, channel_fidelity, x, y)
        if st == "numfail":
            res.count("solver-numerical-failure")
            return
        if st == "raise":
            res.violation(f"channel_fidelity raises {v} in the call {key[4:]} of the sequence on local dimension {d}", {"function": "channel_fidelity", "args": desc, "exception": v, "local_dim": d})
            return
        vals.append(v)
    faa, fab, fba = vals
    info = {"function": "channel_fidelity", "args": desc, "values": {"F(a,a)": faa, "F(a,b)": fab, "F(b,a)": fba}, "choi_fidelity": bound, "local_dim": d}
    res.count("relation/cf-sequence")
    if abs(faa - 1) > TAU_CF:
        res.violation(f"channel_fidelity(a, a) = {faa:.6f} on local dimension {d}, expected 1", {**info, "theorem": "chanFid_self"})
    for nm, v in (("a, b", fab), ("b, a", fba)):
        if v > bound + TAU_CF + CLOSED:
            res.violation(f"channel_fidelity({nm}) = {v:.6f} exceeds the fidelity of the normalised Choi states {bound:.6f} (local dimension {d}, a / b = {p} * identity / phase flip of level {level} "
                          f"+ {1 - p} * completely depolarising; called after channel_fidelity(a, a) = {faa:.6f} in the same process)", {**info, "theorem": "cf_le_choi_fidelity / chanFid_le_choi_fidelity"})
            return
    if abs(fab - fba) > 2 * TAU_CF:
        res.violation(f"channel_fidelity not symmetric on local dimension {d}: F(a,b) = {fab:.6f}, F(b,a) = {fba:.6f}", {**info, "theorem": "chanFid_symm"})


def _strict_one(res, name, mats, desc):
    """one call in the default floating-point error state and once more under harness.exact.StrictFP (invalid / divide / overflow raise, the corresponding
    RuntimeWarnings are errors): the value must not depend on that global state"""
    import toqito.channel_metrics as cm
    fn = getattr(cm, name)
    st0, v0 = _call(fn, *[m.copy() for m in mats])
    res.case(dict(desc, call=name), True, f"strict-fp/{name}/{desc['what']}")
    if st0 != "ok":
        res.count(f"strict-fp/default-state-{st0}/{name}")       # judged by the stream of that function
        return
    st1, v1 = strict_fp_call(fn, *[m.copy() for m in mats])
    tol = 2 * TAU_CF if name == "channel_fidelity" else 2 * TAU_CB
    info = {"function": name, "args": dict(desc, call=name), "default_state": v0, "check": "strict-fp",
            "theorem": "(the value the property's theorems give this input - dd_self_zero / chanFid_self / cb norm definitions - is a function of the arguments; NumPy's error state is not an argument)"}
    if st1 != "ok":
        if v1.split(":")[0] in ("ArithmeticError", "ZeroDivisionError"):
            res.count("strict-fp/solver-numerical-failure")
            return
        res.violation(f"{name}: the value depends on NumPy's floating-point error state - with np.seterr(invalid='raise', divide='raise', over='raise') the call raises {v1} "
                      f"where the default state returns {v0:.6f} ({desc['what']}, d={desc['d']}, instance {desc['kind']} #{desc['id']}: Choi matrices in the record)", {**info, "exception": v1})
    elif abs(float(np.real(v1)) - v0) > tol:
        res.violation(f"{name}: {float(np.real(v1)):.8f} under np.seterr(invalid='raise', ...) but {v0:.8f} in the default state ({desc['what']}, d={desc['d']})", {**info, "impl": float(np.real(v1))})
    else:
        res.count(f"strict-fp/same-value/{name}")


def work_strict_fp(task, res: Result):
    """strict-fp stream: the four distance measures on the instance kinds where exact zeros occur (equal channels: difference exactly zero, fidelity one) and on
    ordinary pairs / maps, each evaluated in the default error state and under StrictFP"""
    warnings.filterwarnings("ignore")
    d = task["d"]
    base = {"fn": "strict-fp", "d": d, "id": task["id"], "kind": task["kind"]}
    if "K1" in task or "J1" in task:
        J1, J2 = (choi_of(task["K1"]), choi_of(task["K2"])) if "K1" in task else (task["J1"], task["J2"])
        _strict_one(res, "diamond_distance", [J1, J1], dict(base, what="equal-channels", J1=J1, J2=J1))
        _strict_one(res, "channel_fidelity", [J1, J1], dict(base, what="equal-channels", J1=J1, J2=J1))
        _strict_one(res, "completely_bounded_trace_norm", [J1 - J1], dict(base, what="zero-map", J=J1 - J1))
        if task.get("pair", True):
            _strict_one(res, "diamond_distance", [J1, J2], dict(base, what="pair", J1=J1, J2=J2))
            _strict_one(res, "completely_bounded_spectral_norm", [J1 - J2], dict(base, what="difference", J=J1 - J2))
    else:
        J = task["J"] if "J" in task else choi_of(task["K"])
        _strict_one(res, "completely_bounded_trace_norm", [J], dict(base, what=task["kind"], J=J))
        _strict_one(res, "completely_bounded_spectral_norm", [J], dict(base, what=task["kind"], J=J))
        _strict_one(res, "diamond_distance", [J, J], dict(base, what="equal-maps", J1=J, J2=J))


def work_cf_dim_seq_strict(task, res: Result):
    """dispatcher, so that the three small streams share one pool phase"""
    return work_strict_fp(task, res) if task.get("strict_fp") else work_cf_sequence(task, res) if "level" in task else work_cf_dim(task, res)


def work_fos(task, res: Result):
    """channel fidelity of separability of a pure tripartite product state is 1"""
    from toqito.channel_metrics import fidelity_of_separability
    warnings.filterwarnings("ignore")
    vs, dims, k = task["vecs"], task["dims"], task["k"]
    v = vs[0]
    for w in vs[1:]:
        v = np.kron(v, w)
    rho = np.outer(v, v.conj())
    desc = {"fn": "fidelity_of_separability", "dims": dims, "k": k, "vecs": vs, "pres": task.get("pres")}
    st, val = Presenter(task.get("pres"), res, desc).call("main", fidelity_of_separability, rho, list(dims), k)
    res.case(desc, True, f"fos/{'x'.join(map(str, dims))}/k{k}/{st}")
    if st == "numfail":
        res.count("solver-numerical-failure")
    elif st == "raise":
        res.violation(f"channel fidelity_of_separability raises {val} on a pure product state", {"function": "fidelity_of_separability", "args": desc, "exception": val})
    elif abs(val - 1) > TAU_CB * 5:
        res.violation(f"channel fidelity_of_separability of a pure product state = {val:.8f}, expected 1", {"function": "fidelity_of_separability", "args": desc, "impl": val, "theorem": "property statement (product state: the identity extension attains 1)"})


# ------------------------------------------------------------------------------------------------
# streams `paths` and `embedding`: the code AROUND the programs (guards, shortcuts, dimension inference, dual_channel, solver
# arguments) against the Lean mirror `Toq.Model.ChanMetricsPath`, and the programs the code BUILDS (captured at Problem.solve, never
# solved) against the programs the theorems are about (Lean `cbDualBlock` / `ptrY`, `cfPrimalBlock` / `cfLoewnerSlack`)

EMB_TOL = 1e-12   # captured constraint matrix vs model matrix, entrywise, relative to max(1, scale) (float image of the same exact affine expression)
EMB_BAD = 1e-3    # a negative control must violate a captured constraint by at least this much
SHORTCUT_TOL = 1e-12


class _Captured(BaseException):
    """raised by the patched Problem.solve (BaseException: must pass through `except Exception` inside toqito)"""


def _capture(fn):
    """run fn() with picos.Problem.solve and cvxpy.Problem.solve replaced (this process only, restored afterwards) by recorders that keep the
    problem and abort.  Returns (outcome, picos captures, cvxpy captures); outcome = ('value', v) | ('captured',) | ('raise', type name, text);
    a capture is (problem, positional args, keyword args) of the solve call"""
    import cvxpy
    import picos
    gp, gc = [], []
    op, oc = picos.Problem.solve, cvxpy.Problem.solve

    def fp(self, *a, **kw):
        gp.append((self, a, dict(kw)))
        raise _Captured()

    def fc(self, *a, **kw):
        gc.append((self, a, dict(kw)))
        raise _Captured()

    picos.Problem.solve, cvxpy.Problem.solve = fp, fc
    try:
        try:
            out = ("value", fn())
        except _Captured:
            out = ("captured",)
        except Exception as e:  # noqa: BLE001
            out = ("raise", type(e).__name__, str(e)[:200])
    finally:
        picos.Problem.solve, cvxpy.Problem.solve = op, oc
    return out, gp, gc


def _lean_mat(j, n, m):
    """model matrix {"re":[[num,den]..],"im":..} -> complex float array (each entry rounded once)"""
    re = np.array([float(Fraction(a, b)) for a, b in j["re"]]).reshape(n, m)
    im = np.array([float(Fraction(a, b)) for a, b in j["im"]]).reshape(n, m)
    return re + 1j * im


def _lean_z(j):
    return complex(float(Fraction(*j["re"])), float(Fraction(*j["im"])))


def _close(A, B, tol=EMB_TOL):
    A, B = np.asarray(A, dtype=complex), np.asarray(B, dtype=complex)
    return A.shape == B.shape and float(np.max(np.abs(A - B), initial=0.0)) <= tol * max(1.0, float(np.max(np.abs(B), initial=0.0)))


def _min_eig_h(A):
    A = np.asarray(A, dtype=complex)
    return float(np.min(np.linalg.eigvalsh((A + A.conj().T) / 2)))


_SQRT_WEIGHTS = [[1.0], [0.5] * 4, [0.75, 0.5, 0.25, 0.25, 0.25], [0.5] * 3 + [0.25] * 4, [0.75, 0.5, 0.25, 0.25, 0.25]]


def gi_unitary(rng, d):
    """exact unitary with entries in {0, 1, i, -1, -i} (a phased permutation matrix)"""
    perm, ph = rng.permutation(d), rng.integers(0, 4, size=d)
    U = np.zeros((d, d), dtype=complex)
    for i in range(d):
        U[perm[i], i] = [1, 1j, -1, -1j][int(ph[i])]
    return U


def vec_k(K):
    """vec(K) in toqito's Choi convention: entry a*dY + y is K[y, a]"""
    return np.asarray(K, dtype=complex).T.reshape(-1)


def exact_channel(rng, d):
    """(L, J): a channel whose Choi matrix J = L L^H is an exact dyadic float matrix with the exact factor L (columns sqrt(p) vec(K)):
    a mixture with weights p = w^2 (w dyadic) of phased permutations and of reset channels (non-unital)"""
    cols = []
    for w in _SQRT_WEIGHTS[int(rng.integers(len(_SQRT_WEIGHTS)))]:
        if int(rng.integers(3)) == 0:
            k = int(rng.integers(d))                       # reset to |k>: Kraus operators |k><a|
            for a in range(d):
                K = np.zeros((d, d), dtype=complex)
                K[k, a] = [1, 1j, -1, -1j][int(rng.integers(4))]
                cols.append(w * vec_k(K))
        else:
            cols.append(w * vec_k(gi_unitary(rng, d)))
    L = np.stack(cols, axis=1)
    return L, L @ L.conj().T


def exact_cp(rng, d):
    """(L, J): a completely positive map that is far from trace preserving, Kraus operators with entries (a + bi)/2"""
    while True:
        r = int(rng.integers(1, 4))
        Ks = [(rng.integers(-2, 3, size=(d, d)) + 1j * rng.integers(-2, 3, size=(d, d))) / 2.0 for _ in range(r)]
        L = np.stack([vec_k(K) for K in Ks], axis=1)
        J = L @ L.conj().T
        T = J.reshape(d, d, d, d).trace(axis1=1, axis2=3)
        if np.max(np.abs(T - np.eye(d))) >= 0.25:
            return L, J


def _swap_choi(d):
    sw = np.zeros((d * d, d * d), dtype=complex)
    for a in range(d):
        for b in range(d):
            sw[a * d + b, b * d + a] = 1.0
    return sw


def gen_path_task(rng, i):
    d = int(rng.choice([2, 2, 3]))
    kind = ["channel", "cp", "noncp-tp", "noncp-herm", "diamond", "diamond-equal", "spectral-channel", "spectral-cp", "spectral-noncp", "nonsquare",
            "noncp-swap", "diamond"][i % 12]
    t = {"d": d, "kind": kind, "id": i, "seed": int(rng.integers(1, 2 ** 31)), "solver_form": int(rng.integers(4))}
    if kind in ("channel", "spectral-channel"):
        t["L"], t["J"] = exact_channel(rng, d)
    elif kind in ("cp", "spectral-cp"):
        t["L"], t["J"] = exact_cp(rng, d)
    elif kind in ("noncp-tp", "spectral-noncp"):
        a = float(rng.choice([0.25, 0.5, 1.0, 2.0]))
        while True:
            J1, J2 = exact_channel(rng, d)[1], exact_channel(rng, d)[1]
            J = (1 + a) * J1 - a * J2
            if _min_eig_h(J) <= -0.05:
                break
        t["J"] = J
    elif kind == "noncp-herm":
        while True:
            J = rand_herm(rng, d * d)
            if _min_eig_h(J) <= -0.05:
                break
        t["J"] = J
    elif kind == "noncp-swap":
        t["J"] = _swap_choi(d) * float(rng.choice([1.0, 0.5, 2.0]))
    elif kind == "diamond":
        while True:
            J1, J2 = exact_channel(rng, d)[1], exact_channel(rng, d)[1]
            if _min_eig_h(J1 - J2) <= -0.05:
                break
        t["J1"], t["J2"] = J1, J2
    elif kind == "diamond-equal":
        t["J1"] = exact_channel(rng, d)[1]
        t["J2"] = t["J1"].copy()
    else:
        r, c = [(4, 6), (6, 4), (4, 2), (9, 4)][int(rng.integers(4))]
        t["J"] = (rng.integers(-2, 3, size=(r, c)) + 1j * rng.integers(-2, 3, size=(r, c))) / 2.0
    return t


def _neg_witness(J):
    """untrusted: eigenvector of the smallest eigenvalue, rounded to 20 bits (the Lean model checks v^H J v <= -mu v^H v exactly)"""
    w, V = np.linalg.eigh((J + J.conj().T) / 2)
    return DM.from_float(V[:, [0]], 20)


def _swap_rows(A, d):
    """rows (x, y) -> (y, x) of a matrix whose rows are indexed by x*d + y"""
    A = np.asarray(A)
    return A.reshape(d, d, -1).transpose(1, 0, 2).reshape(d * d, -1)


def _model_path(drv, J, L=None, v=None):
    rows, cols = J.shape
    args = {"rows": rows, "cols": cols}
    if rows == cols:
        args["J"] = DM.exact_float(J).json()
        if L is not None:
            args["L"] = DM.exact_float(L).json()
            args["k"] = int(L.shape[1])
        if v is not None:
            args["v"] = v.json()
    return drv.ask("c20_cb_path", args)


def _cb_interior_point(rng, J, N):
    """exact dual-feasible point of Watrous' program for J: Y0 = J J^H + A A^H + 1/64, Y1 = 1 + B B^H (Y1 >= 1, so J Y1^-1 J^H <= J J^H < Y0)"""
    Jd = DM.exact_float(J)
    A = DM.from_float((rng.integers(-2, 3, size=(N, N)) + 1j * rng.integers(-2, 3, size=(N, N))) / 8.0, 3)
    B = DM.from_float((rng.integers(-2, 3, size=(N, N)) + 1j * rng.integers(-2, 3, size=(N, N))) / 8.0, 3)
    Y0 = ((Jd @ Jd.H()) + (A @ A.H()) + DM.eye(N).scale_dy(1, 6)).herm_part()
    Y1 = (DM.eye(N) + (B @ B.H())).herm_part()
    return Y0, Y1


def _certify_cb_dual_point(drv, Jd, Y0, Y1, dX, dY):
    """the verified checker's verdict on the dual point (Y0, Y1) with c_i just above lambda_max(Tr_Y Y_i)"""
    blk = dm_block(Y0, dm_neg(Jd), dm_neg(Jd.H()), Y1)
    T0, T1 = dm_ptr(Y0, dX, dY), dm_ptr(Y1, dX, dY)
    c0 = dyadic_up(float(np.max(np.linalg.eigvalsh(T0.to_float()))) + 2.0 ** -24)
    c1 = dyadic_up(float(np.max(np.linalg.eigvalsh(T1.to_float()))) + 2.0 ** -24)
    Lb = chol_factor(blk.to_float())
    L0 = chol_factor(float(c0) * np.eye(dX) - T0.to_float())
    L1 = chol_factor(float(c1) * np.eye(dX) - T1.to_float())
    if Lb is None or L0 is None or L1 is None:
        return None
    r = drv.ask("c20_cb_dual", {"dX": dX, "dY": dY, "J": Jd.json(), "Y0": Y0.json(), "Y1": Y1.json(), "c0": frac_json(c0), "c1": frac_json(c1),
                                "Lb": Lb.json(), "L0": L0.json(), "L1": L1.json()})
    return ok_val(r)


def _embed_cb(drv, res, rng, P, kw, J, dim, desc, near_optimal):
    """the captured picos problem of completely_bounded_trace_norm at exact points of the modelled dual program"""
    N = J.shape[0]
    thm = "checkCbDual_sound / cb_weak_duality (the program they speak about: cbDualBlock, ptrY)"
    names = sorted(P.variables.keys())
    if names != ["y0", "y1"] or any(tuple(P.variables[n_].shape) != (N, N) for n_ in names):
        raise CorrespondenceBroken(f"completely_bounded_trace_norm: the captured picos problem has variables {[(n_, tuple(P.variables[n_].shape)) for n_ in names]}, "
                                   f"the modelled program has y0, y1 of shape {(N, N)}")
    cons = list(P.constraints.values())
    if any(not hasattr(c, "psd") for c in cons):
        raise CorrespondenceBroken(f"completely_bounded_trace_norm: captured constraints {[type(c).__name__ for c in cons]}, the modelled program has semidefinite constraints only")
    big = [c for c in cons if tuple(c.psd.shape) == (2 * N, 2 * N)]
    if len(big) != 1:
        raise CorrespondenceBroken(f"completely_bounded_trace_norm: expected one {2 * N}x{2 * N} semidefinite constraint, captured shapes {[tuple(c.psd.shape) for c in cons]}")
    res.count("embedding/cb/problems-captured")
    if P.objective.direction != "min":
        res.violation(f"completely_bounded_trace_norm hands a '{P.objective.direction}' problem to the solver, the modelled dual program is a 'min' problem",
                      {"function": "completely_bounded_trace_norm", "args": desc, "impl": P.objective.direction, "model": "min", "check": "embedding-direction", "theorem": thm})
        return
    Jd = DM.exact_float(J)
    pts = [("interior",) + _cb_interior_point(rng, J, N)]
    if near_optimal:
        try:
            sol = solve_cb_ref(Jd.to_float(), dim, dim)
            eta = DM.eye(N).scale_dy(1, 22)
            pts.append(("near-optimal", DM.from_float((sol["Y0"] + sol["Y0"].conj().T) / 2, 40).herm_part() + eta,
                        DM.from_float((sol["Y1"] + sol["Y1"].conj().T) / 2, 40).herm_part() + eta))
        except Exception:  # noqa: BLE001
            res.count("embedding/cb/ref-solve-failed")
    for pname, Y0, Y1 in pts:
        d2 = dict(desc, point=pname)
        hi = _certify_cb_dual_point(drv, Jd, Y0, Y1, dim, dim)
        if hi is None:
            res.count(f"embedding/cb/{pname}-point-not-certified")
        m = drv.ask("c20_cb_program", {"dX": dim, "dY": dim, "J": Jd.json(), "Y0": Y0.json(), "Y1": Y1.json()})
        Mb, T0, T1 = _lean_mat(m["block"], 2 * N, 2 * N), _lean_mat(m["T0"], dim, dim), _lean_mat(m["T1"], dim, dim)
        controls = [(pname, Y0, Y1, True)]
        if pname == "interior":
            controls.append(("Y1-too-small", Y0, DM.eye(N).scale_dy(1, 12), False))
            controls.append(("Y0-not-psd", Y0 - DM.eye(N).scale_dy(int(4 + 4 * np.max(np.abs(Y0.to_float()))), 0), Y1, False))
        for cname, A0, A1, feasible in controls:
            try:
                P.variables["y0"].value = A0.to_float()
                P.variables["y1"].value = A1.to_float()
            except Exception as e:  # noqa: BLE001
                res.case(d2, True, "embedding/cb/variable-refuses-point")
                res.violation(f"completely_bounded_trace_norm: a point of the modelled program cannot be written into the variables of the program the code builds ({type(e).__name__}: {str(e)[:150]})",
                              {"function": "completely_bounded_trace_norm", "args": d2, "check": "embedding-variable", "theorem": thm})
                return
            slacks = [np.atleast_2d(np.array(c.psd.np, dtype=complex)) for c in cons]
            vio = max(max(-_min_eig_h(a), float(np.max(np.abs(a - a.conj().T)))) for a in slacks)
            if not feasible:
                res.case(dict(d2, control=cname), True, f"embedding/cb/control/{cname}")
                if vio < EMB_BAD:
                    res.violation(f"completely_bounded_trace_norm: the program the code builds accepts the infeasible point '{cname}' of the modelled program (largest constraint violation {vio:.3g})",
                                  {"function": "completely_bounded_trace_norm", "args": dict(d2, control=cname), "impl": vio, "model": "infeasible", "check": "embedding-control", "theorem": thm})
                continue
            res.case(d2, hi is not None, f"embedding/cb/{pname}")
            bs = np.atleast_2d(np.array(big[0].psd.np, dtype=complex))
            if not _close(bs, Mb):
                res.violation(f"completely_bounded_trace_norm: the {2 * N}x{2 * N} constraint matrix of the program the code builds differs from the model's [[Y0,-J],[-J^H,Y1]] at the point '{pname}' "
                              f"(max entry difference {float(np.max(np.abs(bs - Mb))):.3g})",
                              {"function": "completely_bounded_trace_norm", "args": d2, "impl": bs, "model": Mb, "check": "embedding-block", "theorem": thm})
                return
            want = float(np.linalg.norm(T0, 2) + np.linalg.norm(T1, 2))
            got = float(np.real(P.objective.function.value))
            if abs(got - want) > 1e-9 * max(1.0, want):
                res.violation(f"completely_bounded_trace_norm: objective of the program the code builds = {got:.10f} at the point '{pname}', the model's ||Tr_Y Y0|| + ||Tr_Y Y1|| = {want:.10f}",
                              {"function": "completely_bounded_trace_norm", "args": d2, "impl": got, "model": want, "check": "embedding-objective", "theorem": thm})
                return
            if hi is not None and vio > 1e-9:
                res.violation(f"completely_bounded_trace_norm: the program the code builds rejects the certified feasible point '{pname}' of the modelled program (constraint violation {vio:.3g})",
                              {"function": "completely_bounded_trace_norm", "args": d2, "impl": vio, "model": "feasible", "check": "embedding-feasible", "theorem": thm})
                return
            res.count("embedding/cb/points-agree")


def work_paths(task, res: Result):
    from toqito.channel_metrics import completely_bounded_spectral_norm, completely_bounded_trace_norm, diamond_distance
    from toqito.channel_ops import dual_channel
    warnings.filterwarnings("ignore")
    drv = worker_driver()
    rng = np.random.default_rng(task["seed"])
    d, kind = task["d"], task["kind"]
    base = {"fn": "paths", "kind": kind, "d": d, "id": task["id"], "pres": task.get("pres"), "seed": task["seed"], "solver_form": task["solver_form"], "L": task.get("L")}
    thm = "cbPath_notSquare / cbPath_channelOne_sound / cbPath_cpShortcut_sound / cbPath_sdp_dim / cbSpectral_model"
    prng = call_rng(task.get("pres"), "paths")
    # --- the exact argument of completely_bounded_trace_norm on this call path, with certificates for the model's verdicts
    fname = "completely_bounded_trace_norm"
    if kind.startswith("diamond"):
        fname = "diamond_distance"
        J1, J2 = task["J1"], task["J2"]
        Jeff = J1 - J2
        L = np.zeros((d * d, 1), dtype=complex) if kind == "diamond-equal" else None
        args = [present_nd(prng, J1.copy()), present_nd(prng, J2.copy())]
        fn = diamond_distance
        desc = dict(base, J1=J1, J2=J2)
    elif kind.startswith("spectral"):
        fname = "completely_bounded_spectral_norm"
        J = task["J"]
        md = drv.ask("c20_dual_choi", {"dX": d, "dY": d, "J": DM.exact_float(J).json()})
        Jeff = _lean_mat(md["D"], d * d, d * d)
        a_J = present_nd(call_rng(task.get("pres"), "dual"), J.copy())
        try:
            td = np.asarray(dual_channel(a_J))
            if td.shape != Jeff.shape or np.max(np.abs(td - Jeff)) > 0:
                res.violation("dual_channel(J) differs from the model's Choi matrix of the adjoint map (dualChoiE)", {"function": "dual_channel", "args": dict(base, J=J), "impl": td, "model": Jeff, "theorem": "toP_dualChoiE / cbSpectral_model"})
                return
        except Exception as e:  # noqa: BLE001
            res.violation(f"dual_channel raises {type(e).__name__} on a Choi matrix", {"function": "dual_channel", "args": dict(base, J=J), "exception": str(e)[:200]})
            return
        L = np.conj(_swap_rows(task["L"], d)) if task.get("L") is not None else None
        args = [present_nd(prng, J.copy())]
        fn = completely_bounded_spectral_norm
        desc = dict(base, J=J)
    else:
        Jeff = task["J"]
        L = task.get("L")
        args = [present_nd(prng, Jeff.copy())]
        fn = completely_bounded_trace_norm
        desc = dict(base, J=Jeff)
    v = None
    if Jeff.shape[0] == Jeff.shape[1] and L is None:
        v = _neg_witness(Jeff)
    m = _model_path(drv, Jeff, L, v)
    if "reject" in m:
        raise RuntimeError(f"c20_cb_path rejected the request: {m}")
    path = m["path"]
    kw = {}
    if fn is completely_bounded_trace_norm and task["solver_form"] == 1:
        args.append("cvxopt")                       # the solver as a positional argument
    elif fn is completely_bounded_trace_norm and task["solver_form"] == 2:
        kw = {"solver": "cvxopt", "abs_prim_fsb_tol": 1e-9}    # solver as a keyword plus a solver option (must reach Problem.solve)
    guard = Pure(*[a for a in args if isinstance(a, np.ndarray)])
    out, gp, gc = _capture(lambda: fn(*args, **kw))
    why = guard.modified()
    if why is not None:
        res.violation(f"{fname}: caller's arguments were modified ({why})", {"function": fname, "args": desc, "modified": why, "check": "purity"})
    res.case(desc, path != "undecided", f"paths/{kind}/d{d}/{path}")
    if path == "undecided":
        res.count("paths/undecided")           # a certificate could not be produced: no verdict
        return
    info = {"function": fname, "args": desc, "model": m, "impl": out[:2] if out[0] != "value" else ("value", out[1]), "check": "path", "theorem": thm}
    if gc:
        raise CorrespondenceBroken(f"{fname} hands a cvxpy problem to a solver; the modelled code builds a picos problem")

    def judge(val, what):
        """the code left the modelled path and returned `val`: a failing input when `val` is outside the certified optimum of the exact instance
        (theorem cb_bracket), otherwise only the correspondence is broken"""
        Jc = np.asarray(Jeff, dtype=complex)
        lo, hi = _cb_interval(drv, res, Jc, d, d, "paths-mismatch")
        if lo is not None and not (lo - TAU_CB <= float(np.real(val)) <= hi + TAU_CB):
            T = Jc.reshape(d, d, d, d).trace(axis1=1, axis2=3)
            res.violation(f"{fname} = {float(np.real(val)):.8f} outside the certified optimum [{lo:.8f}, {hi:.8f}] ({what})",
                          dict(info, impl=float(np.real(val)), certified=[lo, hi], tau=TAU_CB, theorem="cb_bracket / " + thm,
                               cp_non_tp=bool(is_psd(Jc) and np.max(np.abs(T - np.eye(d))) >= 1e-6), trace_of_ptr=float(np.real(np.trace(T))),
                               lam_max=float(np.max(np.linalg.eigvalsh((T + T.conj().T) / 2)))))
            return
        raise CorrespondenceBroken(f"{fname} ({kind}, d={d}): {what}; the value returned is inside the certified optimum, so this is no failing input")

    if path == "not_square":
        if out[0] != "raise" or out[1] != "ValueError":
            raise CorrespondenceBroken(f"{fname}: a {Jeff.shape[0]}x{Jeff.shape[1]} argument is not rejected with ValueError ({out[:2]}); the modelled code rejects it (outside the property's quantifier: no failing input)")
        return
    if out[0] == "raise":
        res.violation(f"{fname} raises {out[1]}: {out[2]} (model path: {path})", dict(info, exception=out[2]))
        return
    if path in ("channel_one", "cp_shortcut"):
        z = _lean_z(m["value"])
        if out[0] != "value" or gp:
            raise CorrespondenceBroken(f"{fname} ({kind}, d={d}): the modelled code takes the shortcut '{path}' (verdicts cp={m['cp']}, tp={m['tp']}), the code hands a program to the solver")
        val = complex(out[1])
        if abs(val - abs(z)) > SHORTCUT_TOL * max(1.0, abs(z)) or (path == "channel_one" and val != 1):
            judge(val, f"shortcut '{path}' returns {out[1]!r}, the modelled code (its formula on the exact data) gives {abs(z)!r}")
            return
        res.count(f"paths/shortcut-agrees/{path}")
        return
    # --- SDP path
    if out[0] == "value" and not gp:
        judge(out[1], f"the modelled code takes the SDP path (is_completely_positive = no by an exact negative witness), the code returns {out[1]!r} without handing a program to the solver")
        return
    if out[0] != "captured" or len(gp) != 1:
        raise CorrespondenceBroken(f"{fname} ({kind}, d={d}): the modelled code hands exactly one program to the solver, the code: {out[:2]}, {len(gp)} captured")
    P, pa, pk = gp[0]
    want_solver = "cvxopt"
    got_solver = pk.get("solver", pa[0] if pa else None)
    if got_solver != want_solver:
        raise CorrespondenceBroken(f"{fname}: Problem.solve is called with solver={got_solver!r}, the call asked for {want_solver!r}")
    if kw and pk.get("abs_prim_fsb_tol") != 1e-9:
        raise CorrespondenceBroken(f"{fname}: the solver option abs_prim_fsb_tol=1e-9 does not reach Problem.solve (got {pk})")
    if m["dim"] != d:
        res.violation("model: inferred subsystem dimension differs from the generated one (harness error)", info)
        return
    _embed_cb(drv, res, rng, P, pk, np.asarray(Jeff, dtype=complex), d, desc, near_optimal=(task["id"] % 3 == 0))


def gen_embed_cf_task(rng, i):
    d = 2 if i % 4 else 3
    J1, J2 = exact_channel(rng, d)[1], exact_channel(rng, d)[1]
    p1, p2 = float(rng.choice([0.125, 0.25])), float(rng.choice([0.25, 0.5]))
    if i % 5 == 4:
        J1 = J1.real + 0j if np.any(J1.imag) else J1           # keep the instance, the presentation decides the dtype
    zeta = complex(int(rng.integers(1, 4)), int(rng.integers(-3, 4))) / 8.0
    return {"d": d, "id": i, "J1": _mix_full(J1, p1, d), "J2": _mix_full(J2, p2, d), "zeta": zeta, "seed": int(rng.integers(1, 2 ** 31)),
            "eps": [None, None, 1e-5, 1e-6][i % 4]}


def work_embed_cf(task, res: Result):
    """the cvxpy problem channel_fidelity builds, at exact points of the modelled primal program"""
    from toqito.channel_metrics import channel_fidelity
    warnings.filterwarnings("ignore")
    drv = worker_driver()
    d = task["d"]
    N = d * d
    J1, J2 = task["J1"], task["J2"]
    J1, J2 = (J1 + J1.conj().T) / 2, (J2 + J2.conj().T) / 2
    desc = {"fn": "embedding-cf", "d": d, "id": task["id"], "J1": J1, "J2": J2, "eps": task["eps"], "pres": task.get("pres"), "seed": task["seed"], "zeta": task["zeta"]}
    thm = "checkCfPrimal_sound / cf_weak_duality / cfLoewnerSlack_toM (the program they speak about)"
    prng = call_rng(task.get("pres"), "embed-cf")
    a1, a2 = present_nd(prng, _as_given(J1).copy()), present_nd(prng, _as_given(J2).copy())
    kw = {} if task["eps"] is None else {"eps": task["eps"]}
    out, gp, gc = _capture(lambda: channel_fidelity(a1, a2, **kw))
    mp_ = drv.ask("c20_cf_path", {"r1": N, "c1": N, "r2": N, "c2": N})
    if out[0] == "raise":
        res.case(desc, True, "embedding/cf/raise")
        res.violation(f"channel_fidelity raises {out[1]}: {out[2]} on a pair of channels of local dimension {d}", {"function": "channel_fidelity", "args": desc, "exception": out[2], "local_dim": d, "theorem": "cfPath_sq"})
        return
    if gp or len(gc) != 1 or out[0] != "captured":
        raise CorrespondenceBroken(f"channel_fidelity: expected exactly one cvxpy problem handed to solve(), captured {len(gc)} cvxpy / {len(gp)} picos problems, outcome {out[:2]}")
    P, pa, pk = gc[0]
    import cvxpy
    if pk.get("solver") != cvxpy.SCS or pk.get("eps") != (1e-7 if task["eps"] is None else task["eps"]):
        raise CorrespondenceBroken(f"channel_fidelity: Problem.solve is called with {pk}, the modelled code calls it with solver=SCS and eps={1e-7 if task['eps'] is None else task['eps']}")
    vs = P.variables()
    sc = [v_ for v_ in vs if tuple(v_.shape) in ((), (1,), (1, 1))]
    mv = [v_ for v_ in vs if tuple(v_.shape) == (N, N)]
    if len(vs) != 2 or len(sc) != 1 or len(mv) != 1:
        raise CorrespondenceBroken(f"channel_fidelity: the captured problem has variables of shapes {[tuple(v_.shape) for v_ in vs]}, the modelled program has a scalar and a {N}x{N} matrix")
    lam_v, q_v = sc[0], mv[0]
    cons = P.constraints
    if any(type(c).__name__ != "PSD" for c in cons):
        raise CorrespondenceBroken(f"channel_fidelity: captured constraints {[type(c).__name__ for c in cons]}, the modelled program has semidefinite constraints only")
    shapes = sorted(tuple(c.args[0].shape) for c in cons)
    if shapes != sorted([(2 * N, 2 * N), (mp_["dim"], mp_["dim"])]):
        res.case(desc, True, "embedding/cf/shapes")
        res.violation(f"channel_fidelity: the program the code builds has semidefinite constraints of shapes {shapes}, the model's: {[(2 * N, 2 * N), (mp_['dim'], mp_['dim'])]} (inferred local dimension {mp_['dim']})",
                      {"function": "channel_fidelity", "args": desc, "impl": shapes, "model": mp_, "check": "embedding-shapes", "local_dim": d, "theorem": "cfPath_sq"})
        return
    cb = [c for c in cons if tuple(c.args[0].shape) == (2 * N, 2 * N)][0]
    cs = [c for c in cons if c is not cb][0]
    res.count("embedding/cf/problems-captured")
    if type(P.objective).__name__ != "Maximize":
        res.violation("channel_fidelity hands a minimisation problem to the solver, the modelled primal program maximises lambda", {"function": "channel_fidelity", "args": desc, "check": "embedding-direction", "theorem": thm})
        return
    E1, E2 = DM.exact_float(J1), DM.exact_float(J2)
    # exact points: Q = zeta * J1 scaled so that J2 >= |zeta|^2 J1 with a margin; near-optimal point of the reference solver
    zeta = task["zeta"]
    lmin2, lmax1 = _min_eig_h(J2), -_min_eig_h(-J1)
    k = 0
    while abs(zeta) ** 2 * lmax1 / (4.0 ** k) > 0.8 * lmin2 and k < 12:
        k += 1
    zr, zi = int(round(zeta.real * 8)), int(round(zeta.imag * 8))
    Q = DM(E1.re * zr - E1.im * zi, E1.re * zi + E1.im * zr, E1.e + 3 + k)
    pts = [("interior", Q)]
    if task["id"] % 2 == 0:
        try:
            sol = solve_cf_ref(E1.to_float(), E2.to_float(), d, d, primal=True)
            pts.append(("near-optimal", DM.from_float(sol["Q"], 40).scale_dy((1 << 16) - 1, 16)))
        except Exception:  # noqa: BLE001
            res.count("embedding/cf/ref-solve-failed")
    for pname, Qp in pts:
        d2 = dict(desc, point=pname)
        T = dm_ptr(Qp, d, d).herm_part()
        lam = dyadic_down(float(np.min(np.linalg.eigvalsh(T.to_float()))) - 2.0 ** -24)
        if lam < 0:
            res.count(f"embedding/cf/{pname}-point-negative-lambda")
            continue
        Lb = chol_factor(dm_block(E1, Qp.H(), Qp, E2).to_float())
        Lc = chol_factor(T.to_float() - float(lam) * np.eye(d))
        lo = None
        if Lb is not None and Lc is not None:
            lo = ok_val(drv.ask("c20_cf_primal", {"dX": d, "dY": d, "J1": E1.json(), "J2": E2.json(), "Q": Qp.json(), "lam": frac_json(lam), "Lb": Lb.json(), "Lc": Lc.json()}))
        if lo is None:
            res.count(f"embedding/cf/{pname}-point-not-certified")
        controls = [(pname, Qp, lam, True)]
        if pname == "interior":
            controls.append(("lambda-too-large", Qp, lam + Fraction(1, 2), False))
            controls.append(("Q-too-large", Qp.scale_dy(1 << (k + 6), 0), lam, False))
        for cname, Qc, lc, feasible in controls:
            m = drv.ask("c20_cf_program", {"dX": d, "dY": d, "J1": E1.json(), "J2": E2.json(), "Q": Qc.json(), "lam": frac_json(lc)})
            Mb, Ms = _lean_mat(m["block"], 2 * N, 2 * N), _lean_mat(m["slack"], d, d)
            try:
                q_v.value = Qc.to_float()
                lam_v.value = float(lc)
            except Exception as e:  # noqa: BLE001
                res.case(d2, True, "embedding/cf/variable-refuses-point")
                res.violation(f"channel_fidelity: a point of the modelled program cannot be written into the variables of the program the code builds ({type(e).__name__}: {str(e)[:150]})",
                              {"function": "channel_fidelity", "args": d2, "check": "embedding-variable", "theorem": thm, "local_dim": d})
                return
            vb, vsl = np.array(cb.args[0].value, dtype=complex), np.array(cs.args[0].value, dtype=complex)
            vio = max(-_min_eig_h(vb), -_min_eig_h(vsl))
            if not feasible:
                res.case(dict(d2, control=cname), True, f"embedding/cf/control/{cname}")
                if vio < EMB_BAD:
                    res.violation(f"channel_fidelity: the program the code builds accepts the infeasible point '{cname}' of the modelled program (largest constraint violation {vio:.3g})",
                                  {"function": "channel_fidelity", "args": dict(d2, control=cname), "impl": vio, "model": "infeasible", "check": "embedding-control", "theorem": thm, "local_dim": d})
                continue
            res.case(d2, lo is not None, f"embedding/cf/{pname}")
            if not _close(vb, Mb) or not _close(vsl, Ms):
                which = "block [[J1,Q^H],[Q,J2]]" if not _close(vb, Mb) else "slack (Tr_Y Q + (Tr_Y Q)^H)/2 - lambda 1"
                res.violation(f"channel_fidelity: the {which} of the program the code builds differs from the model's at the point '{pname}'",
                              {"function": "channel_fidelity", "args": d2, "impl": [vb, vsl], "model": [Mb, Ms], "check": "embedding-block", "theorem": thm, "local_dim": d})
                return
            if abs(float(np.real(P.objective.args[0].value)) - float(lc)) > 1e-15:
                res.violation("channel_fidelity: the objective of the program the code builds is not lambda", {"function": "channel_fidelity", "args": d2, "check": "embedding-objective", "theorem": thm, "local_dim": d})
                return
            if lo is not None and vio > 1e-9:
                res.violation(f"channel_fidelity: the program the code builds rejects the certified feasible point '{pname}' of the modelled program (constraint violation {vio:.3g})",
                              {"function": "channel_fidelity", "args": d2, "impl": vio, "model": "feasible", "check": "embedding-feasible", "theorem": thm, "local_dim": d})
                return
            res.count("embedding/cf/points-agree")


def work_cf_path(task, res: Result):
    """guards and dimension inference of channel_fidelity (no solve): shapes as generated, every local dimension 2..7"""
    from toqito.channel_metrics import channel_fidelity
    warnings.filterwarnings("ignore")
    drv = worker_driver()
    (r1, c1), (r2, c2) = task["s1"], task["s2"]
    rng = np.random.default_rng(task["seed"])
    desc = {"fn": "cf-path", "s1": [r1, c1], "s2": [r2, c2], "seed": task["seed"]}
    m = drv.ask("c20_cf_path", {"r1": r1, "c1": c1, "r2": r2, "c2": c2})
    if r1 == c1 and (r1, c1) == (r2, c2) and round(np.sqrt(r1)) ** 2 == r1:
        dd = int(round(np.sqrt(r1)))
        A = np.eye(r1) / dd                      # completely depolarizing channel of local dimension dd
        B = np.zeros((r1, r1))
        for a in range(dd):
            for b in range(dd):
                B[a * dd + a, b * dd + b] = 1.0  # identity channel
        B = 0.5 * A + 0.5 * B
    else:
        A = rng.integers(-2, 3, size=(r1, c1)) / 2.0
        B = rng.integers(-2, 3, size=(r2, c2)) / 2.0
    out, gp, gc = _capture(lambda: channel_fidelity(A, B))
    res.case(desc, True, f"cf-path/{m['path']}")
    info = {"function": "channel_fidelity", "args": desc, "model": m, "impl": out[:2], "check": "path", "theorem": "cfPath_sq / cfPath_guards", "local_dim": int(round(np.sqrt(r1)))}
    if m["path"] in ("shape_mismatch", "not_square"):
        if out[0] != "raise" or out[1] != "ValueError":
            raise CorrespondenceBroken(f"channel_fidelity: arguments of shapes {(r1, c1)}, {(r2, c2)} are not rejected with ValueError ({out[:2]}); the modelled code rejects them (outside the property's quantifier: no failing input)")
        return
    if out[0] == "raise":
        res.violation(f"channel_fidelity raises {out[1]}: {out[2]} on two channels of local dimension {m['dim']}", dict(info, exception=out[2]))
        return
    if len(gc) != 1 or gp:
        raise CorrespondenceBroken(f"channel_fidelity: expected exactly one cvxpy problem handed to solve(), captured {len(gc)} cvxpy / {len(gp)} picos")
    shapes = sorted(tuple(c.args[0].shape) for c in gc[0][0].constraints)
    if shapes != sorted([(2 * r1, 2 * r1), (m["dim"], m["dim"])]):
        res.violation(f"channel_fidelity: for {r1}x{r1} Choi matrices the program the code builds has constraints of shapes {shapes}; the model infers the local dimension {m['dim']}", info)



# ------------------------------------------------------------------------------------------------
# streams `fos-program` and `fos-guards`: the program channel `fidelity_of_separability` BUILDS (captured at Problem.solve, never solved)
# against the Lean mirror `Toq.Model.ChanMetricsFos` (ops c20_fos_program / c20_fos_path / c20_fos_return), at the exact feasible point of
# theorem `fos_feasible_product` (objective exactly 1: `fos_obj_product`), at random exact Hermitian points and at negative controls

FOS_FEAS = 1e-9     # a captured constraint at (the float image of) the exact feasible point
FOS_OBJ = 1e-12     # the captured objective there against 1
FOS_STUB = 0.8125   # the value the recording "solver" reports in the return-line check (2 v - 1 = 0.625)


class CQ:
    """exact complex rational matrix (numpy object arrays of Fractions)"""

    def __init__(self, re, im):
        self.re, self.im = re, im

    @staticmethod
    def zeros(n, m=None):
        m = n if m is None else m
        re = np.empty((n, m), dtype=object)
        re[...] = Fraction(0)
        return CQ(re, re.copy())

    @staticmethod
    def eye(n):
        out = CQ.zeros(n)
        for i in range(n):
            out.re[i, i] = Fraction(1)
        return out

    @staticmethod
    def col(v, den=1):
        """column vector from Gaussian integers [(re, im), ...] divided by den"""
        out = CQ.zeros(len(v), 1)
        for i, (a, b) in enumerate(v):
            out.re[i, 0], out.im[i, 0] = Fraction(int(a), den), Fraction(int(b), den)
        return out

    @staticmethod
    def from_gi(Z, den):
        """complex array with Gaussian integer entries, divided by den"""
        Z = np.asarray(Z)
        out = CQ.zeros(*Z.shape)
        for i in range(Z.shape[0]):
            for j in range(Z.shape[1]):
                out.re[i, j], out.im[i, j] = Fraction(int(round(Z[i, j].real)), den), Fraction(int(round(Z[i, j].imag)), den)
        return out

    def __matmul__(self, o):
        return CQ(self.re.dot(o.re) - self.im.dot(o.im), self.re.dot(o.im) + self.im.dot(o.re))

    def __add__(self, o):
        return CQ(self.re + o.re, self.im + o.im)

    def __sub__(self, o):
        return CQ(self.re - o.re, self.im - o.im)

    def H(self):
        return CQ(self.re.T.copy(), -self.im.T.copy())

    def kron(self, o):
        return CQ(np.kron(self.re, o.re) - np.kron(self.im, o.im), np.kron(self.re, o.im) + np.kron(self.im, o.re))

    def scale(self, q):
        q = Fraction(q)
        return CQ(self.re * q, self.im * q)

    def to_float(self):
        return np.array(self.re, dtype=float) + 1j * np.array(self.im, dtype=float)

    def json(self):
        from math import lcm
        fr, fi = [Fraction(x) for x in self.re.reshape(-1)], [Fraction(x) for x in self.im.reshape(-1)]
        den = 1
        for x in fr + fi:
            den = lcm(den, x.denominator)
        return {"den": den, "re": [int(x * den) for x in fr], "im": [int(x * den) for x in fi]}


_UNIT_POOL = {}


def unit_pool(d):
    """all exactly rational unit vectors v/s of dimension d: Gaussian integer entries with |re|, |im| <= 2 (<= 3 for d = 2), squared norm a perfect
    square s^2, at least two non-zero entries, not all real and not all imaginary (complex amplitudes), first non-zero entry not normalised (phases matter)"""
    if d not in _UNIT_POOL:
        import itertools
        lim = 3 if d == 2 else 2
        ent = [(a, b) for a in range(-lim, lim + 1) for b in range(-lim, lim + 1)]
        out = []
        for v in itertools.product(ent, repeat=d):
            n2 = sum(a * a + b * b for a, b in v)
            s = int(round(n2 ** 0.5))
            if n2 == 0 or s * s != n2 or sum(1 for a, b in v if (a, b) != (0, 0)) < 2:
                continue
            if all(b == 0 for a, b in v) or all(a == 0 for a, b in v):
                continue
            out.append(([list(z) for z in v], s))
        _UNIT_POOL[d] = out
    return _UNIT_POOL[d]


def draw_unit(rng, d):
    pool = unit_pool(d)
    return pool[int(rng.integers(len(pool)))]


def _fos_capture(fn, stub):
    """run fn() with picos.Problem.solve replaced (this process only) by a recorder that keeps the problem and reports the optimum `stub`
    without solving.  Returns (outcome, captures); outcome = ('value', v) | ('raise', type name, text)"""
    import picos
    got = []
    orig = picos.Problem.solve

    class _Sol:
        value = stub

    def fake(self, *a, **kw):
        got.append((self, a, dict(kw)))
        return _Sol()

    picos.Problem.solve = fake
    try:
        try:
            out = ("value", fn())
        except Exception as e:  # noqa: BLE001
            out = ("raise", type(e).__name__, str(e)[:200])
    finally:
        picos.Problem.solve = orig
    return out, got


def _np2(x):
    return np.atleast_2d(np.array(x.np, dtype=complex))


def _fos_read(P, k, dR, NC):
    """the captured problem in the modelled shape: (variable S, [trace eq, psd, sym eq, ppt_1..ppt_k]); anything else breaks the correspondence"""
    names = sorted(P.variables.keys())
    if names != ["S"] or tuple(P.variables["S"].shape) != (NC, NC) or type(P.variables["S"]).__name__ != "HermitianVariable":
        raise CorrespondenceBroken(f"channel fidelity_of_separability: the captured picos problem has variables {[(n_, type(P.variables[n_]).__name__, tuple(P.variables[n_].shape)) for n_ in names]}, "
                                   f"the modelled program has one Hermitian variable S of shape {(NC, NC)}")
    cons = list(P.constraints.values())
    kinds = ["psd" if hasattr(c, "psd") else ("eq" if type(c).__name__.endswith("AffineConstraint") else type(c).__name__) for c in cons]
    want = ["eq", "psd", "eq"] + ["psd"] * k
    if kinds != want:
        raise CorrespondenceBroken(f"channel fidelity_of_separability (k={k}): captured constraints {kinds}, the modelled program has {want} "
                                   "(trace, choi >= 0, support on the symmetric subspace, one partial transpose per level)")
    shapes = [tuple(c.psd.shape) if hasattr(c, "psd") else tuple(c.lhs.shape) for c in cons]
    wshapes = [(dR, dR), (NC, NC), (NC, NC)] + [(NC, NC)] * k
    if shapes != wshapes:
        raise CorrespondenceBroken(f"channel fidelity_of_separability (k={k}): captured constraint shapes {shapes}, the modelled program has {wshapes}")
    return P.variables["S"], cons


def _fos_eval(S, cons, P, X):
    """values of the captured expressions at the float point X"""
    S.value = X
    tr = _np2(cons[0].lhs - cons[0].rhs)
    sy = _np2(cons[2].lhs - cons[2].rhs)
    psd = [_np2(cons[1].psd)] + [_np2(c.psd) for c in cons[3:]]
    obj = complex(P.objective.function.value)
    return tr, sy, psd, obj


def _fos_violation(tr, sy, psd):
    """largest constraint violation of a captured point"""
    v = max(float(np.max(np.abs(tr))), float(np.max(np.abs(sy))))
    for a in psd:
        v = max(v, -_min_eig_h(a), float(np.max(np.abs(a - a.conj().T))))
    return v


def _fos_state(task):
    """exact product state b (x) a (x) r on B A R, its vector, and the exact projector a a^H"""
    (vb, sb), (va, sa), (vr, sr) = task["vecs"]
    b, a, r = CQ.col(vb, sb), CQ.col(va, sa), CQ.col(vr, sr)
    w = b.kron(a).kron(r)
    return w, w @ w.H(), a @ a.H()


def _fos_call_args(task, rho_f, prng):
    dims, k = list(task["dims"]), task["k"]
    form = task.get("form", 0)
    arr = present_nd(prng, rho_f.copy())
    if form == 0:
        return (arr, dims, k), {}
    if form == 1:
        return (arr, dims), {"k": k, "solver_option": "cvxopt"}
    if form == 2:
        return (arr, dims, k, 0, "cvxopt"), {}
    return (arr, dims), {"k": k, "verbosity_option": 0}


def work_fos_program(task, res: Result):
    from toqito.channel_metrics import fidelity_of_separability
    warnings.filterwarnings("ignore")
    drv = worker_driver()
    dB, dA, dR = task["dims"]
    k = task["k"]
    rng = np.random.default_rng(task["seed"])
    desc = {"fn": "fos-program", "dims": list(task["dims"]), "k": k, "vecs": task["vecs"], "other": task.get("other"), "seed": task["seed"], "form": task.get("form", 0), "id": task.get("id", 0), "pres": task.get("pres")}
    thm = "fos_feasible_product / fos_obj_product / fos_obj_le_one / fos_optimum_product (the program they speak about: Toq.Model.ChanMetricsFos.exprs)"
    w, rho, Pa = _fos_state(task)
    rho_f = rho.to_float()
    NP, NC = dB * dA * dR, dR * dA ** k
    # --- guards: the model's cascade on exact verdicts (psd factor = the state vector itself)
    mp_ = drv.ask("c20_fos_path", {"n": NP, "dims": list(task["dims"]), "rho": rho.json(), "L": w.json(), "k": 1})
    if mp_.get("path") != "program" or (mp_["dR"], mp_["dA"], mp_["dB"]) != (dR, dA, dB):
        res.case(desc, True, "fos-program/model-path")
        res.violation(f"model: the guard cascade does not accept an exact pure product state ({mp_}) (harness/model error; theorem fos_accepts_pure)", {"function": "fidelity_of_separability", "args": desc, "model": mp_, "check": "fos-model-path"})
        return
    prng = call_rng(task.get("pres"), "fos-program")
    a, kw = _fos_call_args(task, rho_f, prng)
    guard = Pure(*[x for x in a if isinstance(x, np.ndarray)])
    out, got = _fos_capture(lambda: fidelity_of_separability(*a, **kw), 1.0)
    why = guard.modified()
    if why is not None:
        res.violation(f"fidelity_of_separability: caller's arguments were modified ({why})", {"function": "fidelity_of_separability", "args": desc, "modified": why, "check": "purity"})
    res.case(desc, True, f"fos-program/{dB}x{dA}x{dR}/k{k}/form{task.get('form', 0)}")
    if out[0] == "raise":
        res.violation(f"channel fidelity_of_separability raises {out[1]}: {out[2]} on a pure product state (the modelled guards accept it)",
                      {"function": "fidelity_of_separability", "args": desc, "exception": out[2], "model": mp_, "check": "fos-guards", "theorem": "fosPath_program_iff / fos_accepts_pure"})
        return
    if len(got) != 1:
        raise CorrespondenceBroken(f"channel fidelity_of_separability: the modelled code hands exactly one picos problem to the solver, captured {len(got)}")
    P, pa, pk = got[0]
    if pk.get("solver", pa[0] if pa else None) != "cvxopt" or len(pa) > 1 or set(pk) - {"solver"}:
        raise CorrespondenceBroken(f"channel fidelity_of_separability: Problem.solve is called with {pa} {pk}, the modelled code calls solve(solver='cvxopt')")
    if P.options["verbosity"] != 0:
        raise CorrespondenceBroken(f"channel fidelity_of_separability: the problem is built with verbosity={P.options['verbosity']}, the call asked for 0")
    S, cons = _fos_read(P, k, dR, NC)
    res.count("fos-program/problems-captured")
    if P.objective.direction != "max":
        res.violation(f"channel fidelity_of_separability hands a '{P.objective.direction}' problem to the solver, the modelled program maximises",
                      {"function": "fidelity_of_separability", "args": desc, "impl": P.objective.direction, "model": "max", "check": "fos-direction", "theorem": thm})
        return
    # the return line with the proved optimum 1 reported by the recording solver (fos_optimum_product): the function must return 2*1 - 1 = 1
    if abs(complex(out[1]) - 1) > FOS_OBJ:
        res.violation(f"channel fidelity_of_separability returns {out[1]!r} for a pure product state when the solver reports the optimum 1 of the program (proved: fos_optimum_product)",
                      {"function": "fidelity_of_separability", "args": desc, "impl": complex(out[1]), "model": 1.0, "check": "fos-return", "theorem": "fos_optimum_product / fos_return_one"})
        return
    if task.get("id", 0) % 2 == 0:
        a2, kw2 = _fos_call_args(task, rho_f, call_rng(task.get("pres"), "fos-program-stub"))
        out2, _ = _fos_capture(lambda: fidelity_of_separability(*a2, **kw2), FOS_STUB)
        mr = drv.ask("c20_fos_return", {"v": frac_json(Fraction(FOS_STUB))})
        wantr = float(Fraction(*mr["value"]))
        if out2[0] != "value" or abs(complex(out2[1]) - wantr) > 1e-15:
            raise CorrespondenceBroken(f"channel fidelity_of_separability: with the solver value {FOS_STUB} the call gives {out2[:2]}, the modelled return line 2*value - 1 gives {wantr}")
    # --- the points
    G0 = CQ.eye(dR)
    for _ in range(k):
        G0 = G0.kron(Pa)
    Z = rng.integers(-3, 4, size=(NC, NC)) + 1j * rng.integers(-3, 4, size=(NC, NC))
    pts = [("feasible", G0, True), ("random-hermitian", CQ.from_gi(Z + Z.conj().T, 4), None), ("trace-doubled", G0.scale(2), False),
           ("not-psd", G0 - CQ.eye(NC).scale(Fraction(1, 2)), False)]
    if k >= 2:
        (vc, sc) = task["other"]
        c = CQ.col(vc, sc)
        Gc = CQ.eye(dR).kron(Pa)
        for _ in range(k - 1):
            Gc = Gc.kron(c @ c.H())
        pts.append(("not-symmetric", Gc, False))          # 1 (x) a a^H (x) c c^H: only the support constraint fails
    if k == 1 and dR <= dA:
        E = CQ.zeros(NC)
        for r_ in range(dR):
            for s_ in range(dR):
                E.re[r_ * dA + r_, s_ * dA + s_] = Fraction(1)
        pts.append(("not-ppt", E, False))                 # the Choi operator of the embedding R -> A': only the PPT constraint fails
    for pname, G, feasible in pts:
        d2 = dict(desc, point=pname)
        m = drv.ask("c20_fos_program", {"dB": dB, "dA": dA, "dR": dR, "k": k, "psi": rho.json(), "choi": G.json()})
        if "reject" in m:
            raise RuntimeError(f"c20_fos_program rejected the request: {m}")
        if m.get("forms_agree") is not True:
            res.violation(f"model: the line-by-line mirror of the program and its index-tuple form (the form the theorems fos_* speak about) differ at the point '{pname}' (model error)",
                          {"function": "fidelity_of_separability", "args": d2, "model": m.get("forms_agree"), "check": "fos-model-forms", "theorem": thm})
            return
        Mtr, Msy = _lean_mat(m["trace"], dR, dR), _lean_mat(m["sym"], NC, NC)
        Mpsd = [G.to_float()] + [_lean_mat(x, NC, NC) for x in m["pts"]]
        Mobj = _lean_z(m["obj"])
        try:
            tr, sy, psd, obj = _fos_eval(S, cons, P, G.to_float())
        except Exception as e:  # noqa: BLE001
            res.violation(f"channel fidelity_of_separability: a point of the modelled program cannot be written into the variable of the program the code builds ({type(e).__name__}: {str(e)[:150]})",
                          {"function": "fidelity_of_separability", "args": d2, "check": "fos-variable", "theorem": thm})
            return
        vio = _fos_violation(tr, sy, psd)
        mvio = _fos_violation(Mtr, Msy, Mpsd)
        if feasible is True:
            exact_zero = all(x == [0, 1] for x in m["trace"]["re"] + m["trace"]["im"] + m["sym"]["re"] + m["sym"]["im"])
            if not exact_zero or m["obj"]["re"] != [1, 1] or m["obj"]["im"] != [0, 1] or mvio > FOS_FEAS:
                res.violation("model: the mirror does not give zero residuals / objective 1 at the exact feasible point 1 (x) (a a^H)^(x)k (harness/model error; theorems fos_feasible_product, fos_obj_product)",
                              {"function": "fidelity_of_separability", "args": d2, "model": {"obj": m["obj"], "violation": mvio}, "check": "fos-model-feasible"})
                return
            if vio > FOS_FEAS:
                res.violation(f"channel fidelity_of_separability: the program the code builds rejects the feasible point 1 (x) (a a^H)^(x)k of the modelled program for a pure product state (constraint violation {vio:.3g})",
                              {"function": "fidelity_of_separability", "args": d2, "impl": vio, "model": "feasible", "check": "fos-feasible", "theorem": "fos_feasible_product"})
                return
            if abs(obj - 1) > FOS_OBJ:
                res.violation(f"channel fidelity_of_separability: the objective of the program the code builds is {obj.real:.12f} at the point 1 (x) (a a^H)^(x)k for a pure product state; the modelled objective is exactly 1 there",
                              {"function": "fidelity_of_separability", "args": d2, "impl": obj, "model": 1.0, "check": "fos-objective", "theorem": "fos_obj_product"})
                return
        if feasible is False:
            res.case(dict(d2, control=pname), True, f"fos-program/control/{pname}")
            if mvio < EMB_BAD:
                res.violation(f"model: the negative control '{pname}' does not violate the modelled program (harness error)", {"function": "fidelity_of_separability", "args": d2, "model": mvio, "check": "fos-model-control"})
                return
            if vio < EMB_BAD:
                res.violation(f"channel fidelity_of_separability: the program the code builds accepts the infeasible point '{pname}' of the modelled program (largest constraint violation {vio:.3g}, modelled {mvio:.3g})",
                              {"function": "fidelity_of_separability", "args": d2, "impl": vio, "model": mvio, "check": "fos-control", "theorem": thm})
                return
        # every expression of the captured problem equals the mirror's, entrywise
        bad = None
        if not _close(tr, Mtr):
            bad = "partial_trace(choi, [1..k]) - I"
        elif not (_close(sy, Msy) or _close(sy, -Msy)):
            bad = "(I (x) sym) choi (I (x) sym) - choi"
        elif any(not _close(x, y) for x, y in zip(psd, Mpsd)):
            bad = "a semidefinite constraint matrix (choi / partial_transpose(choi, [1..i]))"
        elif abs(obj - Mobj) > EMB_TOL * max(1.0, abs(Mobj)):
            bad = f"the objective ({obj!r} vs the model's {Mobj!r})"
        if bad is not None:
            res.violation(f"channel fidelity_of_separability: {bad} of the program the code builds differs from the model's at the point '{pname}'",
                          {"function": "fidelity_of_separability", "args": d2, "impl": {"obj": obj, "violation": vio}, "model": {"obj": Mobj, "violation": mvio}, "check": "fos-embedding", "theorem": thm})
            return
        res.count("fos-program/points-agree")


def _overlap2(u, v):
    """|<u, v>|^2 of two pool vectors (exact)"""
    (a, sa), (b, sb) = u, v
    re = sum(x[0] * y[0] + x[1] * y[1] for x, y in zip(a, b))
    im = sum(x[0] * y[1] - x[1] * y[0] for x, y in zip(a, b))
    return Fraction(re * re + im * im, sa * sa * sb * sb)


def gen_fos_program_task(rng, i, dims, k):
    vecs = [draw_unit(rng, d) for d in dims]
    while True:
        other = draw_unit(rng, dims[1])
        if _overlap2(vecs[1], other) <= Fraction(1, 2):
            break
    return {"dims": list(dims), "k": k, "vecs": vecs, "other": other, "seed": int(rng.integers(1, 2 ** 31)), "form": int(rng.integers(4)), "id": i}


FOS_MSG = {"not_density": ("ValueError", "Provided input state is not a density matrix."),
           "not_tripartite": ("AssertionError", "For Channel SDP: require tripartite state dims."),
           "not_pure": ("ValueError", "This function only works for pure states.")}


def gen_fos_guard_task(rng, i):
    kind = ["pure", "trace-off", "not-psd", "not-hermitian", "dims-2", "dims-4", "mixed-max", "mixed-two", "trace-off+dims", "mixed+dims", "pure"][i % 11]
    dims = [[2, 2, 2], [3, 2, 2], [2, 3, 2], [2, 2, 3]][int(rng.integers(4))]
    return {"kind": kind, "dims": dims, "vecs": [draw_unit(rng, d) for d in dims], "vecs2": [draw_unit(rng, d) for d in dims], "id": i}


def work_fos_guards(task, res: Result):
    """the three guards of the channel fidelity_of_separability against the model's cascade on exact verdicts"""
    from toqito.channel_metrics import fidelity_of_separability
    warnings.filterwarnings("ignore")
    drv = worker_driver()
    kind, dims = task["kind"], list(task["dims"])
    n = int(np.prod(dims))
    w, rho, _ = _fos_state(task)
    w2, rho2, _ = _fos_state(dict(task, vecs=task["vecs2"]))
    args = {"n": n}
    call_dims = dims
    if kind == "pure":
        args.update(L=w.json(), k=1)
    elif kind.startswith("trace-off"):
        rho = rho.scale(Fraction(3, 4))
    elif kind == "not-psd":
        # 2 psi - psi2 restricted to trace 1; the witness is the component of w2 orthogonal to w (exact)
        ov = (w.H() @ w2)
        wit = w2 - w.scale(1) @ ov
        rho = rho.scale(2) - rho2
        args.update(v=wit.json())
    elif kind == "not-hermitian":
        rho = CQ(rho.re.copy(), rho.im.copy())
        rho.im[0, n - 1] = rho.im[0, n - 1] + Fraction(1, 2)
    elif kind in ("dims-2", "dims-4"):
        args.update(L=w.json(), k=1)
        call_dims = [dims[0], dims[1] * dims[2]] if kind == "dims-2" else [dims[0], dims[1], dims[2], 1]
    elif kind.startswith("mixed-max"):
        rho = CQ.eye(n).scale(Fraction(1, n))
        args.update(L=CQ.zeros(n, 1).json(), k=1)
    elif kind in ("mixed-two", "mixed+dims"):
        Lm = CQ(np.concatenate([w.scale(Fraction(3, 5)).re, w2.scale(Fraction(4, 5)).re], axis=1), np.concatenate([w.scale(Fraction(3, 5)).im, w2.scale(Fraction(4, 5)).im], axis=1))
        rho = Lm @ Lm.H()
        args.update(L=Lm.json(), k=2)
    if kind in ("trace-off+dims", "mixed+dims"):
        call_dims = [dims[0] * dims[1], dims[2]]
    args.update(rho=rho.json(), dims=call_dims)
    m = drv.ask("c20_fos_path", args)
    path = m["path"]
    desc = {"fn": "fos-guards", "kind": kind, "dims": dims, "call_dims": call_dims, "vecs": task["vecs"], "vecs2": task["vecs2"], "id": task["id"], "pres": task.get("pres")}
    res.case(desc, path != "undecided", f"fos-guards/{kind}/{path}")
    if path == "undecided":
        res.count("fos-guards/undecided")
        return
    arr = present_nd(call_rng(task.get("pres"), "fos-guards"), rho.to_float())
    out, got = _fos_capture(lambda: fidelity_of_separability(arr, list(call_dims)), 1.0)
    if path == "program":
        if out[0] == "raise":
            res.violation(f"channel fidelity_of_separability raises {out[1]}: {out[2]} on a pure product state with tripartite dimensions (the modelled guards accept it)",
                          {"function": "fidelity_of_separability", "args": desc, "exception": out[2], "model": m, "check": "fos-guards", "theorem": "fosPath_program_iff / fos_accepts_pure"})
        elif len(got) != 1:
            raise CorrespondenceBroken(f"channel fidelity_of_separability: accepted input, but {len(got)} problems were handed to the solver")
        return
    et, msg = FOS_MSG[path]
    if out[0] != "raise" or out[1] != et or msg not in out[2]:
        raise CorrespondenceBroken(f"channel fidelity_of_separability ({kind}, dims {call_dims}): the modelled guards give {et}('{msg}') (verdicts {m}), the code: {out[:3]} "
                                   "(rejections are outside the property's quantifier: no failing input)")
    res.count(f"fos-guards/agree/{path}")


# ------------------------------------------------------------------------------------------------


def install_matchers(ctx):
    def cp_shortcut(info):
        return (info.get("function") in ("completely_bounded_trace_norm", "completely_bounded_spectral_norm") and info.get("cp_non_tp") is True
                and "impl" in info and abs(info["impl"] - info["trace_of_ptr"]) <= 1e-6 and "certified" in info
                and abs(info["certified"][0] - info["lam_max"]) <= 1e-4 and abs(info["certified"][1] - info["lam_max"]) <= 1e-4)

    ctx.matchers["c20-cb-cp-shortcut-trace-norm"] = cp_shortcut


def run(ctx, model_ok=True):
    rng = ctx.rng
    quick = ctx.tier == "quick"
    install_matchers(ctx)
    # corpus first: the library's own pinned example Choi = 1_4 (X -> tr(X) 1, cb norm 2) goes through the CP branch
    cb_tasks = [{"d": 2, "kind": "cp", "id": -1, "K": [np.array([[1, 0], [0, 0]], dtype=complex), np.array([[0, 1], [0, 0]], dtype=complex),
                                                         np.array([[0, 0], [1, 0]], dtype=complex), np.array([[0, 0], [0, 1]], dtype=complex)]},
                {"d": 2, "kind": "cp", "id": -2, "K": [np.sqrt(2) * np.eye(2, dtype=complex)]}]
    # trace-preserving maps that are not completely positive (the cb norm of a trace-preserving map is 1 only when it is CP):
    # the transpose map (Choi = SWAP, cb trace norm d) and affine combinations (1+a) Phi_1 - a Phi_2 of channels
    for d in (2, 3):
        sw = np.zeros((d * d, d * d), dtype=complex)
        for a in range(d):
            for b in range(d):
                sw[a * d + b, b * d + a] = 1.0
        cb_tasks.append({"d": d, "kind": "herm", "id": -10 - d, "J": sw, "c_real": -0.5, "c_cplx": complex(1.0, 1.5)})
    Zk = [np.diag([1.0, -1.0]).astype(complex)]
    Xk = [np.array([[0, 1], [1, 0]], dtype=complex)]
    Ik = [np.eye(2, dtype=complex)]
    cb_tasks.append({"d": 2, "kind": "herm", "id": -20, "J": 2 * choi_of(Ik) - choi_of(Zk), "c_real": 2.0, "c_cplx": complex(-0.5, 1.0)})
    cb_tasks.append({"d": 2, "kind": "herm", "id": -21, "J": 1.5 * choi_of(Xk) - 0.5 * choi_of(Zk), "c_real": -3.0, "c_cplx": complex(1.0, 0.5)})
    n_cb = 64 if quick else 480
    for i in range(n_cb):
        cb_tasks.append(gen_cb_task(rng, i, quick))
    prs = rng.spawn(1)[0]   # presentation stream: a child of the seeded generator (spawning does not consume the parent's draws)

    def seeded(tasks):
        for t in tasks:
            t["pres"] = int(prs.integers(1, 2 ** 31))
        return tasks
    run_pool(ctx, work_cb, seeded(cb_tasks))
    # diamond_distance on pairs of maps that are not both channels (own generator and presentation stream: the streams above and below are as before)
    mrs = rng.spawn(1)[0]
    Sk = [np.roll(np.eye(3), 1, axis=0).astype(complex)]
    maps_tasks = [{"d": 2, "kind": "maps", "sub": "scaled-unitaries", "id": -30, "J1": 3 * choi_of(Ik), "J2": 3 * choi_of(Xk), "c": 3.0, "U": Ik[0], "V": Xk[0]},
                  {"d": 2, "kind": "maps", "sub": "scaled", "id": -31, "J1": 2 * choi_of(Ik), "J2": choi_of(Xk), "scales": [2.0, 1.0], "kinds": ["unitary", "unitary"]},
                  {"d": 3, "kind": "maps", "sub": "scaled-unitaries", "id": -32, "J1": 3 * choi_of([np.eye(3, dtype=complex)]), "J2": 3 * choi_of(Sk), "c": 3.0,
                   "U": np.eye(3, dtype=complex), "V": Sk[0]}]
    for i in range(12 if quick else 96):
        maps_tasks.append(gen_maps_task(mrs, i))
    for t in maps_tasks:
        t["pres"] = int(mrs.integers(1, 2 ** 31))
    run_pool(ctx, work_cb, maps_tasks)
    rect = []
    for i in range(6 if quick else 40):
        dX, dY = [(2, 3), (3, 2), (2, 4), (1, 3), (3, 1), (2, 1)][i % 6]
        r = max(2, -(-dX // dY))
        rect.append({"dX": dX, "dY": dY, "r": r, "V1": qgen.cayley_unitary(rng, dY * r, True, lim=2)[:, :dX], "V2": qgen.cayley_unitary(rng, dY * r, True, lim=2)[:, :dX]})
    run_pool(ctx, work_model_only, rect)
    cf_tasks = [gen_cf_task(rng, i, quick) for i in range(30 if quick else 240)]
    for i in range(3 if quick else 24):
        t = gen_cf_task(rng, 1000 + i, quick, d=3)
        t["self"] = False
        t["full"] = True
        cf_tasks.insert(0, t)
    # mixed dtypes in both argument orders: a real Choi matrix (identity channel, real rotation, dephasing-type mixture of
    # real unitaries) against a genuinely complex one
    for i in range(4 if quick else 24):
        d = 2 if i % 3 else 3
        th = [0.0, 0.6435011087932844, 0.9272952180016122][i % 3]          # angles with rational sin/cos (3-4-5 triangles)
        R = np.eye(d, dtype=complex)
        R[:2, :2] = np.array([[np.cos(th), -np.sin(th)], [np.sin(th), np.cos(th)]])
        U = np.diag(np.exp(1j * np.pi * np.array([0, 0.5, 0.25][:d]) * (1 + i % 2))).astype(complex)
        t = {"d": d, "id": 2000 + i, "K1": [R.real.astype(float)], "K2": [qgen.cayley_unitary(rng, d, True, lim=2) if i % 2 else U],
             "kinds": ["real-unitary", "complex-unitary"], "full": False, "p1": 0.25, "p2": 0.25}
        cf_tasks.insert(0, t)
    run_pool(ctx, work_cf, seeded(cf_tasks))
    dim_tasks = seeded([{"d": 5}] + ([] if quick else [{"d": 6}]))
    # call sequences on local dimensions 6 and 7 (own generator: the streams around keep their inputs); corpus first: d = 6, level 2, p = 1/2
    qrs = rng.spawn(1)[0]
    seq = [{"d": 6, "level": 2, "p": 0.5, "first": "a", "complex": False, "id": 0}, {"d": 7, "level": 3, "p": 0.5, "first": "a", "complex": False, "id": 1}]
    for i in range(1 if quick else 12):
        dd = 6 + (i + int(qrs.integers(2))) % 2
        seq.append({"d": dd, "level": int(qrs.integers(1, dd - 1)), "p": float(qrs.choice([0.25, 0.5, 0.75])), "first": str(qrs.choice(["a", "b"])), "complex": bool(qrs.integers(2)), "id": 2 + i})
    # strict-fp stream: corpus = the library's own equal-channel examples (dephasing, depolarizing, identity), then seeded instances of every kind
    from toqito.channels import dephasing, depolarizing
    sfp = [{"d": 2, "kind": "corpus-dephasing", "id": -1, "J1": np.asarray(dephasing(2), dtype=float), "J2": np.asarray(depolarizing(2), dtype=float)},
           {"d": 3, "kind": "corpus-identity", "id": -2, "J1": choi_of([np.eye(3)]), "J2": np.asarray(depolarizing(3), dtype=complex), "pair": False}]
    for i in range(14 if quick else 160):
        t = gen_cb_task(qrs, i, quick)
        t["pair"] = i % 2 == 0
        sfp.append(t)
    for t in sfp:
        t["strict_fp"] = True
    for t in seq:
        t["pres"] = int(qrs.integers(1, 2 ** 31))      # own presentation stream: the presentations of the later streams are as before
    run_pool(ctx, work_cf_dim_seq_strict, seq + dim_tasks + sfp)      # one pool phase (longest tasks first)
    fos = []
    for i in range(3 if quick else 12):
        dims = [2, 2, 2]
        vecs = [qgen.unit(qgen.int_vector(rng, dd, True, lim=3)) for dd in dims]
        fos.append({"vecs": vecs, "dims": dims, "k": 2})
    fos.append({"vecs": [qgen.unit(qgen.int_vector(rng, 2, True, lim=3)) for _ in range(3)], "dims": [2, 2, 2], "k": 1})
    for dims, k in [[[3, 2, 2], 2], [[2, 2, 3], 2], [[2, 3, 2], 1]] + ([] if quick else [[[3, 2, 2], 2], [[2, 3, 3], 1], [[2, 2, 3], 2]]):
        fos.append({"vecs": [qgen.unit(qgen.int_vector(rng, dd, True, lim=3)) for dd in dims], "dims": dims, "k": k})   # unequal local dimensions
    run_pool(ctx, work_fos, seeded(fos))
    # the program the channel fidelity_of_separability builds (captured, never solved) at exact points, and its guards
    combos = [([2, 2, 2], 1), ([2, 2, 2], 2), ([2, 2, 3], 1), ([2, 2, 3], 2), ([2, 3, 2], 1), ([2, 3, 2], 2), ([3, 2, 2], 1), ([3, 2, 2], 2)]
    if not quick:
        combos = combos * 3 + [([2, 2, 2], 3), ([3, 3, 2], 1), ([2, 3, 3], 1)]
    run_pool(ctx, work_fos_program, seeded([gen_fos_program_task(rng, i, dims, k) for i, (dims, k) in enumerate(combos)]))
    run_pool(ctx, work_fos_guards, seeded([gen_fos_guard_task(rng, i) for i in range(22 if quick else 110)]))
    # code paths + captured-program embedding (no program is solved by toqito in these streams)
    run_pool(ctx, work_paths, seeded([gen_path_task(rng, i) for i in range(36 if quick else 360)]))
    run_pool(ctx, work_embed_cf, seeded([gen_embed_cf_task(rng, i) for i in range(16 if quick else 120)]))
    shapes = [((dd * dd, dd * dd), (dd * dd, dd * dd)) for dd in (2, 3, 4, 5, 6, 7)] + [((4, 4), (9, 9)), ((9, 9), (4, 4)), ((4, 6), (4, 6)), ((6, 4), (6, 4)), ((4, 4), (4, 6))]
    run_pool(ctx, work_cf_path, [{"s1": a, "s2": b, "seed": int(rng.integers(1, 2 ** 31))} for a, b in shapes])
    ctx.extra["embedding_tolerances"] = {"captured_vs_model_entry": EMB_TOL, "negative_control_violation": EMB_BAD, "shortcut_value": SHORTCUT_TOL}
    ctx.extra["tolerances"] = {"cb": TAU_CB, "channel_fidelity": TAU_CF, "closed_forms": CLOSED}
    ctx.extra["certified_interval_width_bound"] = WIDTH_OK


def _arr(s):
    def conv(e):
        return complex(e["re"], e["im"]) if isinstance(e, dict) else e
    return np.array([[conv(e) for e in row] for row in s], dtype=complex)


def replay(ctx, rec):
    """re-evaluate the recorded call on the recorded Choi matrices and re-certify"""
    from toqito.channel_metrics import channel_fidelity, completely_bounded_spectral_norm, completely_bounded_trace_norm, diamond_distance
    install_matchers(ctx)
    warnings.filterwarnings("ignore")
    a = rec["args"]
    fn = rec["function"]
    d = a.get("d", 2)
    res = Result()
    drv = ctx.lean()
    P = Presenter(a.get("pres"), res, {k_: v_ for k_, v_ in a.items() if k_ not in ("J1", "J2", "J")})   # the recorded presentation seed reproduces the presentation of the main call
    if a.get("fn") == "paths":
        t = {"d": d, "kind": a["kind"], "id": a.get("id", 0), "seed": a["seed"], "solver_form": a.get("solver_form", 0), "pres": a.get("pres")}
        for k_ in ("J", "J1", "J2", "L"):
            if a.get(k_) is not None:
                t[k_] = _arr(a[k_])
        work_paths(t, res)
    elif a.get("fn") == "embedding-cf":
        work_embed_cf({"d": d, "id": a.get("id", 0), "J1": _arr(a["J1"]), "J2": _arr(a["J2"]), "zeta": complex(a["zeta"]["re"], a["zeta"]["im"]) if isinstance(a["zeta"], dict) else complex(a["zeta"]),
                       "seed": a["seed"], "eps": a.get("eps"), "pres": a.get("pres")}, res)
    elif a.get("fn") == "fos-program":
        work_fos_program({"dims": a["dims"], "k": a["k"], "vecs": a["vecs"], "other": a.get("other"), "seed": a["seed"], "form": a.get("form", 0), "id": a.get("id", 0), "pres": a.get("pres")}, res)
    elif a.get("fn") == "fos-guards":
        work_fos_guards({"kind": a["kind"], "dims": a["dims"], "vecs": a["vecs"], "vecs2": a["vecs2"], "id": a.get("id", 0), "pres": a.get("pres")}, res)
    elif a.get("fn") == "cf-sequence":
        work_cf_sequence({k_: a[k_] for k_ in ("d", "level", "p", "first", "complex", "id", "pres")}, res)
    elif a.get("fn") == "strict-fp":
        mats = [_arr(a["J1"]), _arr(a["J2"])] if "J1" in a else [_arr(a["J"])]
        _strict_one(res, a["call"], mats, {k_: (_arr(v_) if k_ in ("J", "J1", "J2") else v_) for k_, v_ in a.items() if k_ != "call"})
    elif a.get("fn") == "cf-path":
        work_cf_path({"s1": tuple(a["s1"]), "s2": tuple(a["s2"]), "seed": a["seed"]}, res)
    elif fn == "channel_fidelity" and "J1" in a:
        J1, J2 = _arr(a["J1"]), _arr(a["J2"])
        st, v = P.call("main", channel_fidelity, _as_given(J1), _as_given(J2))
        lo = hi = None
        try:
            sol = solve_cf_ref(J1, J2, d, d, primal=a.get("kind") == "full-rank")
            lo, hi, _ = certify_cf(drv, DM.exact_float(J1), DM.exact_float(J2), d, d, sol)
        except Exception:  # noqa: BLE001
            pass
        res.case(a, True, "replay/cf")
        if st != "ok" or (hi is not None and v > hi + TAU_CF) or (lo is not None and v < lo - TAU_CF):
            res.violation(f"replay: channel_fidelity -> {v} vs certified [{lo}, {hi}]", {"function": fn, "args": a, "impl": v if st == "ok" else None, "exception": v if st != "ok" else None, "certified": [lo, hi], "local_dim": d,
                                                                                                  "entrywise_program_value": entrywise_program_value(J1, J2, d)})
    elif fn == "channel_fidelity":
        work_cf_dim({"d": a.get("d", 5)}, res)
    elif fn in ("completely_bounded_trace_norm", "completely_bounded_spectral_norm") and "J" in a:
        J = _arr(a["J"])
        Jeff = dual_choi(J, d, d) if fn.endswith("spectral_norm") else J
        f = completely_bounded_spectral_norm if fn.endswith("spectral_norm") else completely_bounded_trace_norm
        st, v = P.call("spectral" if fn.endswith("spectral_norm") else "main", f, J)
        lo, hi = _cb_interval(drv, res, Jeff, d, d, "replay")
        res.case(a, True, "replay/cb")
        if st != "ok" or (lo is not None and not (lo - TAU_CB <= v <= hi + TAU_CB)):
            T = Jeff.reshape(d, d, d, d).trace(axis1=1, axis2=3)
            res.violation(f"replay: {fn} -> {v} vs certified [{lo}, {hi}]", {"function": fn, "args": a, "impl": v if st == "ok" else None, "certified": [lo, hi],
                                                                              "cp_non_tp": is_psd(Jeff) and np.max(np.abs(T - np.eye(d))) >= 1e-6, "trace_of_ptr": float(np.real(np.trace(T))),
                                                                              "lam_max": float(np.max(np.linalg.eigvalsh((T + T.conj().T) / 2)))})
    elif fn == "diamond_distance" and "J1" in a:
        J1, J2 = _arr(a["J1"]), _arr(a["J2"])
        st, v = P.call("main", diamond_distance, J1, J2)
        lo, hi = _cb_interval(drv, res, J1 - J2, d, d, "replay")
        res.case(a, True, "replay/diamond")
        if st != "ok" or (lo is not None and not (lo - TAU_CB <= v <= hi + TAU_CB)):
            res.violation(f"replay: diamond_distance -> {v} vs certified [{lo}, {hi}]", {"function": fn, "args": a, "impl": v if st == "ok" else None, "certified": [lo, hi]})
    else:
        ctx.note("replay: record kind not replayable individually; rerun the check with the recorded seed")
    fold(ctx, res)
