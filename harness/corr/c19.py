"""C19: random generators (kind of the returned object, reproducibility across call histories), pretty good / pretty bad
measurement, `measure`, `is_povm`.

Scheme C.  The theorems of lean/Toq/Properties/C19.lean say (i) what the post-processing of each generator yields for *any* raw
draw, (ii) that under the seeding discipline (`gen = np.random.default_rng(seed)`, nothing else) a seeded call is a function of
(generator, args, seed) and no call touches NumPy's global generator, (iii) PGM / PBM / Born-rule algebra.  This module checks
on the real code that

 * every generator returns an object of the advertised kind (relations evaluated on the returned floats; sums exactly),
 * real call histories show exactly the equality pattern the Lean state machine predicts (`c19_history`), and the global
   generator's stream is bitwise the one obtained when the generator calls are deleted from the history,
 * the Schmidt-rank branch of `random_state_vector` is the Lean mirror model applied to the re-drawn raw numbers
   (`c19_sv_raw`; a drift here is reported as a note, the verdict is always the property's own predicate),
 * PGM / PBM are POVMs on spanning ensembles and P_opt^2 <= P_pgm <= P_opt, `measure` follows the Born rule.

Deepening pass.  Every generator call of the kinds stream runs twice under two different poisoned states of NumPy's global generator, the first
time inside a `Recorder` (c19_rec.py: proxy around `np.random.default_rng`, pass-through loggers around np.linalg.qr / svd / eigh and
scipy.linalg.fractional_matrix_power).  This ties, for EVERY function, option combination and dim form (seeded and unseeded):
 * the recorded events (generator constructions with their seed, draws: method + shape) to the Lean draw program `Toq.Rand.trace` (`c19_trace`),
   and the recorded arrays to that program re-run on fresh generators of the seed (theorem draws_are_function_of_seed);
 * the returned floats to the Lean post-processing models evaluated exactly on the raw draws / captured LAPACK factors: `c19_density`
   (G G^H / tr, Bures factor as written), `c19_unitary_rel` (U^H G upper triangular with positive diagonal: unitary_post_unique), `c19_psd_rel`
   (A A = H H: psd_post_is_abs), `c19_povm` (cores (A_y U)^H (A_y U) / sqrt(s_i s_j): povm_model_refines), `c19_sv_raw`, `c19_pgm` (S A_i S for the
   captured normaliser S: pgm_model_refines), `c19_measure` (Born probability, prob > tol branch, post state, completeness check);
 * the hypotheses of the theorems to the LAPACK factors the code actually used (V, Q unitary ...; U^H U = 1, s > 0, N = U diag(s) U^H; S = S^H >= 0,
   S P S = 1) - counted and noted, never a verdict.
Hardening pass (argument forms, explicit tolerances).  The object a generator returns is a function of the argument VALUES and the seed; the kinds
stream therefore spells most calls with NumPy scalars / keywords / omitted defaults (`call_args`, `pick_form`) - predicates and model relations are
evaluated on that spelling and the object must be bitwise the one of the builtin spelling.  `measure` gets unlikely outcomes together with an explicit
`tol` above their probability (`gen_low_prob_case`): tol selects the post-measurement branch only, the probabilities stay the Born values and sum to one.
A deviation of the code from a *model* (draw program, formula) that the property's own predicates do not see is a broken correspondence
(common.CorrespondenceBroken semantics: the run goes on; exit 1 with no-failing-input-found when no concrete violation exists).
"""
from __future__ import annotations

import inspect
import itertools
import warnings
from fractions import Fraction

import numpy as np

from toqito.rand import (random_circulant_gram_matrix, random_density_matrix, random_ginibre, random_orthonormal_basis,
                         random_povm, random_psd_operator, random_state_vector, random_states, random_unitary)
from toqito.measurements import pretty_bad_measurement, pretty_good_measurement
from toqito.measurement_ops.measure import measure
from toqito.measurement_props import is_povm

from .. import qgen
from ..exact import Pure, case_rng, present_nd, present_obj, strict_fp_call
from ..exact import describe as pdescribe
from .c19_rec import Recorder, dyadic, replay_events, same_bits, state_key, undyadic, unrat

RULE = ("generators: every (function, option combination) for dimensions 1..6 - is_real on/off, k_param over None/1..dim, distance_metric haar/bures, scalar "
        "and list dim, Schmidt bound 0..min(dim), num_inputs 1..3 x num_outputs 1..4 (quick: a seeded subset of the larger grids) - each with seeds drawn from the "
        "run's generator; non-trivial = dimension >= 2; histories: seeded random interleavings (length 5..20) of seeded calls (menu of 12 non-degenerate "
        "(generator, args) pairs, seeds from a pool of 3 so that repeats occur), unseeded calls, np.random.seed, np.random.rand, default_rng(s).random(), "
        "default_rng().random() (menu since grown to 31 entries); non-trivial = contains a repeated seeded call separated by a global operation; ensembles: 2..6 states, dimension 2..4, pure "
        "(1-D / column) or mixed, dyadic priors (zeros allowed), spanning with lambda_min(sum p_i rho_i) >= 2e-2, plus non-spanning ones (observed only); "
        "measure: density states of dimension 2..5 x {single operator, list / tuple of Kraus operators (square, rectangular, projective, sqrt-POVM), incomplete "
        "sets, zero-probability outcomes} x state_update; is_povm: valid sets and sets violating one condition by >= 1e-3; distinct = hash of the case description. "
        "Presentation: the arrays handed to pretty_good_measurement / pretty_bad_measurement (each state of the list independently), measure (state, single operator or "
        "each operator of the list / tuple) and is_povm (each operator) are re-presentations of the same values determined by the case (C / Fortran / strided / "
        "permuted-stride layout; zero imaginary part also as float64, integer values also as int64), so lists mix dtypes and layouts; after every call the arguments "
        "(arrays, list / tuple objects, elements, the probability list) are compared with a deep snapshot. "
        "Argument forms (hardening pass): three quarters of the generator calls of the kinds stream (form determined by the case) spell their arguments differently from "
        "`f(builtin values by position, seed=s)`: optional integer / boolean parameters, the seed, the entries of a list dim and - where the code does not test "
        "isinstance(dim, int) - a scalar dim as NumPy scalars (np.int64 / int32 / intp, np.bool_, seeds np.int64 / uint32 / uint64), a list dim as tuple or integer ndarray, "
        "trailing parameters by keyword, the seed by position, parameters equal to their default left out; all predicates and model relations are evaluated on the object "
        "of that spelling, and a seeded call must return bitwise the object of the builtin spelling; 7 menu entries of the histories are spelled with NumPy scalars; "
        "the priors of pretty_good / pretty_bad_measurement arrive as list of float / list of np.float64 / float64 ndarray / tuple, by position or keyword; "
        "measure: tol as float / np.float64 / np.float32 and state_update as bool / np.bool_, by keyword or position; low-probability family: complete measurements "
        "(rank-one / coarse-grained projectors of a rotated eigenbasis, projectors followed by outcome-dependent unitaries, single projector) on states with eigenvalues from "
        "{4e-4, 1e-5, 3e-7, 2e-9, 3e-11}, tol from {default, 1e-8, 1e-6, 1e-3, 1e-2, 0.3} chosen a factor >= 2 away from every outcome probability and (non-trivial =) "
        "above at least one probability >= 1e-11, plus all outcomes below tol (maximally mixed two-qubit state, tol 0.3). "
        "Wave-5 hardening: ensembles of kets given as ROW vectors (1, d) and lists mixing 1-D / column / row / density-matrix elements (row vector first or not) go through the "
        "whole PGM / PBM check; strict-fp stream: measure (single operator, list, tuple; outcomes of probability exactly 0: block-supported states under diagonal projectors / "
        "permutation partial isometries), pretty_good / pretty_bad_measurement (all ensemble forms) and every seeded generator are evaluated a second time with NumPy's error state "
        "set to raise for invalid / divide / overflow (harness.exact.strict_fp_call) and must return bitwise the value of the default state")
ASSUMPTIONS = [
    "recording proxy: the generator functions reach NumPy's random machinery through the attribute np.random.default_rng and LAPACK through np.linalg.qr / svd / eigh, "
    "scipy.linalg.fractional_matrix_power at call time (patched for the duration of one call); code that binds these at import time would show as a broken "
    "correspondence (missing events), not as a silent pass",
    "model-vs-code comparisons use TOL_MODEL = 1e-12 x scale for direct float algebra on the same raw numbers (density, pgm, measure probabilities), 1e-10 x scale "
    "(TOL_REL) for relation residuals through LAPACK factors (unitary U^H G, psd A A = H H, povm cores; povm additionally + 1e-12 x cond(normaliser); post-measurement states 1e-10 + 1e-13 / prob); hypotheses of "
    "theorems on captured LAPACK factors are checked to 1e-8 / 1e-9 and only counted",
    "the Lean model of measure is three-valued at float thresholds (prob > tol, allclose of the completeness sum): inputs within a factor 1 +- 1e-3 of a threshold "
    "are skipped (none generated)",
    "PCG64 streams, LAPACK QR / SVD / eigh and scipy's fractional_matrix_power are runtime behaviour outside the model; their outputs are checked through the "
    "relations the theorems assume (unitarity, PSD, rank, POVM) with tolerances 1e-10 (generators), 1e-9 (PGM/PBM), 1e-10 (measure)",
    "eigenvalues / singular values used for PSD and rank verdicts come from numpy.linalg (eigvalsh, svd) on the returned floats: PSD = min eigenvalue >= -1e-12 "
    "(generators) / -1e-9 (PGM, PBM); numerical rank = number of singular values > 1e-9",
    "'different seeds give different objects' is a probabilistic statement; it is checked on the sampled seeds for non-degenerate configurations (dimension >= 2, "
    "num_outputs >= 2) and cannot be proved",
    "an unseeded call draws its seed from OS entropy (numpy.random.default_rng(None)); the model treats the entropy pool as an opaque token",
    "P_opt is toqito's own state_distinguishability (min_error, cvxopt), C10-certified to 2e-5; the PGM bound P_opt^2 <= P_pgm <= P_opt (Barnum-Knill) is cited and "
    "checked with slack 1e-4",
    "random_povm: a sum residual between 1e-10 and 1e-6 is attributed to rounding (and only counted) when it is at most 1e-14 x the condition number of the "
    "re-drawn normaliser sum_y A_y^T A_y (D^-1/2 amplifies the rounding of the SVD); anything larger, or not explained that way, is a violation",
    "measure interprets every operator as a Kraus operator K (probability tr(K rho K^dagger)); POVM elements are therefore supplied as projectors or through their "
    "square roots",
    "measure: the `tol` argument decides whether a post-measurement state is produced (documented: p <= tol gives a zero matrix) and the atol of the completeness test; "
    "the reported probabilities are the Born values for every tol (measure_model_born is stated for all tol) and are compared with tr(K^dagger K rho) to 1e-12 x max(1, |K|max^2) "
    "(TOL_BORN_TIGHT: direct float algebra on entries <= 1) in addition to the 1e-10 of the first build; a post-measurement state is demanded for p > 1.001 tol (and p > 1e-6), a zero "
    "matrix for p < 0.999 tol",
    "a scalar dim spelled as a NumPy integer is generated with a verdict only for the functions / branches that do not test isinstance(dim, int); for random_unitary, "
    "random_orthonormal_basis, random_density_matrix(bures) and the Schmidt branch of random_state_vector the tree as read raises IndexError on it: counted in observe_np_dim "
    "and reported as a candidate finding (verdict as soon as a record with matcher c19-numpy-integer-scalar-dim exists)",
]

TOL_GEN = 1e-10
TOL_TRACE = 1e-12
TOL_PSD = 1e-12
RANK_EPS = 1e-9
TOL_PGM = 1e-9
TOL_MEAS = 1e-10
TOL_BORN_TIGHT = 1e-12


# ------------------------------------------------------------------------------------------------ helpers

def _call(fn, *a, **k):
    try:
        with warnings.catch_warnings():
            warnings.simplefilter("ignore")
            return ("ok", fn(*a, **k))
    except Exception as e:  # noqa: BLE001
        return ("raise", f"{type(e).__name__}: {str(e)[:160]}")


def _fr(x):
    return Fraction(float(x))


def exact_sum_resid(mats, target):
    """max |Re|,|Im| entry of sum(mats) - target, the sum evaluated exactly on the returned doubles"""
    mats = [np.asarray(m) for m in mats]
    d0, d1 = target.shape
    worst = Fraction(0)
    for i in range(d0):
        for j in range(d1):
            re = sum((_fr(np.real(m[i, j])) for m in mats), Fraction(0)) - _fr(target[i, j].real)
            im = sum((_fr(np.imag(m[i, j])) for m in mats), Fraction(0)) - _fr(target[i, j].imag)
            worst = max(worst, abs(re), abs(im))
    return float(worst)


def exact_gram_resid(U):
    """max |Re|,|Im| entry of U^H U - 1 evaluated exactly"""
    U = np.asarray(U)
    n, m = U.shape
    R = [[_fr(np.real(U[i, j])) for j in range(m)] for i in range(n)]
    I = [[_fr(np.imag(U[i, j])) for j in range(m)] for i in range(n)]
    worst = Fraction(0)
    for a in range(m):
        for b in range(m):
            re = sum(R[r][a] * R[r][b] + I[r][a] * I[r][b] for r in range(n)) - (1 if a == b else 0)
            im = sum(R[r][a] * I[r][b] - I[r][a] * R[r][b] for r in range(n))
            worst = max(worst, abs(re), abs(im))
    return float(worst)


def exact_trace(M):
    M = np.asarray(M)
    re = sum((_fr(np.real(M[i, i])) for i in range(M.shape[0])), Fraction(0))
    im = sum((_fr(np.imag(M[i, i])) for i in range(M.shape[0])), Fraction(0))
    return re, im


def herm_resid(M):
    M = np.asarray(M)
    return float(np.abs(M - M.conj().T).max()) if M.size else 0.0


def min_eig(M):
    M = np.asarray(M)
    return float(np.linalg.eigvalsh((M + M.conj().T) / 2).min())


def num_rank(M):
    s = np.linalg.svd(np.asarray(M), compute_uv=False)
    return int((s > RANK_EPS).sum())


def imag_zero(x):
    x = np.asarray(x)
    return bool(np.isrealobj(x) or np.all(x.imag == 0))


def povm_defects(mats, tol, psd_tol):
    """list of reasons why `mats` is not a POVM within tol"""
    bad = []
    d = np.asarray(mats[0]).shape[0]
    for i, m in enumerate(mats):
        m = np.asarray(m)
        if m.shape != (d, d):
            bad.append(f"element {i} has shape {m.shape}")
            continue
        if not np.all(np.isfinite(m)):
            bad.append(f"element {i} not finite")
            return bad
        if herm_resid(m) > tol:
            bad.append(f"element {i} not Hermitian ({herm_resid(m):.2e})")
        if min_eig(m) < -psd_tol:
            bad.append(f"element {i} min eigenvalue {min_eig(m):.3e}")
    r = exact_sum_resid(mats, np.eye(d, dtype=complex))
    if r > tol:
        bad.append(f"sum - identity = {r:.3e}")
    return bad


def impure(rep, guard, fn, info, pres):
    """purity assertion: `guard = Pure(args...)` was taken before the call on exactly the objects handed to toqito"""
    why = guard.modified()
    if why:
        rep.fail("arguments-modified", f"{fn}: caller's arguments were modified", {**info, "function": fn, "modified": why, "presentation": pres})
        return True
    return False


class Reporter:
    """one violation per (function, failure class): the first (smallest) input of the class is reported, the rest counted"""

    def __init__(self, ctx):
        self.ctx = ctx
        self.seen = set()
        self.outputs = {}      # (function, configuration) -> {frozen output: seed}: different seeds must give different objects

    def fail(self, cls, what, info):
        key = (info.get("function"), cls)
        self.ctx.count(f"fail/{info.get('function')}/{cls}")
        if key in self.seen:
            return
        self.seen.add(key)
        info = dict(info)
        info["failure_class"] = cls
        self.ctx.violation(what, info)


def seeds_from(rng, n):
    """seeds drawn at random, with the boundary values 0 and 1 mixed in (0 is a legitimate seed, but falsy in Python)"""
    out = [int(s) for s in rng.integers(0, 2 ** 32, size=n)]
    if n >= 2 and rng.integers(2) == 0:
        out[int(rng.integers(n))] = int(rng.integers(2))
    return out


# ------------------------------------------------------------------------------------------------ A. kinds

TOL_REL = 1e-10          # exact relation residuals (model post-processing vs returned floats), relative to the stated scale
TOL_MODEL = 1e-12        # returned floats vs the Lean model evaluated exactly on the same raw numbers (direct float algebra)
_POISON = [0]
_TRACE_CACHE = {}


def lean_trace(ctx, call):
    key = repr(sorted(call.items(), key=lambda kv: kv[0]))
    if key not in _TRACE_CACHE:
        _TRACE_CACHE[key] = ctx.lean().ask("c19_trace", call)
    return _TRACE_CACHE[key]


def broken(ctx, key, msg):
    """the implementation no longer has the modelled structure: a broken correspondence (common.CorrespondenceBroken semantics), not a verdict"""
    ctx.count("correspondence-broken/" + key)
    if not any(m.startswith(key + ":") for m in ctx.broken):
        ctx.broken.append(f"{key}: {msg}")


# ---- argument forms (hardening pass: NumPy scalars, keywords, omitted defaults) ------------------------------------------------
# The object a generator returns is a function of (generator, argument VALUES, seed) - draws_are_function_of_seed /
# seeded_output_history_independent; the Lean draw program `Toq.Rand.trace` takes the values as naturals.  How the caller spells a value
# (builtin int / bool, NumPy scalar such as the elements of np.arange, by position or by keyword, default left out) is not part of it.
# A form is None (builtin values, by position, seed by keyword: the form of the first build) or a JSON-able dict
#   "np":   {parameter: NumPy type name}   the value is converted (a list dim element by element; "tuple" / "ndarray" convert the container)
#   "kw":   n                              the last n parameters before `seed` are passed by keyword
#   "omit": true                           trailing parameters before `seed` whose value is the declared default are left out
#   "seed": "kw" | "pos" | "omit"          seed by keyword / by position (only when everything before it is positional) / left out (seed None)
NP_INTS = ("int64", "int32", "intp")
NP_SEEDS = ("int64", "uint32", "uint64")


_SIG = {}


def _params(fn):
    if fn not in _SIG:
        _SIG[fn] = list(inspect.signature(fn).parameters.values())
    return _SIG[fn]


def _conv(t, v):
    if t is None or v is None:
        return v
    if t == "tuple":
        return tuple(v)
    if t == "ndarray":
        return np.array(v)
    f = getattr(np, t)
    return [f(x) for x in v] if isinstance(v, list) else f(v)


def _is_default(v, default):
    return default is not inspect.Parameter.empty and ((v is None and default is None) or (type(v) is type(default) and v == default))


def call_args(fn, pos, seed, form):
    """(positional, keyword) arguments of the call `fn(*pos, seed=seed)` spelled in the argument form `form`"""
    if not form:
        return list(pos), {"seed": seed}
    params = _params(fn)
    names = [q.name for q in params]
    if names[-1] != "seed" or len(pos) != len(names) - 1:
        raise ValueError(f"call_args: {fn.__name__}{tuple(names)} does not fit {pos}")
    conv = form.get("np", {})
    vals = [_conv(conv.get(n), v) for n, v in zip(names, pos)]
    n = len(vals)
    if form.get("omit"):
        while n > 0 and _is_default(pos[n - 1], params[n - 1].default):
            n -= 1
    nkw = min(int(form.get("kw", 0)), n)
    a = vals[:n - nkw]
    k = {names[i]: vals[i] for i in range(n - nkw, n)}
    sv = _conv(conv.get("seed"), seed)
    mode = form.get("seed", "kw")
    if mode == "pos" and n == len(vals) and nkw == 0:
        a.append(sv)
    elif mode == "omit" and seed is None:
        pass
    else:
        k["seed"] = sv
    return a, k


def resolve_form(form, fname, fn, pos, seed, np_required=()):
    return pick_form(fname, fn, pos, seed, np_required) if form == "auto" else (form or None)


def call_text(fname, fn, pos, seed, form, plain):
    return show_call(fname, *call_args(fn, pos, seed, form)) if form else plain


def show_call(fname, a, k):
    return f"{fname}({', '.join([repr(x) for x in a] + [f'{n}={v!r}' for n, v in k.items()])})"


def pick_form(fname, fn, pos, seed, np_required=()):
    """the argument form of one generator call of the stream: determined by the case alone (so that a replay sees it and the data
    stream ctx.rng is not disturbed).  Optional parameters (those with a declared default) and `seed` are eligible for every
    spelling; required dimension parameters only where named in `np_required` (see observe_np_dim for the others)."""
    prng = case_rng("c19/form", fname, pos, seed)
    if prng.integers(4) == 0:
        return None
    params = {q.name: q for q in _params(fn)}
    names = list(params)[:-1]
    np_ = {}
    nopt = 0
    for n, v in zip(names, pos):
        optional = params[n].default is not inspect.Parameter.empty
        nopt += optional
        if v is None or isinstance(v, str):
            continue
        if isinstance(v, bool):
            if prng.integers(2):
                np_[n] = "bool_"
        elif isinstance(v, int):
            if (optional or n in np_required) and prng.integers(3):
                np_[n] = str(prng.choice(NP_INTS))
        elif isinstance(v, list):
            c = int(prng.integers(5))
            if c < 4:
                np_[n] = (str(prng.choice(NP_INTS)), "tuple", "ndarray", str(prng.choice(NP_INTS)))[c]
    if seed is not None and prng.integers(3):
        np_["seed"] = str(prng.choice(NP_SEEDS))
    form = {}
    if np_:
        form["np"] = np_
    style = int(prng.integers(4))
    if style == 0 and nopt:
        form["kw"] = int(prng.integers(1, nopt + 1))
    elif style == 1:
        form["seed"] = "pos"
    elif style == 2:
        form["omit"] = True
        if seed is None and prng.integers(2):
            form["seed"] = "omit"
    return form or None



class GenRun:
    def __init__(self, st, out, rec, model):
        self.st, self.out, self.rec, self.model = st, out, rec, model

    @property
    def ok(self):
        return self.st == "ok"

    def draws(self):
        return self.rec.draws()

    def exact_ready(self):
        """raw draws captured and the draw program is the modelled one"""
        return self.ok and self.model is not None and not self.model.get("reject") and self.rec.event_names() == self.model["events"]


def gen_call(ctx, rep, fname, fn, pos, seed, lean_call, info, nondegenerate, model_ok, form=None):
    """One generator call of the kinds stream.  The call is made twice, under two different *poisoned* states of NumPy's global
    generator (np.random.seed(..) + a few global draws); the first time inside a Recorder.  Checked here, for every function, option
    combination and dim form of the stream:
      - the global generator's state is bitwise the same before and after the call (toqito_calls_do_not_disturb_global),
      - a seeded call returns bitwise the same object both times (seeded_output_history_independent); an unseeded one does not
        (non-degenerate configurations) and different seeds of one configuration give different objects,
      - the recorded events (generator constructions, draws: method and shape) are the Lean draw program `Toq.Rand.trace`, every
        construction received the caller's seed, and the recorded arrays are bitwise those of the draw program run on fresh
        generators of that seed (draws_are_function_of_seed); the returned shape is `outShape`.
    Deviations of the last group are a broken correspondence (the model no longer describes the code), not a verdict.
    Argument form (hardening pass): both calls are spelled in `form` (NumPy scalars, keywords, omitted defaults: call_args), so every
    predicate and model relation of the caller is evaluated on the object of THAT spelling; a seeded call is made a third time with builtin
    values by position and must return bitwise the same object (the object is a function of the argument values)."""
    _POISON[0] += 1
    saved = np.random.get_state()
    a1, k1 = call_args(fn, pos, seed, form)
    a2, k2 = call_args(fn, pos, seed, form)      # fresh objects: the first call must not be able to spoil the second through its arguments
    try:
        np.random.seed(0xC19 + 2 * _POISON[0])
        np.random.rand(3)
        with Recorder() as rec:
            st, out = _call(fn, *a1, **k1)
        np.random.seed(0x19C + 2 * _POISON[0] + 1)
        np.random.standard_normal(5)
        before = state_key(np.random.get_state())
        st2, out2 = _call(fn, *a2, **k2)
        after = state_key(np.random.get_state())
        if form and seed is not None:
            st3, out3 = _call(fn, *pos, seed=seed)
    finally:
        np.random.set_state(saved)
    call = show_call(fname, a1, k1) if form else f"{fname}({', '.join(repr(x) for x in pos)}, seed={seed})"
    if form:
        for tag in sorted({("np-seed:" if n == "seed" else "np:") + t for n, t in (form.get("np") or {}).items()} | {x for x in ("kw", "omit") if form.get(x)} | ({"seed-" + form["seed"]} if form.get("seed") else set())):
            ctx.count("argument-form/" + tag)
    if rec.state_in != rec.state_out or before != after:
        rep.fail("global-state-disturbed", f"{call} changed the state of NumPy's global generator", {**info, "theorem": "toqito_calls_do_not_disturb_global"})
    f1 = freeze(out) if st == "ok" else ("raise", out.split(":")[0])
    f2 = freeze(out2) if st2 == "ok" else ("raise", out2.split(":")[0])
    if seed is not None:
        ctx.count("seeding/same-seed-two-global-states")
        if f1 != f2:
            rep.fail("same-seed-different-output", f"{call} returned two different objects under two different states of NumPy's global generator",
                     {**info, "theorem": "seeded_output_history_independent"})
    elif nondegenerate and st == "ok" and st2 == "ok":
        ctx.count("seeding/unseeded-twice")
        if f1 == f2:
            rep.fail("unseeded-reproducible", f"{call}: two unseeded calls returned bitwise the same object", {**info, "theorem": "(tested only)"})
    if form and seed is not None and f1 == f2:      # (a call that is not reproducible in itself is reported above)
        f3 = freeze(out3) if st3 == "ok" else ("raise", out3.split(":")[0])
        if f1 != f3:
            plain = f"{fname}({', '.join(repr(x) for x in pos)}, seed={seed})"
            shp = lambda o: len(o) if isinstance(o, list) else np.asarray(o).shape    # noqa: E731
            rep.fail("argument-form", f"{call} " + (f"raised {out}" if st != "ok" else "returned a different object") + f" than the same call with builtin values by position, {plain}"
                     + (f" (shape {shp(out)} vs {shp(out3)})" if st == "ok" and st3 == "ok" else ""),
                     {**info, "call": call, "impl": out, "builtin_call": plain, "builtin_impl": out3,
                      "theorem": "draws_are_function_of_seed / seeded_output_history_independent (the object is a function of generator, argument values and seed)"})
        else:
            ctx.count("argument-form/same-object-as-builtin-spelling")
    if nondegenerate and st == "ok":
        key = (fname, repr(pos))
        seen = rep.outputs.setdefault(key, {})
        other = seen.get(f1)
        if other is not None and (other != seed or seed is None):
            rep.fail("different-seeds-same-output", f"{fname}{tuple(pos)} returned bitwise the same object for seeds {other} and {seed}", {**info, "theorem": "(tested only)"})
        seen.setdefault(f1, seed)
    model = None
    if model_ok:
        model = lean_trace(ctx, lean_call)
        if model.get("reject"):
            if st == "ok":
                broken(ctx, f"{fname}/model-rejects", f"the Lean draw program raises {model['reject']} on {call}, the code returns a value")
            elif not out.startswith(model["reject"]):
                broken(ctx, f"{fname}/exception", f"{call} raised {out.split(':')[0]}, the Lean draw program says {model['reject']}")
            else:
                ctx.count("draw-program/agrees-on-exception")
        elif st == "ok":
            ev = rec.event_names()
            if ev != model["events"]:
                broken(ctx, f"{fname}/draw-program", f"{call}: recorded events {ev} differ from the Lean draw program {model['events']}")
            else:
                ctx.count("draw-program/agree")
                if any(s is not seed and s != seed for s in rec.construct_seeds()) or any((s is None) != (seed is None) for s in rec.construct_seeds()):
                    broken(ctx, f"{fname}/construct-seed", f"{call}: default_rng was constructed with seeds {rec.construct_seeds()}")
                elif seed is not None:
                    want = replay_events(model["events"], seed)
                    got = rec.draws()
                    if len(want) != len(got) or not all(same_bits(x, y) for x, y in zip(want, got)):
                        broken(ctx, f"{fname}/draw-values", f"{call}: the arrays drawn are not those of the draw program run on default_rng({seed})")
                    else:
                        ctx.count("draw-program/arrays-replayed-bitwise")
            shape = list(np.asarray(out).shape) if not isinstance(out, list) else [len(out)] + list(np.asarray(out[0]).shape if out else [])
            if fname == "random_orthonormal_basis" and isinstance(out, list):
                shape = [len(out), len(np.asarray(out[0]).reshape(-1)) if out else 0]
            if shape != model["shape"]:
                broken(ctx, f"{fname}/shape", f"{call}: returned shape {shape}, Lean outShape {model['shape']}")
    return GenRun(st, out, rec, model)


def fr_arr(obj, e, shape):
    return undyadic(obj, e, shape)


def rel_fail(ctx, rep, fname, what, info):
    """the returned floats are not the modelled post-processing of the raw draws: judged against the property's predicate already by the caller;
    here the *formula* differs, which the kinds check may not see (e.g. a valid but different object) -> broken correspondence"""
    broken(ctx, f"{fname}/post-processing", what)


def check_unitary(ctx, rep, dim, is_real, seed, model_ok=True, form=None):
    args = {"kind": "unitary", "dim": dim, "is_real": is_real, "seed": seed}
    form = resolve_form(form, "random_unitary", random_unitary, [dim, is_real], seed)
    if form:
        args["form"] = form
    d = dim if isinstance(dim, int) else dim[0]
    ctx.case(args, d >= 2, f"random_unitary/{'real' if is_real else 'complex'}/{'list' if isinstance(dim, list) else 'int'}{'/unseeded' if seed is None else ''}")
    info = {"function": "random_unitary", "args": args, "theorem": "unitary_post / unitary_post_csign / orthogonal_post_rsign"}
    call = call_text("random_unitary", random_unitary, [dim, is_real], seed, form, f"random_unitary({dim}, is_real={is_real}, seed={seed})")
    run = gen_call(ctx, rep, "random_unitary", random_unitary, [dim, is_real], seed, {"fn": "unitary", "dim": dim, "is_real": is_real}, info, d >= 2, model_ok, form)
    st, U = run.st, run.out
    if st != "ok":
        return rep.fail("raises", f"{call} raised {U}", {**info, "impl": U})
    U = np.asarray(U)
    if U.shape != (d, d):
        return rep.fail("shape", f"{call} has shape {U.shape}", {**info, "impl": U})
    if not np.all(np.isfinite(U)):
        return rep.fail("non-finite", f"{call} has non-finite entries", {**info, "impl": U})
    r = max(exact_gram_resid(U), exact_gram_resid(U.conj().T))
    if r > TOL_GEN:
        rep.fail("not-unitary", f"{call}: ||U^H U - 1||_max = {r:.3e} > {TOL_GEN}", {**info, "impl": U, "residual": r})
    if is_real and not imag_zero(U):
        rep.fail("not-real", f"{call} has a non-zero imaginary part", {**info, "impl": U})
    if not is_real and d >= 2 and imag_zero(U):
        rep.fail("complex-is-real", f"{call} is a real matrix", {**info, "impl": U})
    if run.exact_ready():
        # the phase-fixed QR factor is pinned by: U^H G upper triangular with positive diagonal (qr_posdiag_unique / unitary_post_upperPos)
        dr = run.draws()
        G = dr[0] if is_real else dr[0] + 1j * dr[1]
        eU, (jU,) = dyadic([U])
        eG, (jG,) = dyadic([G])
        res = ctx.lean().ask("c19_unitary_rel", {"dim": d, "U": jU, "G": jG})
        T = fr_arr(res["rel"], eU + eG, (d, d))
        scale = max(1.0, float(np.abs(G).max())) * d
        low = max([abs(T[i, j]) for i in range(d) for j in range(i)], default=0.0)
        dg = np.diag(T)
        if low > TOL_REL * scale or float(np.abs(dg.imag).max()) > TOL_REL * scale or float(dg.real.min()) < -TOL_REL * scale:
            rel_fail(ctx, rep, "random_unitary", f"{call}: U^H G is not upper triangular with positive diagonal for the Ginibre draw G "
                     f"(below-diagonal {low:.2e}, diagonal {dg.tolist()})", info)
        else:
            ctx.count("relation/unitary-is-phase-fixed-qr-factor")


def check_density(ctx, rep, dim, is_real, k_param, metric, seed, model_ok=True, form=None):
    args = {"kind": "density", "dim": dim, "is_real": is_real, "k_param": k_param, "distance_metric": metric, "seed": seed}
    form = resolve_form(form, "random_density_matrix", random_density_matrix, [dim, is_real, k_param, metric], seed, ("dim",) if metric == "haar" else ())
    if form:
        args["form"] = form
    k = dim if k_param is None else k_param
    ctx.case(args, dim >= 2, f"random_density_matrix/{metric}/{'real' if is_real else 'complex'}/{'k=None' if k_param is None else ('k=dim' if k == dim else 'k<dim')}{'/unseeded' if seed is None else ''}")
    info = {"function": "random_density_matrix", "args": args, "theorem": "density_post / density_bures_post", "expected": f"density operator of rank <= {k}"}
    call = call_text("random_density_matrix", random_density_matrix, [dim, is_real, k_param, metric], seed, form,
                     f"random_density_matrix({dim}, is_real={is_real}, k_param={k_param}, distance_metric='{metric}', seed={seed})")
    run = gen_call(ctx, rep, "random_density_matrix", random_density_matrix, [dim, is_real, k_param, metric], seed,
                   {"fn": "density", "dim": dim, "is_real": is_real, "k_param": k_param, "bures": metric == "bures"}, info, dim >= 2, model_ok, form)
    st, rho = run.st, run.out
    if st != "ok":
        return rep.fail("raises/" + rho.split(":")[0], f"{call} raised {rho}", {**info, "impl": rho})
    rho = np.asarray(rho)
    if rho.shape != (dim, dim):
        return rep.fail("shape", f"{call} has shape {rho.shape}", {**info, "impl": rho})
    if not np.all(np.isfinite(rho)):
        return rep.fail("non-finite", f"{call} has non-finite entries: {rho.tolist()}", {**info, "impl": rho})
    if herm_resid(rho) > TOL_TRACE:
        rep.fail("not-hermitian", f"{call}: |rho - rho^H| = {herm_resid(rho):.3e}", {**info, "impl": rho})
    tr, ti = exact_trace(rho)
    if abs(float(tr - 1)) > TOL_TRACE or abs(float(ti)) > TOL_TRACE:
        rep.fail("trace", f"{call}: trace = {float(tr)}+{float(ti)}i", {**info, "impl": rho})
    if min_eig(rho) < -TOL_PSD:
        rep.fail("not-psd", f"{call}: min eigenvalue {min_eig(rho):.3e}", {**info, "impl": rho})
    rk = num_rank(rho)
    if rk > k:
        rep.fail("rank>k", f"{call}: numerical rank {rk} > k_param = {k}", {**info, "impl": rho, "rank": rk})
    if is_real and not imag_zero(rho):
        rep.fail("not-real", f"{call} has a non-zero imaginary part", {**info, "impl": rho})
    if run.exact_ready() and (metric != "bures" or seed is not None):
        # mirror model: G G^H / tr(G G^H) for the final factor, exactly on the raw draws (densityModel_refines)
        dr = run.draws()
        G = dr[0] if is_real else dr[0] + 1j * dr[1]
        if metric == "bures":
            Uo = np.asarray(random_unitary(dim, is_real, seed=seed))
            e, (jU, jG) = dyadic([Uo, G])
            res = ctx.lean().ask("c19_density", {"dim": dim, "k": k, "bures": True, "U": jU, "G": jG})
        else:
            e, (jG,) = dyadic([G])
            res = ctx.lean().ask("c19_density", {"dim": dim, "k": k, "bures": False, "G": jG})
        if res.get("reject"):
            return broken(ctx, "random_density_matrix/model-rejects", f"{call}: Lean bures factor rejects, the code returned")
        t = complex(Fraction(res["tr"]["re"][0]), Fraction(res["tr"]["im"][0]))
        if res["tr"]["im"][0] != 0 or res["tr"]["re"][0] <= 0:
            return ctx.count("relation/density-zero-trace")
        tre = res["tr"]["re"][0]
        want = np.array([float(Fraction(a, tre)) + 1j * float(Fraction(b, tre)) for a, b in zip(res["num"]["re"], res["num"]["im"])]).reshape(dim, dim)
        diff = float(np.abs(want - rho).max())
        if diff > TOL_MODEL * 10:
            rel_fail(ctx, rep, "random_density_matrix", f"{call} differs from F F^H / tr(F F^H) for the modelled final factor by {diff:.3e}", info)
        else:
            ctx.count("relation/density-equals-model/" + metric)


def check_psd(ctx, rep, dim, is_real, seed, model_ok=True, form=None):
    args = {"kind": "psd", "dim": dim, "is_real": is_real, "seed": seed}
    form = resolve_form(form, "random_psd_operator", random_psd_operator, [dim, is_real], seed, ("dim",))
    if form:
        args["form"] = form
    ctx.case(args, dim >= 2, f"random_psd_operator/{'real' if is_real else 'complex'}{'/unseeded' if seed is None else ''}")
    info = {"function": "random_psd_operator", "args": args, "theorem": "psd_post / psd_post_is_abs"}
    call = call_text("random_psd_operator", random_psd_operator, [dim, is_real], seed, form, f"random_psd_operator({dim}, is_real={is_real}, seed={seed})")
    run = gen_call(ctx, rep, "random_psd_operator", random_psd_operator, [dim, is_real], seed, {"fn": "psd", "dim": dim, "is_real": is_real}, info, dim >= 2, model_ok, form)
    st, A = run.st, run.out
    if st != "ok":
        return rep.fail("raises", f"{call} raised {A}", {**info, "impl": A})
    A = np.asarray(A)
    if A.shape != (dim, dim):
        return rep.fail("shape", f"{call} has shape {A.shape}", {**info, "impl": A})
    if not np.all(np.isfinite(A)):
        return rep.fail("non-finite", f"{call} has non-finite entries", {**info, "impl": A})
    scale = max(1.0, float(np.abs(A).max()))
    if herm_resid(A) > TOL_GEN * scale:
        rep.fail("not-hermitian", f"{call}: |A - A^H| = {herm_resid(A):.3e}", {**info, "impl": A})
    if min_eig(A) < -TOL_GEN * scale:
        rep.fail("not-psd", f"{call}: min eigenvalue {min_eig(A):.3e}", {**info, "impl": A})
    if is_real and not imag_zero(A):
        rep.fail("not-real", f"{call} has a non-zero imaginary part", {**info, "impl": A})
    if run.exact_ready():
        # A is the positive semidefinite square root of H^2, H = (R^H + R)/2 the Hermitised draw (psd_post_is_abs): A A = H H exactly evaluated
        dr = run.draws()
        R = dr[0] if is_real else dr[0] + 1j * dr[1]
        e, (jA, jR) = dyadic([A, R])
        res = ctx.lean().ask("c19_psd_rel", {"dim": dim, "A": jA, "R": jR})
        aa = fr_arr(res["aa"], 2 * e, (dim, dim))
        hh = fr_arr(res["hh4"], 2 * e, (dim, dim)) / 4
        sc = max(1.0, float(np.abs(hh).max()))
        diff = float(np.abs(aa - hh).max())
        if diff > TOL_REL * sc * dim:
            rel_fail(ctx, rep, "random_psd_operator", f"{call}: A A differs from H H (H the Hermitised draw) by {diff:.3e}", info)
        else:
            ctx.count("relation/psd-is-abs-of-hermitised-draw")
        # hypotheses of psd_post_is_abs on the captured LAPACK factors: V unitary, H = V diag(w) V^H; Q unitary, Q^H V upper triangular
        eg, qr = run.rec.lapack_calls("eigh"), run.rec.lapack_calls("qr")
        if len(eg) == 1 and len(qr) == 1:
            w, V = eg[0][2][0], eg[0][2][1]
            Q = qr[0][2][0]
            H = eg[0][1][0]
            h1 = float(np.abs(V.conj().T @ V - np.eye(dim)).max())
            h2 = float(np.abs((V * w) @ V.conj().T - H).max())
            h3 = float(np.abs(Q.conj().T @ Q - np.eye(dim)).max())
            T = Q.conj().T @ V
            h4 = max([abs(T[i, j]) for i in range(dim) for j in range(i)], default=0.0)
            if max(h1, h3, h4) > 1e-8 or h2 > 1e-8 * sc:
                ctx.count("lapack-relation/psd-hypotheses-not-met")
                ctx.note(f"{call}: the captured eigh / qr factors do not satisfy the hypotheses of psd_post_is_abs ({h1:.1e}, {h2:.1e}, {h3:.1e}, {h4:.1e})")
            else:
                ctx.count("lapack-relation/psd-hypotheses-hold")


def check_basis(ctx, rep, dim, is_real, seed, model_ok=True, form=None):
    args = {"kind": "basis", "dim": dim, "is_real": is_real, "seed": seed}
    form = resolve_form(form, "random_orthonormal_basis", random_orthonormal_basis, [dim, is_real], seed)
    if form:
        args["form"] = form
    ctx.case(args, dim >= 2, f"random_orthonormal_basis/{'real' if is_real else 'complex'}{'/unseeded' if seed is None else ''}")
    info = {"function": "random_orthonormal_basis", "args": args, "theorem": "orthonormal_basis_post"}
    call = call_text("random_orthonormal_basis", random_orthonormal_basis, [dim, is_real], seed, form, f"random_orthonormal_basis({dim}, is_real={is_real}, seed={seed})")
    run = gen_call(ctx, rep, "random_orthonormal_basis", random_orthonormal_basis, [dim, is_real], seed, {"fn": "basis", "dim": dim, "is_real": is_real}, info, dim >= 2, model_ok, form)
    st, B = run.st, run.out
    if st != "ok":
        return rep.fail("raises", f"{call} raised {B}", {**info, "impl": B})
    if len(B) != dim or any(np.asarray(b).reshape(-1).shape != (dim,) for b in B):
        return rep.fail("shape", f"{call}: {len(B)} vectors of shapes {[np.asarray(b).shape for b in B]}", {**info, "impl": B})
    M = np.stack([np.asarray(b).reshape(-1) for b in B], axis=1)
    if not np.all(np.isfinite(M)):
        return rep.fail("non-finite", f"{call} has non-finite entries", {**info, "impl": B})
    r = exact_gram_resid(M)
    if r > TOL_GEN:
        rep.fail("not-orthonormal", f"{call}: Gram matrix differs from the identity by {r:.3e}", {**info, "impl": B})
    if is_real and not imag_zero(M):
        rep.fail("not-real", f"{call} has a non-zero imaginary part", {**info, "impl": B})
    if seed is not None:
        # the basis is the list of columns of random_unitary(dim, is_real, seed)
        U = np.asarray(random_unitary(dim, is_real, seed=seed))
        if not same_bits(np.ascontiguousarray(M), np.ascontiguousarray(U)):
            rel_fail(ctx, rep, "random_orthonormal_basis", f"{call} is not the list of columns of random_unitary({dim}, {is_real}, seed={seed})", info)
        else:
            ctx.count("relation/basis-is-columns-of-unitary")


def sv_ints(parts):
    """raw uniform draws as exact integers (numerators over 2^53)"""
    S = 2 ** 53
    out = []
    for x in parts:
        row = []
        for v in np.asarray(x).reshape(-1):
            f = Fraction(float(v)) * S
            if f.denominator != 1:
                return None
            row.append(int(f))
        out.append(row)
    return out


def check_state_vector(ctx, rep, dim, is_real, k_param, seed, model_ok, form=None):
    args = {"kind": "state_vector", "dim": dim, "is_real": is_real, "k_param": k_param, "seed": seed}
    dims = [dim, dim] if isinstance(dim, int) else list(dim)
    schmidt_branch = 0 < k_param < min(dims)
    form = resolve_form(form, "random_state_vector", random_state_vector, [dim, is_real, k_param], seed, () if schmidt_branch else ("dim",))
    if form:
        args["form"] = form
    listed = isinstance(dim, list)
    total = dims[0] * dims[1] if (listed or schmidt_branch) else dim
    ctx.case(args, total >= 2, f"random_state_vector/{'list' if listed else 'int'}/{'schmidt' if schmidt_branch else 'plain'}/{'real' if is_real else 'complex'}{'/unseeded' if seed is None else ''}")
    info = {"function": "random_state_vector", "args": args, "theorem": "stateVector_schmidt_le_k / stateVector_plain_schmidt_le_k / normalise_unit",
            "expected": f"unit vector of length {total}" + (f" with Schmidt rank <= {k_param} across {dims}" if k_param > 0 and (listed or schmidt_branch) else "")}
    call = call_text("random_state_vector", random_state_vector, [dim, is_real, k_param], seed, form, f"random_state_vector({dim}, is_real={is_real}, k_param={k_param}, seed={seed})")
    run = gen_call(ctx, rep, "random_state_vector", random_state_vector, [dim, is_real, k_param], seed,
                   {"fn": "state_vector", "dim": dim, "is_real": is_real, "k_param": k_param}, info, total >= 2, model_ok, form)
    st, v = run.st, run.out
    if st != "ok":
        return rep.fail("raises/" + v.split(":")[0] + ("/list-dim" if listed else ""), f"{call} raised {v}", {**info, "impl": v})
    v = np.asarray(v)
    flat = v.reshape(-1)
    if flat.shape[0] != total:
        return rep.fail("shape", f"{call} has shape {v.shape}, expected {total} entries", {**info, "impl": v})
    if not np.all(np.isfinite(flat)):
        return rep.fail("non-finite", f"{call} has non-finite entries", {**info, "impl": v})
    nrm = float(np.linalg.norm(flat))
    if abs(nrm - 1) > TOL_TRACE * 10:
        rep.fail("not-unit", f"{call}: norm = {nrm!r}", {**info, "impl": v})
    if is_real and not imag_zero(flat):
        rep.fail("not-real", f"{call} has a non-zero imaginary part", {**info, "impl": v})
    if (listed or schmidt_branch) and k_param > 0:
        rk = num_rank(flat.reshape(dims[0], dims[1]))
        if rk > k_param:
            rep.fail("schmidt>k", f"{call}: Schmidt rank {rk} > {k_param}", {**info, "impl": v, "schmidt_rank": rk})
    if not run.exact_ready():
        return
    dr = run.draws()
    if not schmidt_branch:
        raw = dr[0] if is_real else dr[0] + 1j * dr[1]
        want = np.divide(raw, np.linalg.norm(raw))
        if not same_bits(want, v):
            rel_fail(ctx, rep, "random_state_vector", f"{call} is not the normalised draw", info)
        else:
            ctx.count("relation/state-vector-plain-is-normalised-draw")
        return
    # mirror model on the raw numbers the code drew (tie between `svRaw` and the code)
    a, b = dr[0], dr[1]
    ai, bi = (np.zeros_like(a), np.zeros_like(b)) if is_real else (dr[2], dr[3])
    parts = sv_ints([a, ai, b, bi])
    if parts is None:
        ctx.count("sv-mirror/not-dyadic-53")
        return
    res = ctx.lean().ask("c19_sv_raw", {"k": k_param, "d0": dims[0], "d1": dims[1], "a_re": parts[0], "a_im": parts[1], "b_re": parts[2], "b_im": parts[3]})
    if res.get("reject"):
        ctx.count("sv-mirror/reject")
        return
    if res["raw_re"] != res["amp_re"] or res["raw_im"] != res["amp_im"]:
        rep.fail("model-mirror-vs-closed-form", "Lean svRaw and svAmp disagree (model defect; theorem stateVector_mirror_eq_closed_form)",
                 {"function": "c19_sv_raw", "args": args, "model": res})
    raw = np.array([float(Fraction(r, 2 ** 106)) + 1j * float(Fraction(i, 2 ** 106)) for r, i in zip(res["raw_re"], res["raw_im"])])
    want = raw / np.linalg.norm(raw)
    if np.abs(want - flat).max() <= 1e-12:
        ctx.count("sv-mirror/agree")
    else:
        ctx.count("sv-mirror/drift")
        rel_fail(ctx, rep, "random_state_vector", f"{call} differs from the Lean mirror model svRaw on the raw numbers by {float(np.abs(want - flat).max()):.3e}", info)


def check_states(ctx, rep, n, d, seed, model_ok=True, form=None):
    args = {"kind": "states", "n": n, "d": d, "seed": seed}
    form = resolve_form(form, "random_states", random_states, [n, d], seed, ("n", "d"))
    if form:
        args["form"] = form
    ctx.case(args, d >= 2, "random_states" + ("/unseeded" if seed is None else ""))
    info = {"function": "random_states", "args": args, "theorem": "normalise_unit"}
    call = call_text("random_states", random_states, [n, d], seed, form, f"random_states({n}, {d}, seed={seed})")
    run = gen_call(ctx, rep, "random_states", random_states, [n, d], seed, {"fn": "states", "n": n, "d": d}, info, d >= 2, model_ok, form)
    st, S = run.st, run.out
    if st != "ok":
        return rep.fail("raises", f"{call} raised {S}", {**info, "impl": S})
    if len(S) != n or any(np.asarray(s).shape != (d, 1) for s in S):
        return rep.fail("shape", f"{call}: shapes {[np.asarray(s).shape for s in S]}", {**info, "impl": S})
    for s in S:
        if not np.all(np.isfinite(s)) or abs(float(np.linalg.norm(s)) - 1) > 1e-12:
            rep.fail("not-unit", f"{call}: a vector of norm {float(np.linalg.norm(s))!r}", {**info, "impl": S})
            break
    if run.exact_ready():
        dr = run.draws()
        samples = dr[0] + 1j * dr[1]
        want = samples / np.linalg.norm(samples, axis=1)[:, np.newaxis]
        if not all(same_bits(np.ascontiguousarray(w.reshape(-1, 1)), np.ascontiguousarray(s)) for w, s in zip(want, S)):
            rel_fail(ctx, rep, "random_states", f"{call}: the vectors are not the normalised rows of the complex normal draw", info)
        else:
            ctx.count("relation/states-are-normalised-rows")


def check_povm(ctx, rep, dim, ni, no, seed, model_ok, form=None):
    args = {"kind": "povm", "dim": dim, "num_inputs": ni, "num_outputs": no, "seed": seed}
    form = resolve_form(form, "random_povm", random_povm, [dim, ni, no], seed, ("dim", "num_inputs", "num_outputs"))
    if form:
        args["form"] = form
    ctx.case(args, dim >= 2 and no >= 2, f"random_povm/d={dim}" + ("/unseeded" if seed is None else ""))
    info = {"function": "random_povm", "args": args, "theorem": "povm_post / povm_post_general / povm_layout"}
    call = call_text("random_povm", random_povm, [dim, ni, no], seed, form, f"random_povm({dim}, {ni}, {no}, seed={seed})")
    run = gen_call(ctx, rep, "random_povm", random_povm, [dim, ni, no], seed, {"fn": "povm", "dim": dim, "num_inputs": ni, "num_outputs": no}, info, dim >= 2 and no >= 2, model_ok, form)
    st, P = run.st, run.out
    if st != "ok":
        return rep.fail("raises", f"{call} raised {P}", {**info, "impl": P})
    P = np.asarray(P)
    if P.shape != (dim, dim, ni, no):
        return rep.fail("shape", f"{call} has shape {P.shape}, expected {(dim, dim, ni, no)}", {**info, "impl": P})
    g = run.draws()[0] if run.exact_ready() else None
    for x in range(ni):
        bad = povm_defects([P[:, :, x, y] for y in range(no)], TOL_GEN, TOL_GEN)
        if bad and not povm_defects([P[:, :, x, y] for y in range(no)], 1e-6, 1e-6) and g is not None:
            # residual in (1e-10, 1e-6]: rounding amplified by an ill-conditioned normaliser?  look at the raw blocks the code drew
            cond = float(np.linalg.cond(sum(b.T @ b for b in g[x])))
            resid = exact_sum_resid([P[:, :, x, y] for y in range(no)], np.eye(dim, dtype=complex))
            if resid <= 1e-14 * cond:
                ctx.count("random_povm/ill-conditioned-draw(residual<=1e-14*cond)")
                continue
        if bad:
            rep.fail("not-povm", f"{call}: input setting {x} is not a POVM: {bad[:3]}", {**info, "impl": P, "input": x, "defects": bad})
            break
    svds = run.rec.lapack_calls("svd")
    if g is None or len(svds) != ni:
        if g is not None:
            broken(ctx, "random_povm/svd-calls", f"{call}: {len(svds)} calls of np.linalg.svd, the model: one per input setting ({ni})")
        return
    xs = range(ni) if ni <= 2 else [0, ni - 1]
    for x in xs:
        # mirror model on the raw blocks and the captured SVD factors: M_y[i,j] = ((A_y U)^H (A_y U))[i,j] / sqrt(s_i s_j)   (povm_model_entry)
        N_in = np.asarray(svds[x][1][0])
        U, s = np.asarray(svds[x][2][0]), np.asarray(svds[x][2][1])
        eA, blocks = dyadic([g[x][y] for y in range(no)])
        eU, (jU,) = dyadic([U])
        eS, (jS,) = dyadic([s])
        res = ctx.lean().ask("c19_povm", {"dim": dim, "num_outputs": no, "A": [{"re": b["re"]} for b in blocks], "U": jU, "s": jS["re"]})
        N = fr_arr(res["normaliser"], 2 * eA, (dim, dim))
        sc = max(1.0, float(np.abs(N).max()))
        cond = float(s.max() / s.min()) if s.min() > 0 else float("inf")
        if float(np.abs(N - N_in).max()) > TOL_REL * sc:
            rel_fail(ctx, rep, "random_povm", f"{call}: the matrix handed to np.linalg.svd for input {x} is not sum_y A_y^H A_y of the drawn blocks", info)
            continue
        # hypotheses of povm_post on the captured factors: U^H U = 1, s > 0, N = U diag(s) U^H
        gram = fr_arr(res["gram"], 2 * eU, (dim, dim))
        recon = fr_arr(res["recon"], 2 * eU + eS, (dim, dim))
        if not (s.min() > 0) or float(np.abs(gram - np.eye(dim)).max()) > 1e-8 or float(np.abs(recon - N).max()) > 1e-8 * sc:
            ctx.count("lapack-relation/povm-hypotheses-not-met")
            ctx.note(f"{call}: the captured SVD factors of input {x} do not satisfy the hypotheses of povm_post")
            continue
        ctx.count("lapack-relation/povm-hypotheses-hold")
        worst = 0.0
        for y in range(no):
            core = fr_arr(res["cores"][y], 2 * eA + 2 * eU, (dim, dim))
            want = core / np.sqrt(np.outer(s, s))
            worst = max(worst, float(np.abs(want - P[:, :, x, y]).max()))
        if worst > TOL_REL + 1e-12 * cond:
            rel_fail(ctx, rep, "random_povm", f"{call}: input {x} differs from (A_y U D^-1/2)^H (A_y U D^-1/2) on the drawn blocks and captured SVD by {worst:.3e}", info)
        else:
            ctx.count("relation/povm-equals-model")


def check_povm_layout(ctx, rep, dim, ni, no, model_ok):
    """axis layout of the returned array against the Lean model on an arange-labelled block array"""
    if not model_ok:
        return
    res = ctx.lean().ask("c19_povm_layout", {"dim": dim, "num_inputs": ni, "num_outputs": no})
    lab = np.arange(ni * no * dim * dim).reshape(ni, no, dim, dim)
    want = np.swapaxes(np.swapaxes(lab, 0, 2), 1, 3)
    ctx.case({"kind": "povm_layout", "dim": dim, "ni": ni, "no": no}, ni >= 2 and no >= 2 and ni != no, "random_povm/layout-model")
    if res["shape"] != list(want.shape) or res["data"] != [int(x) for x in want.reshape(-1)]:
        rep.fail("model-layout", "Lean povmLayout differs from np.swapaxes(np.swapaxes(.,0,2),1,3) (model defect)",
                 {"function": "c19_povm_layout", "args": {"dim": dim, "ni": ni, "no": no}, "model": res})


def check_circulant(ctx, rep, dim, seed, model_ok=True, form=None):
    args = {"kind": "circulant", "dim": dim, "seed": seed}
    form = resolve_form(form, "random_circulant_gram_matrix", random_circulant_gram_matrix, [dim], seed, ("dim",))
    if form:
        args["form"] = form
    ctx.case(args, dim >= 3, "random_circulant_gram_matrix" + ("/unseeded" if seed is None else ""))
    info = {"function": "random_circulant_gram_matrix", "args": args, "theorem": "circulant_gram_psd / circulant_gram_circulant"}
    call = call_text("random_circulant_gram_matrix", random_circulant_gram_matrix, [dim], seed, form, f"random_circulant_gram_matrix({dim}, seed={seed})")
    run = gen_call(ctx, rep, "random_circulant_gram_matrix", random_circulant_gram_matrix, [dim], seed, {"fn": "circulant", "dim": dim}, info, dim >= 1, model_ok, form)
    st, C = run.st, run.out
    if st != "ok":
        return rep.fail("raises", f"{call} raised {C}", {**info, "impl": C})
    C = np.asarray(C)
    if C.shape != (dim, dim):
        return rep.fail("shape", f"{call} has shape {C.shape}", {**info, "impl": C})
    if not np.all(np.isfinite(C)):
        return rep.fail("non-finite", f"{call} has non-finite entries", {**info, "impl": C})
    if not imag_zero(C):
        rep.fail("not-real", f"{call} is not real", {**info, "impl": C})
    if herm_resid(C) > TOL_GEN:
        rep.fail("not-symmetric", f"{call}: |C - C^T| = {herm_resid(C):.3e}", {**info, "impl": C})
    if min_eig(C) < -TOL_PSD * 10:
        rep.fail("not-psd", f"{call}: min eigenvalue {min_eig(C):.3e}", {**info, "impl": C})
    worst = 0.0
    for i in range(dim):
        for j in range(dim):
            worst = max(worst, abs(C[i, j] - C[(i - j) % dim, 0]))
    if worst > TOL_GEN:
        rep.fail("not-circulant", f"{call}: entry (i,j) differs from entry ((i-j) mod d, 0) by {worst:.3e}", {**info, "impl": C})
    if run.exact_ready():
        # spec circGramRe with c = 1/sqrt(d), omega = exp(-2 pi i/d):  C[i,j] = (1/d) sum_k lam_k cos(2 pi k (j - i)/d)
        lam = run.draws()[0]
        want = np.array([[sum(lam[k] * np.cos(2 * np.pi * k * (j - i) / dim) for k in range(dim)) / dim for j in range(dim)] for i in range(dim)])
        if float(np.abs(want - C).max()) > 1e-12:
            rel_fail(ctx, rep, "random_circulant_gram_matrix", f"{call} differs from Re(F^H diag(lam) F) of the drawn eigenvalues by {float(np.abs(want - C).max()):.3e}", info)
        else:
            ctx.count("relation/circulant-equals-spec")


def check_ginibre(ctx, rep, n, m, seed, model_ok=True, form=None):
    args = {"kind": "ginibre", "n": n, "m": m, "seed": seed}
    form = resolve_form(form, "random_ginibre", random_ginibre, [n, m], seed, ("dim_n", "dim_m"))
    if form:
        args["form"] = form
    ctx.case(args, n * m >= 2, "random_ginibre" + ("/unseeded" if seed is None else ""))
    info = {"function": "random_ginibre", "args": args, "theorem": "(shape only)"}
    run = gen_call(ctx, rep, "random_ginibre", random_ginibre, [n, m], seed, {"fn": "ginibre", "n": n, "m": m}, info, True, model_ok, form)
    st, G = run.st, run.out
    if st != "ok":
        return rep.fail("raises", f"random_ginibre({n}, {m}, seed={seed}) raised {G}", {**info, "impl": G})
    G = np.asarray(G)
    if G.shape != (n, m) or not np.iscomplexobj(G) or not np.all(np.isfinite(G)):
        rep.fail("shape", f"random_ginibre({n}, {m}) has shape {G.shape}, dtype {G.dtype}", {**info, "impl": G})
    elif run.exact_ready():
        dr = run.draws()
        if not same_bits((dr[0] + 1j * dr[1]) / np.sqrt(2), G):
            rel_fail(ctx, rep, "random_ginibre", f"random_ginibre({n}, {m}, seed={seed}) is not (N1 + i N2)/sqrt(2) of the two normal draws", info)
        else:
            ctx.count("relation/ginibre-equals-formula")


NP_DIM_MATCHER = "c19-numpy-integer-scalar-dim"


def observe_np_dim(ctx, rep):
    """A scalar `dim` spelled as a NumPy integer, for the functions / branches that test `isinstance(dim, int)` (random_unitary and its callers
    random_orthonormal_basis, random_density_matrix(distance_metric='bures'); the Schmidt branch of random_state_vector).  On the tree as read
    these calls raise IndexError ('invalid index to scalar variable'): reported to the maintainers of the check as a candidate finding.  Until a
    record with matcher NP_DIM_MATCHER exists in KNOWN_FINDINGS.jsonl the exception is only counted; a call that RETURNS must return
    bitwise the object of the builtin spelling (verdict)."""
    recorded = any(r.get("matcher") == NP_DIM_MATCHER for r in getattr(ctx, "known", []))
    for fname, fn, pos in (("random_unitary", random_unitary, [3, False]), ("random_unitary", random_unitary, [2, True]),
                           ("random_orthonormal_basis", random_orthonormal_basis, [3, False]),
                           ("random_density_matrix", random_density_matrix, [3, False, 3, "bures"]), ("random_density_matrix", random_density_matrix, [2, True, None, "bures"]),
                           ("random_state_vector", random_state_vector, [3, False, 1]), ("random_state_vector", random_state_vector, [4, True, 2])):
        for t in ("int64", "int32"):
            form = {"np": {"dim": t}}
            a, k = call_args(fn, pos, 7, form)
            call = show_call(fname, a, k)
            args = {"kind": "np_dim", "function": fname, "pos": pos, "seed": 7, "form": form}
            ctx.case(args, True, f"{fname}/numpy-integer-scalar-dim")
            st, out = _call(fn, *a, **k)
            st0, out0 = _call(fn, *pos, seed=7)
            info = {"function": fname, "args": args, "call": call, "impl": out, "expected": out0,
                    "theorem": "draws_are_function_of_seed (the object is a function of generator, argument values and seed)"}
            if st != "ok" and st0 == "ok":
                ctx.count(f"numpy-integer-scalar-dim/{fname}/raises-{out.split(':')[0]}" + ("" if recorded else "(counted only: candidate finding, no record yet)"))
                if recorded:
                    rep.fail("numpy-scalar-dim-raises", f"{call} raised {out}; the builtin spelling returns", info)
            elif st == "ok" and st0 == "ok" and freeze(out) != freeze(out0):
                rep.fail("argument-form", f"{call} returned a different object than the builtin spelling", info)
            else:
                ctx.count(f"numpy-integer-scalar-dim/{fname}/same-object")


def with_none(seeds, rng, one_in=2):
    """the seed list of a configuration, sometimes followed by an unseeded call (seed=None: must be valid, must not be reproducible)"""
    return list(seeds) + ([None] if rng.integers(one_in) == 0 else [])


def run_kinds(ctx, rep, model_ok):
    rng = ctx.rng
    quick = ctx.tier == "quick"
    ns = 2 if quick else 6
    dims = range(1, 7)
    # corpus: the inputs on which the tree as first read violated the property (smallest representatives first)
    check_state_vector(ctx, rep, [2, 2], False, 0, 7, model_ok)
    check_state_vector(ctx, rep, [2, 3], True, 2, 7, model_ok)
    check_density(ctx, rep, 3, False, 1, "bures", 7, model_ok)
    check_density(ctx, rep, 3, False, 2, "bures", 7, model_ok)
    for s in range(8):  # (1 + U) G = 0 for dim 1, U = -1
        check_density(ctx, rep, 1, True, None, "bures", s, model_ok)
    # corpus of the hardening pass: optional arguments spelled as NumPy scalars (what `for k in np.arange(1, d)` or an entry of an integer
    # array hands over), by keyword, by position, left out; every object must be the one of the builtin spelling and of the advertised kind
    i64 = {"k_param": "int64"}
    check_state_vector(ctx, rep, [3, 3], False, 1, 0, model_ok, {"np": i64, "kw": 1})
    check_state_vector(ctx, rep, 3, True, 1, 7, model_ok, {"np": {**i64, "seed": "int64"}, "seed": "pos"})
    check_state_vector(ctx, rep, 4, False, 2, 2024, model_ok, {"np": {"k_param": "int32", "is_real": "bool_"}, "kw": 2})
    check_state_vector(ctx, rep, [3, 4], False, 2, 7, model_ok, {"np": {"dim": "int64", "k_param": "intp", "seed": "uint32"}})
    check_state_vector(ctx, rep, [4, 3], True, 3, 0, model_ok, {"np": {"dim": "ndarray", "k_param": "int64", "is_real": "bool_"}, "kw": 1})
    check_state_vector(ctx, rep, [2, 2], False, 1, 1, model_ok, {"np": {"dim": "tuple", "k_param": "int64"}})
    check_state_vector(ctx, rep, 5, False, 0, 3, model_ok, {"np": {"dim": "int64", "seed": "uint64"}, "omit": True})
    check_state_vector(ctx, rep, 3, False, 0, None, model_ok, {"omit": True, "seed": "omit"})
    check_density(ctx, rep, 3, False, 2, "haar", 7, model_ok, {"np": {"dim": "int64", "is_real": "bool_", "k_param": "int64", "seed": "uint32"}, "kw": 3})
    check_density(ctx, rep, 4, True, 1, "haar", 0, model_ok, {"np": {"k_param": "int32", "is_real": "bool_"}, "seed": "pos"})
    check_density(ctx, rep, 3, True, 3, "bures", 5, model_ok, {"np": {"k_param": "int64", "seed": "int64"}, "kw": 2})
    check_density(ctx, rep, 3, False, None, "haar", 9, model_ok, {"np": {"dim": "int32"}, "omit": True})
    check_unitary(ctx, rep, [3, 3], True, 7, model_ok, {"np": {"dim": "int64", "is_real": "bool_", "seed": "int64"}, "kw": 1})
    check_unitary(ctx, rep, [2, 2], False, 0, model_ok, {"np": {"dim": "ndarray", "seed": "uint32"}, "seed": "pos"})
    check_unitary(ctx, rep, 3, False, 11, model_ok, {"np": {"seed": "uint64"}, "omit": True})
    check_psd(ctx, rep, 3, True, 7, model_ok, {"np": {"dim": "int64", "is_real": "bool_", "seed": "int64"}, "seed": "pos"})
    check_basis(ctx, rep, 3, True, 7, model_ok, {"np": {"is_real": "bool_", "seed": "uint32"}, "kw": 1})
    check_states(ctx, rep, 3, 2, 7, model_ok, {"np": {"n": "int64", "d": "int32", "seed": "int64"}, "seed": "pos"})
    check_povm(ctx, rep, 2, 2, 3, 7, model_ok, {"np": {"dim": "int64", "num_inputs": "int64", "num_outputs": "int32", "seed": "uint32"}})
    check_circulant(ctx, rep, 4, 7, model_ok, {"np": {"dim": "int64", "seed": "int64"}, "seed": "pos"})
    check_ginibre(ctx, rep, 2, 3, 7, model_ok, {"np": {"dim_n": "int64", "dim_m": "int64", "seed": "uint64"}})
    observe_np_dim(ctx, rep)
    for d in dims:
        for is_real in (False, True):
            for dform in (d, [d, d]):
                for s in with_none(seeds_from(rng, ns + 1), rng):
                    check_unitary(ctx, rep, dform, is_real, s, model_ok, "auto")
            for s in with_none(seeds_from(rng, ns + 1), rng):
                check_psd(ctx, rep, d, is_real, s, model_ok, "auto")
                check_basis(ctx, rep, d, is_real, s, model_ok, "auto")
            for metric in ("haar", "bures"):
                for k in [None] + list(range(1, d + 1)):
                    for s in with_none(seeds_from(rng, ns), rng, 3):
                        check_density(ctx, rep, d, is_real, k, metric, s, model_ok, "auto")
        for s in with_none(seeds_from(rng, ns + 1), rng):
            check_circulant(ctx, rep, d, s, model_ok, "auto")
        for n in range(1, 5):
            for s in with_none(seeds_from(rng, ns), rng, 3):
                check_states(ctx, rep, n, d, s, model_ok, "auto")
                check_ginibre(ctx, rep, d, n, s, model_ok, "auto")
    # state vectors: scalar dims 1..6, list dims [d0,d1] with d0*d1 <= 36, k over 0..min(dim)
    sv_cfgs = []
    for d in dims:
        for k in range(0, d + 1):
            sv_cfgs.append((d, k))
    for d0, d1 in itertools.product(dims, dims):
        for k in range(0, min(d0, d1) + 1):
            sv_cfgs.append(([d0, d1], k))
    if quick:
        keep = [c for c in sv_cfgs if isinstance(c[0], int) or max(c[0]) <= 3]
        rest = [c for c in sv_cfgs if c not in keep]
        pick = rng.choice(len(rest), size=40, replace=False)
        sv_cfgs = keep + [rest[int(i)] for i in sorted(pick)]
    for dim, k in sv_cfgs:
        for is_real in (False, True):
            for s in with_none(seeds_from(rng, ns), rng, 4):
                check_state_vector(ctx, rep, dim, is_real, k, s, model_ok, "auto")
    # POVMs
    povm_cfgs = list(itertools.product(dims, range(1, 4), range(1, 5)))
    if quick:
        keep = [c for c in povm_cfgs if c[0] <= 2]
        rest = [c for c in povm_cfgs if c[0] > 2]
        pick = rng.choice(len(rest), size=24, replace=False)
        povm_cfgs = keep + [rest[int(i)] for i in sorted(pick)]
    for d, ni, no in povm_cfgs:
        for s in with_none(seeds_from(rng, ns), rng, 3):
            check_povm(ctx, rep, d, ni, no, s, model_ok, "auto")
    for d, ni, no in [(2, 2, 3), (3, 1, 4), (1, 3, 2), (4, 3, 1)]:
        check_povm_layout(ctx, rep, d, ni, no, model_ok)
    # malformed dim of random_unitary: a non-square list is rejected with ValueError (the draw program agrees on the exception)
    for dm in ([2, 3], [1, 4]):
        run = gen_call(ctx, rep, "random_unitary", random_unitary, [dm, False], 5, {"fn": "unitary", "dim": dm, "is_real": False},
                       {"function": "random_unitary", "args": {"kind": "unitary", "dim": dm, "is_real": False, "seed": 5}}, False, model_ok)
        ctx.case({"kind": "unitary-nonsquare", "dim": dm}, False, "random_unitary/non-square-rejected")
        if run.st == "ok":
            ctx.count("random_unitary/non-square-accepted")


# ------------------------------------------------------------------------------------------------ B. histories

def _npseed(seed, t):
    return None if seed is None else getattr(np, t)(seed)


# non-degenerate (generator, args) menu: the set of valid outputs is a continuum, so different seeds give different objects
MENU = [
    ("random_unitary", lambda seed: random_unitary(3, False, seed=seed), {"dim": 3, "is_real": False}),
    ("random_unitary", lambda seed: random_unitary(2, True, seed=seed), {"dim": 2, "is_real": True}),
    ("random_density_matrix", lambda seed: random_density_matrix(3, False, 2, "haar", seed=seed), {"dim": 3, "k_param": 2, "distance_metric": "haar"}),
    ("random_density_matrix", lambda seed: random_density_matrix(2, True, None, "bures", seed=seed), {"dim": 2, "is_real": True, "distance_metric": "bures"}),
    ("random_psd_operator", lambda seed: random_psd_operator(3, False, seed=seed), {"dim": 3}),
    ("random_orthonormal_basis", lambda seed: random_orthonormal_basis(3, False, seed=seed), {"dim": 3}),
    ("random_state_vector", lambda seed: random_state_vector(4, False, 0, seed=seed), {"dim": 4}),
    ("random_state_vector", lambda seed: random_state_vector([3, 2], True, 1, seed=seed), {"dim": [3, 2], "is_real": True, "k_param": 1}),
    ("random_states", lambda seed: random_states(3, 2, seed=seed), {"n": 3, "d": 2}),
    ("random_povm", lambda seed: random_povm(2, 2, 3, seed=seed), {"dim": 2, "num_inputs": 2, "num_outputs": 3}),
    ("random_circulant_gram_matrix", lambda seed: random_circulant_gram_matrix(4, seed=seed), {"dim": 4}),
    ("random_ginibre", lambda seed: random_ginibre(2, 3, seed=seed), {"dim_n": 2, "dim_m": 3}),
    # every remaining branch / argument form of the generators (deepening pass): list dim, real / complex, k_param None / = dim / < dim,
    # both metrics, Schmidt and plain branch for int and list dim
    ("random_unitary", lambda seed: random_unitary([2, 2], False, seed=seed), {"dim": [2, 2], "is_real": False}),
    ("random_unitary", lambda seed: random_unitary([3, 3], True, seed=seed), {"dim": [3, 3], "is_real": True}),
    ("random_density_matrix", lambda seed: random_density_matrix(2, True, None, "haar", seed=seed), {"dim": 2, "is_real": True, "k_param": None, "distance_metric": "haar"}),
    ("random_density_matrix", lambda seed: random_density_matrix(3, False, 3, "bures", seed=seed), {"dim": 3, "k_param": 3, "distance_metric": "bures"}),
    ("random_density_matrix", lambda seed: random_density_matrix(3, True, 1, "haar", seed=seed), {"dim": 3, "is_real": True, "k_param": 1, "distance_metric": "haar"}),
    ("random_psd_operator", lambda seed: random_psd_operator(2, True, seed=seed), {"dim": 2, "is_real": True}),
    ("random_orthonormal_basis", lambda seed: random_orthonormal_basis(2, True, seed=seed), {"dim": 2, "is_real": True}),
    ("random_state_vector", lambda seed: random_state_vector(3, False, 2, seed=seed), {"dim": 3, "k_param": 2}),
    ("random_state_vector", lambda seed: random_state_vector([2, 3], False, 0, seed=seed), {"dim": [2, 3], "k_param": 0}),
    ("random_state_vector", lambda seed: random_state_vector([2, 2], True, 2, seed=seed), {"dim": [2, 2], "is_real": True, "k_param": 2}),
    ("random_state_vector", lambda seed: random_state_vector(2, True, 0, seed=seed), {"dim": 2, "is_real": True}),
    ("random_povm", lambda seed: random_povm(3, 1, 2, seed=seed), {"dim": 3, "num_inputs": 1, "num_outputs": 2}),
    # hardening pass: arguments and seeds spelled as NumPy scalars, by keyword / by position / left out (values distinct from the entries above)
    ("random_state_vector", lambda seed: random_state_vector([3, 4], k_param=np.int64(2), seed=_npseed(seed, "uint32")), {"dim": [3, 4], "k_param": "np.int64(2)", "seed": "np.uint32"}),
    ("random_state_vector", lambda seed: random_state_vector(4, np.bool_(True), np.int32(1), _npseed(seed, "int64")), {"dim": 4, "is_real": "np.True_", "k_param": "np.int32(1)", "seed": "np.int64, by position"}),
    ("random_state_vector", lambda seed: random_state_vector(np.int64(5), seed=seed), {"dim": "np.int64(5)", "k_param": "left out"}),
    ("random_density_matrix", lambda seed: random_density_matrix(np.int64(4), k_param=np.int32(2), seed=_npseed(seed, "uint64")), {"dim": "np.int64(4)", "k_param": "np.int32(2)", "seed": "np.uint64"}),
    ("random_unitary", lambda seed: random_unitary([np.int64(4), np.int64(4)], is_real=np.bool_(False), seed=_npseed(seed, "int64")), {"dim": "[np.int64(4)] * 2", "is_real": "np.False_", "seed": "np.int64"}),
    ("random_psd_operator", lambda seed: random_psd_operator(np.int64(4), np.bool_(False), _npseed(seed, "uint32")), {"dim": "np.int64(4)", "seed": "np.uint32, by position"}),
    ("random_povm", lambda seed: random_povm(np.int64(2), np.int64(1), np.int64(2), seed=_npseed(seed, "int64")), {"dim": "np.int64(2)", "num_inputs": "np.int64(1)", "num_outputs": "np.int64(2)", "seed": "np.int64"}),
]
GEN_IDS = {name: i for i, name in enumerate(sorted({m[0] for m in MENU}))}


def freeze(o):
    """canonical bytes of a returned object (bitwise identity of arrays, element by element for lists)"""
    if isinstance(o, (list, tuple)):
        return ("L",) + tuple(freeze(x) for x in o)
    a = np.asarray(o)
    return ("A", str(a.dtype), a.shape, a.tobytes())


def gen_history(rng):
    n = int(rng.integers(5, 21))
    seed_pool = seeds_from(rng, 3)
    if rng.integers(3) == 0:
        seed_pool[0] = 0          # seed 0 must behave like every other seed
    gseed_pool = seeds_from(rng, 2)
    items = [int(i) for i in rng.choice(len(MENU), size=int(rng.integers(1, 4)), replace=False)]
    ops = []
    for _ in range(n):
        t = int(rng.choice([0, 0, 0, 0, 1, 2, 3, 3, 3, 4, 5]))
        a = int(rng.choice(items))
        if t == 0:
            ops.append([0, a, int(rng.choice(seed_pool))])
        elif t == 1:
            ops.append([1, a, 0])
        elif t == 2:
            ops.append([2, 0, int(rng.choice(gseed_pool))])
        elif t == 3:
            ops.append([3, 0, 0])
        elif t == 4:
            ops.append([4, 0, int(rng.choice(seed_pool))])
        else:
            ops.append([5, 0, 0])
    return ops


def exec_history(ops, state0):
    """run the operations on the real code from the global-generator state `state0`; returns outputs (frozen) and the final state"""
    saved = np.random.get_state()
    outs = []
    try:
        np.random.set_state(state0)
        for t, a, s in ops:
            if t == 0:
                outs.append(freeze(MENU[a][1](s)))
            elif t == 1:
                outs.append(freeze(MENU[a][1](None)))
            elif t == 2:
                np.random.seed(s % (2 ** 32))
                outs.append(None)
            elif t == 3:
                outs.append(freeze(np.random.rand()))
            elif t == 4:
                outs.append(freeze(np.random.default_rng(s).random()))
            else:
                outs.append(freeze(np.random.default_rng().random()))
        final = np.random.get_state()
    finally:
        np.random.set_state(saved)
    return outs, (final[0], final[1].tobytes(), final[2], final[3], final[4])


def classes_of(outs):
    first = {}
    cls = []
    for i, o in enumerate(outs):
        if o is None:
            cls.append(-1)
        else:
            cls.append(first.setdefault(o, i))
    return cls


def lean_ops(ops):
    # the model identifies a menu entry by (generator id, argument id); both are folded into the menu index
    return [[t, GEN_IDS[MENU[a][0]] if t in (0, 1) else 0, a if t in (0, 1) else 0, s] for t, a, s in ops]


def describe(ops):
    out = []
    for t, a, s in ops:
        if t == 0:
            out.append(f"{MENU[a][0]}({MENU[a][2]}, seed={s})")
        elif t == 1:
            out.append(f"{MENU[a][0]}({MENU[a][2]})")
        elif t == 2:
            out.append(f"np.random.seed({s})")
        elif t == 3:
            out.append("np.random.rand()")
        elif t == 4:
            out.append(f"default_rng({s}).random()")
        else:
            out.append("default_rng().random()")
    return out


def check_history(ctx, rep, ops, state0_seed, model_ok):
    rs = np.random.RandomState(state0_seed)
    state0 = rs.get_state()
    seeded_pos = {}
    nontrivial = False
    for i, (t, a, s) in enumerate(ops):
        if t == 0:
            if (a, s) in seeded_pos and any(ops[j][0] in (1, 2, 3) for j in range(seeded_pos[(a, s)], i)):
                nontrivial = True
            seeded_pos.setdefault((a, s), i)
    args = {"kind": "history", "ops": ops, "state0_seed": state0_seed}
    ctx.case(args, nontrivial, f"history/len={len(ops) // 5 * 5}+")
    info = {"function": "toqito.rand.* call history", "args": args, "history": describe(ops),
            "theorem": "seeded_output_history_independent / seeded_calls_do_not_disturb / toqito_calls_do_not_disturb_global"}
    try:
        outs, final = exec_history(ops, state0)
    except Exception as e:  # noqa: BLE001
        return rep.fail("raises", f"history raised {type(e).__name__}: {e}", {**info, "impl": repr(e)})
    real = classes_of(outs)
    if model_ok:
        model = ctx.lean().ask("c19_history", {"ops": lean_ops(ops), "drop": "none"})["classes"]
    else:
        model = reference_classes(ops)
    if model != reference_classes(ops):
        rep.fail("model-vs-reference", "Lean state machine and the harness's reference labelling disagree (model defect)", {**info, "model": model, "reference": reference_classes(ops)})
    if real != model:
        i = next(j for j in range(len(ops)) if real[j] != model[j])
        t = ops[i][0]
        if model[i] < i and real[i] != model[i]:
            what = (f"operation {i} `{describe(ops)[i]}` must reproduce the output of operation {model[i]} (same generator, arguments and seed / same global stream position) "
                    f"but returned a different object")
            cls = "same-seed-different-output" if t == 0 else ("global-stream-disturbed" if t == 3 else "rng-draw-not-reproducible")
        else:
            what = (f"operation {i} `{describe(ops)[i]}` returned bitwise the same object as operation {real[i]} `{describe(ops)[real[i]]}` although they differ in "
                    f"seed / stream position")
            cls = "different-seeds-same-output" if t in (0, 1) else "unexpected-coincidence"
        rep.fail(cls, what, {**info, "impl": real, "model": model, "position": i})
        return
    # deleting the seeded calls / all non-global operations must not change what the remaining operations see
    for drop, keep in (("seeded", lambda t: t != 0), ("nonglobal", lambda t: t in (2, 3))):
        sub = [op for op in ops if keep(op[0])]
        outs2, final2 = exec_history(sub, state0)
        idx = [i for i, op in enumerate(ops) if keep(op[0])]
        # values that are functions of the history alone (global draws, seeded default_rng draws)
        for j, i in enumerate(idx):
            if ops[i][0] in (3, 4) and outs2[j] != outs[i]:
                rep.fail("global-stream-disturbed", f"`{describe(ops)[i]}` (operation {i}) returns a different value once the {drop} operations are deleted from the history: "
                         "a generator call read or wrote NumPy's global random state", {**info, "position": i, "dropped": drop})
                return
        if final2 != final:
            rep.fail("global-state-disturbed", f"final state of NumPy's global generator differs once the {drop} operations are deleted from the history", {**info, "dropped": drop})
            return
        if model_ok:
            m2 = ctx.lean().ask("c19_history", {"ops": lean_ops(ops), "drop": drop})["classes"]
            if m2 != classes_of(outs2):
                rep.fail("filtered-history-pattern", f"equality pattern of the history without the {drop} operations differs from the model's", {**info, "impl": classes_of(outs2), "model": m2, "dropped": drop})
                return


def reference_classes(ops):
    """the labelling of lean/Toq/Model/Rand.lean re-implemented independently (used when the driver is unavailable, and as a cross-check)"""
    labels = []
    glob = (None, 0)
    ent = 0
    for t, a, s in ops:
        if t == 0:
            labels.append(("gen", a, ("user", s)))
        elif t == 1:
            labels.append(("gen", a, ("os", ent)))
            ent += 1
        elif t == 2:
            glob = (s, 0)
            labels.append(None)
        elif t == 3:
            labels.append(("glob", glob))
            glob = (glob[0], glob[1] + 1)
        elif t == 4:
            labels.append(("rng", ("user", s)))
        else:
            labels.append(("rng", ("os", ent)))
            ent += 1
    return classes_of(labels)


def check_seed_pairs(ctx, rep):
    """same seed twice in a row is bitwise identical, two different seeds differ, for every menu entry and for dimension-6 objects"""
    rng = ctx.rng
    extra = [
        ("random_unitary", lambda seed: random_unitary(6, False, seed=seed), {"dim": 6}),
        ("random_density_matrix", lambda seed: random_density_matrix(6, False, 3, "haar", seed=seed), {"dim": 6, "k_param": 3}),
        ("random_povm", lambda seed: random_povm(5, 3, 4, seed=seed), {"dim": 5, "num_inputs": 3, "num_outputs": 4}),
        ("random_state_vector", lambda seed: random_state_vector(5, False, 3, seed=seed), {"dim": 5, "k_param": 3}),
    ]
    for name, fn, a in MENU + extra:
        for _ in range(2 if ctx.tier == "quick" else 10):
            s1, s2 = seeds_from(rng, 2)
            if s1 == s2:
                continue
            args = {"kind": "seed_pair", "function": name, "args": a, "seeds": [s1, s2]}
            ctx.case(args, True, "seed-pair")
            np_state = np.random.get_state()
            try:
                x1 = freeze(fn(s1))
                np.random.seed(12345)
                np.random.rand(7)
                x1b = freeze(fn(s1))
                x2 = freeze(fn(s2))
                x3 = freeze(fn(None))
            finally:
                np.random.set_state(np_state)
            info = {"function": name, "args": args, "theorem": "same_seed_same_output"}
            if x1 != x1b:
                rep.fail("same-seed-different-output", f"{name}({a}, seed={s1}) returned two different objects around np.random.seed / np.random.rand calls", info)
            if x1 == x2:
                rep.fail("different-seeds-same-output", f"{name}({a}) returned bitwise the same object for seeds {s1} and {s2}", info)
            if x3 == x1:
                rep.fail("unseeded-equals-seeded", f"{name}({a}) without a seed returned the object of seed {s1}", info)


# ------------------------------------------------------------------------------------------------ C. PGM / PBM

def ket_forms(rng, vecs, form):
    """kets in the forms to_density_matrix (hence pretty_good_measurement and pretty_bad_measurement) accepts: 1-D (d,), column (d, 1), ROW (1, d);
    "mixed*": one list mixing them with density matrices (each element is converted on its own), "mixed_row_first" starts with a row vector"""
    one = {"vec1d": lambda v: v, "col": lambda v: v.reshape(-1, 1), "row": lambda v: v.reshape(1, -1), "dm_pure": lambda v: np.outer(v, np.conj(v))}
    if form in one:
        return [one[form](v) for v in vecs]
    kinds = [str(rng.choice(["vec1d", "col", "row", "dm_pure"])) for _ in vecs]
    kinds[0] = "row" if form == "mixed_row_first" else kinds[0]
    if form == "mixed" and "row" not in kinds:
        kinds[-1] = "row"
    return [one[k](v) for k, v in zip(kinds, vecs)]


def gen_ensemble(rng, spanning=True, forms=("vec1d", "col", "dm_pure", "dm_mixed")):
    d = int(rng.choice([2, 2, 3, 3, 4]))
    n = int(rng.integers(2, 7))
    cplx = bool(rng.integers(2))
    form = str(rng.choice(list(forms)))
    for _ in range(200):
        if form == "dm_mixed":
            rhos = [qgen.rand_density(rng, d, int(rng.integers(1, d + 1)), cplx) for _ in range(n)]
            states = [r if cplx else r.real for r in rhos]
        else:
            vecs = [qgen.unit(qgen.int_vector(rng, d, cplx)) for _ in range(n)]
            if not cplx:
                vecs = [v.real for v in vecs]
            rhos = [np.outer(v, np.conj(v)) for v in vecs]
            states = ket_forms(rng, vecs, form) if form in ("row", "mixed", "mixed_row_first") else {"vec1d": vecs, "col": [v.reshape(-1, 1) for v in vecs], "dm_pure": rhos}[form]
        # dyadic priors, zeros allowed
        tot = 64
        cuts = sorted(int(c) for c in rng.integers(0, tot + 1, size=n - 1))
        parts = [b - a for a, b in zip([0] + cuts, cuts + [tot])]
        probs = [p / tot for p in parts]
        P = sum(p * r for p, r in zip(probs, rhos))
        lam = float(np.linalg.eigvalsh(P).min())
        if spanning and lam >= 2e-2:
            return d, states, rhos, probs, form, cplx, lam
        if not spanning and lam < 1e-13:
            return d, states, rhos, probs, form, cplx, lam
        if not spanning:
            # force rank deficiency: all states inside the span of the first d-1 basis vectors
            n = min(n, 6)
            vecs = []
            for _ in range(n):
                v = qgen.int_vector(rng, d, cplx)
                v[-1] = 0
                if not np.any(v):
                    v[0] = 1
                vecs.append(qgen.unit(v))
            rhos = [np.outer(v, np.conj(v)) for v in vecs]
            return d, vecs, rhos, probs, "vec1d", cplx, 0.0
    return None


def inv_sqrt(P):
    w, V = np.linalg.eigh(P)
    return (V * (w ** -0.5)) @ V.conj().T


def pgm_model_check(ctx, rep, rec, d, rhos, probs, M, info, fname):
    """the normaliser S the code obtained (captured scipy.linalg.fractional_matrix_power call) satisfies the hypotheses of pgm_is_povm /
    pgm_between_sq_opt_and_opt (S Hermitian, positive semidefinite, S P S = 1), and the returned operators are the Lean model
    `pgmElem` = S (p_i rho_i) S evaluated exactly on the same doubles"""
    fm = rec.lapack_calls("fractional_matrix_power")
    if len(fm) != 1 or float(fm[0][1][1]) != -0.5:
        return broken(ctx, f"{fname}/normaliser", f"{fname}: expected one call fractional_matrix_power(P, -1/2), captured {[(c[0], c[1][1:]) for c in fm]}")
    S = np.asarray(fm[0][2])
    if not np.all(np.isfinite(S)):
        return ctx.count("pgm/normaliser-non-finite")
    tot = 64
    ks = [int(round(p * tot)) for p in probs]
    if any(k / tot != p for k, p in zip(ks, probs)):
        return ctx.count("pgm/priors-not-dyadic")
    eR, jR = dyadic([np.asarray(r, dtype=complex) for r in rhos])
    A = [{"re": [k * z for z in j["re"]], "im": [k * z for z in j["im"]]} for k, j in zip(ks, jR)]   # p_i rho_i at exponent eR + 6, exactly
    eA = eR + 6
    eS, (jS,) = dyadic([S.astype(complex)])
    res = ctx.lean().ask("c19_pgm", {"dim": d, "S": jS, "A": A})
    nS = max(1.0, float(np.abs(S).max()))
    anti = float(np.abs(undyadic(res["antiherm"], eS, (d, d))).max())
    sps = undyadic(res["sps"], 2 * eS + eA, (d, d))
    mineig = float(np.linalg.eigvalsh((S + S.conj().T) / 2).min())
    if anti > 1e-9 * nS or float(np.abs(sps - np.eye(d)).max()) > 1e-9 * nS * nS or mineig < -1e-9 * nS:
        ctx.count("lapack-relation/pgm-hypotheses-not-met")
        ctx.note(f"{fname}: the captured normaliser violates the hypotheses of pgm_is_povm (|S - S^H| = {anti:.1e}, |S P S - 1| = {float(np.abs(sps - np.eye(d)).max()):.1e}, min eig {mineig:.1e})")
    else:
        ctx.count("lapack-relation/pgm-hypotheses-hold")
    worst = 0.0
    for i, m in enumerate(M):
        want = undyadic(res["elems"][i], 2 * eS + eA, (d, d))
        worst = max(worst, float(np.abs(want - np.asarray(m)).max()))
    if worst > TOL_MODEL * nS * nS * d:
        broken(ctx, f"{fname}/post-processing", f"{fname}: the returned operators differ from S (p_i rho_i) S for the captured normaliser S by {worst:.3e}")
    else:
        ctx.count("relation/pgm-equals-model")


def present_probs(prng, probs):
    """the optional prior argument in one of its spellings (same values): list of float, list of np.float64 (what a slice of an array gives element by
    element), float64 ndarray, tuple; by position or by keyword"""
    c = int(prng.integers(5))
    val = [list(probs), [np.float64(q) for q in probs], np.array(probs, dtype=float), tuple(probs), list(probs)][c]
    return val, bool(prng.integers(2)), ["list", "list-of-np.float64", "ndarray", "tuple", "list"][c]


def _pgm_call(fn, pst, ppr, by_kw):
    return _call(fn, pst, probs=ppr) if by_kw else _call(fn, pst, ppr)


def check_pgm(ctx, rep, inst, with_opt=True, model_ok=True):
    d, states, rhos, probs, form, cplx, lam = inst
    n = len(states)
    args = {"kind": "pgm", "dim": d, "n": n, "form": form, "complex": cplx, "probs": probs, "states": [np.asarray(s).tolist() for s in states] if not cplx else
            [[[float(np.real(z)), float(np.imag(z))] for z in np.asarray(s).reshape(-1)] for s in states], "lambda_min": lam}
    keys = ("kind", "dim", "n", "form", "complex", "probs", "states")
    if form in ("row", "mixed", "mixed_row_first"):
        args["shapes"] = [list(np.shape(s)) for s in states]
        keys += ("shapes",)
    ctx.case({k: args[k] for k in keys}, n >= 2 and d >= 2, f"pgm/{form}/d={d}")
    info = {"function": "pretty_good_measurement", "args": args, "theorem": "pgm_is_povm"}
    prng = case_rng("c19/pgm", d, form, cplx, probs, args["states"])
    # real-valued states start as complex128, so that each element independently arrives as complex128 / float64 / int64 (dtype-mixed lists)
    pst = present_obj(prng, [np.array(s, dtype=complex) for s in states])
    ppr, by_kw, pform = present_probs(prng, probs)
    ctx.count(f"pgm/probs-spelling/{pform}/{'keyword' if by_kw else 'position'}")
    guard = Pure(pst, ppr)
    with Recorder() as rec:
        st, M = _pgm_call(pretty_good_measurement, pst, ppr, by_kw)
    impure(rep, guard, "pretty_good_measurement", info, pdescribe(pst) + [pform])
    if st != "ok":
        return rep.fail("raises", f"pretty_good_measurement raised {M} on a spanning ensemble (lambda_min = {lam:.3f})", {**info, "impl": M})
    if len(M) != n:
        return rep.fail("count", f"pretty_good_measurement returned {len(M)} operators for {n} states", {**info, "impl": M})
    bad = povm_defects(M, TOL_PGM, TOL_PGM)
    if bad:
        rep.fail("not-povm", f"pretty_good_measurement on a spanning ensemble (d={d}, n={n}, {form}, lambda_min={lam:.3f}) is not a POVM: {bad[:3]}", {**info, "impl": M, "defects": bad})
    S = inv_sqrt(sum(p * r for p, r in zip(probs, rhos)))
    want = [S @ (p * r) @ S for p, r in zip(probs, rhos)]
    diff = max(float(np.abs(np.asarray(m) - w).max()) for m, w in zip(M, want))
    if diff > 1e-8:
        rep.fail("formula", f"pretty_good_measurement differs from P^-1/2 p_i rho_i P^-1/2 by {diff:.3e}", {**info, "impl": M, "expected": want})
    if model_ok:
        pgm_model_check(ctx, rep, rec, d, rhos, probs, M, info, "pretty_good_measurement")
    # default argument: probs=None is the uniform prior (the ensemble with uniform priors must span for the POVM verdict to apply)
    Pu = sum(r for r in rhos) / n
    if float(np.linalg.eigvalsh(Pu).min()) >= 2e-2:
        pst0 = present_obj(prng, [np.array(s, dtype=complex) for s in states])
        guard = Pure(pst0)
        st0, M0 = _call(pretty_good_measurement, pst0)
        impure(rep, guard, "pretty_good_measurement", info, pdescribe(pst0))
        stb, B0 = _call(pretty_bad_measurement, pst0)
        stu, Mu = _call(pretty_good_measurement, pst0, n * [1 / n])
        ctx.count("pgm/probs-None")
        if st0 != "ok" or stb != "ok":
            rep.fail("raises", f"pretty_good/bad_measurement(states) without priors raised {M0 if st0 != 'ok' else B0}", {**info, "impl": M0, "probs": None})
        else:
            b0 = povm_defects(M0, TOL_PGM, TOL_PGM) + povm_defects(B0, TOL_PGM, TOL_PGM)
            if b0:
                rep.fail("not-povm", f"pretty_good/bad_measurement without priors (uniform) is not a POVM: {b0[:3]}", {**info, "impl": M0, "probs": None, "defects": b0})
            elif stu != "ok" or any(not same_bits(np.asarray(x), np.asarray(y)) for x, y in zip(M0, Mu)):
                broken(ctx, "pretty_good_measurement/default-priors", "probs=None does not give the measurement of the uniform priors n*[1/n]")
            elif any(float(np.abs(np.asarray(b) - (np.eye(d) - np.asarray(m)) / (n - 1)).max()) > 1e-12 for b, m in zip(B0, M0)):
                broken(ctx, "pretty_bad_measurement/default-priors", "pretty_bad_measurement(states) is not (1 - G_i)/(n-1) of pretty_good_measurement(states)")
    # pretty bad measurement
    infob = {**info, "function": "pretty_bad_measurement", "theorem": "pbm_is_povm"}
    pst = present_obj(prng, [np.array(s, dtype=complex) for s in states])
    ppr, by_kw, pform = present_probs(prng, probs)
    guard = Pure(pst, ppr)
    with Recorder() as recb:
        st, B = _pgm_call(pretty_bad_measurement, pst, ppr, by_kw)
    impure(rep, guard, "pretty_bad_measurement", infob, pdescribe(pst) + [pform])
    if st != "ok":
        rep.fail("raises", f"pretty_bad_measurement raised {B} on a spanning ensemble", {**infob, "impl": B})
    else:
        badb = povm_defects(B, TOL_PGM, TOL_PGM) if len(B) == n else [f"{len(B)} operators for {n} states"]
        if badb:
            rep.fail("not-povm", f"pretty_bad_measurement on a spanning ensemble (d={d}, n={n}, {form}) is not a POVM: {badb[:3]}", {**infob, "impl": B, "defects": badb})
        else:
            wantb = [(np.eye(d) - w) / (n - 1) for w in want]
            diffb = max(float(np.abs(np.asarray(m) - w).max()) for m, w in zip(B, wantb))
            if diffb > 1e-8:
                rep.fail("formula", f"pretty_bad_measurement differs from (1 - G_i)/(n-1) by {diffb:.3e}", {**infob, "impl": B, "expected": wantb})
    # success probability between the square of the optimum and the optimum
    if with_opt and not bad:
        from toqito.state_opt import state_distinguishability
        p_pgm = float(sum(p * np.trace(r @ np.asarray(m)).real for p, r, m in zip(probs, rhos, M)))
        # (the optimum is the oracle here, not the function under test: row-vector / mixed lists are handed over as density operators)
        st, res = _call(state_distinguishability, [np.array(s) for s in (rhos if "shapes" in args else states)], list(probs))
        if st != "ok":
            if res.split(":")[0] in ("ArithmeticError", "ZeroDivisionError"):
                ctx.count("pgm/solver-numerical-failure")
            else:
                ctx.count("pgm/opt-raised/" + res.split(":")[0])
            return
        p_opt = float(res[0])
        ctx.count("pgm/bound-checked")
        if p_opt < 1 - 1e-2:
            ctx.count("pgm/bound-nontrivial")
        if not (p_opt ** 2 - 1e-4 <= p_pgm <= p_opt + 1e-4):
            rep.fail("pgm-bound", f"P_pgm = {p_pgm:.6f} is not in [P_opt^2, P_opt] = [{p_opt ** 2:.6f}, {p_opt:.6f}]",
                     {**info, "p_pgm": p_pgm, "p_opt": p_opt, "theorem": "(Barnum-Knill, cited)"})


def observe_non_spanning(ctx, inst):
    d, states, rhos, probs, form, cplx, lam = inst
    ctx.case({"kind": "pgm-non-spanning", "dim": d, "n": len(states)}, False, "pgm/non-spanning(observed only)")
    st, M = _call(pretty_good_measurement, present_obj(case_rng("c19/pgm-non-spanning", d, probs, [np.asarray(s).tolist() for s in rhos]), [np.array(s) for s in states]), list(probs))
    if st != "ok":
        ctx.count("pgm/non-spanning/" + M.split(":")[0])
    elif not all(np.all(np.isfinite(np.asarray(m))) for m in M):
        ctx.count("pgm/non-spanning/non-finite")
    else:
        ctx.count("pgm/non-spanning/finite-sum-err>=1e-6" if povm_defects(M, 1e-6, 1e-6) else "pgm/non-spanning/povm")


# ------------------------------------------------------------------------------------------------ D. measure

def rand_complex(rng, shape, cplx=True):
    a = rng.integers(-4, 5, size=shape).astype(complex)
    if cplx:
        a = a + 1j * rng.integers(-4, 5, size=shape)
    return a


def gen_measure_case(rng):
    d = int(rng.integers(2, 6))
    cplx = bool(rng.integers(3))
    kind = str(rng.choice(["single", "single_proj", "single_rect", "kraus_square", "kraus_rect", "projective", "sqrt_povm", "incomplete", "zero_prob"]))
    if kind == "zero_prob":
        U = qgen.cayley_unitary(rng, d, cplx)
        rho = np.outer(U[:, 0], U[:, 0].conj())
        ops = [np.outer(U[:, i], U[:, i].conj()) for i in range(d)]
        return d, rho, ops, kind, True
    rank = int(rng.integers(1, d + 1))
    rho = qgen.rand_density(rng, d, rank, cplx)
    if kind == "single":
        return d, rho, rand_complex(rng, (d, d), cplx) / 8, kind, None
    if kind == "single_proj":
        U = qgen.cayley_unitary(rng, d, cplx)
        r = int(rng.integers(1, d))
        return d, rho, U[:, :r] @ U[:, :r].conj().T, kind, None
    if kind == "single_rect":
        m = int(rng.integers(1, d + 2))
        return d, rho, rand_complex(rng, (m, d), cplx) / 8, kind, None
    if kind in ("kraus_square", "kraus_rect", "incomplete"):
        k = int(rng.integers(2, 5))
        m = d if kind != "kraus_rect" else int(rng.integers(1, d + 2))
        while m * k < d:
            k += 1
        G = rand_complex(rng, (m * k, d), cplx) + rng.standard_normal((m * k, d)) * 0.5
        Q, _ = np.linalg.qr(G)  # isometry (m*k) x d
        ops = [Q[i * m:(i + 1) * m, :] for i in range(k)]
        if kind == "incomplete":
            j = int(rng.integers(k))
            ops[j] = ops[j] * float(rng.choice([0.5, 0.9, 1.2]))
            return d, rho, ops, kind, False
        return d, rho, ops, kind, True
    if kind == "projective":
        U = qgen.cayley_unitary(rng, d, cplx)
        return d, rho, [np.outer(U[:, i], U[:, i].conj()) for i in range(d)], kind, True
    # sqrt_povm
    k = int(rng.integers(2, 5))
    As = [rand_complex(rng, (d, d), cplx) for _ in range(k)]
    Es = [a.conj().T @ a + np.eye(d) * 0.5 for a in As]
    S = inv_sqrt(sum(Es))
    Es = [S @ e @ S for e in Es]
    ops = []
    for e in Es:
        w, V = np.linalg.eigh((e + e.conj().T) / 2)
        ops.append((V * np.sqrt(np.clip(w, 0, None))) @ V.conj().T)
    return d, rho, ops, kind, True


LOW_EPS = (4e-4, 1e-5, 3e-7, 2e-9, 3e-11)
MEAS_TOLS = (None, 1e-8, 1e-6, 1e-3, 1e-2, 0.3)


def gen_low_prob_case(rng):
    """A complete measurement with UNLIKELY outcomes, and an explicit `tol` that is larger than some of the genuine probabilities: a state with
    eigenvalues eps_1.. (from LOW_EPS) and dyadic-weighted rest in a rotated (rational unitary) basis, measured by rank-one projectors of that
    basis, by coarse-grained projectors, by projectors followed by outcome-dependent unitaries (Kraus operators W_i P_i), or by a single projector.
    `tol` only selects whether a post-measurement state is produced (docstring: `p_i <= tol` gives a zero matrix); the reported probabilities
    are the Born values for every tol (measure_model_born is stated for all tol; measure_model_prob_tol_indep) and sum to one.
    tol is chosen so that every outcome probability is a factor >= 2 away from it (no borderline float comparison) and, when possible,
    at least one probability p has 1e-11 <= p <= tol / 2."""
    d = int(rng.integers(2, 6))
    cplx = bool(rng.integers(3))
    U = qgen.cayley_unitary(rng, d, cplx)
    nlow = int(rng.integers(1, d))
    eps = [float(rng.choice(LOW_EPS)) for _ in range(nlow)]
    w = rng.integers(1, 9, size=d - nlow).astype(float)
    lam = np.array(eps + list(w / w.sum() * (1 - sum(eps))))[rng.permutation(d)]
    rho = (U * lam) @ U.conj().T
    rho = (rho + rho.conj().T) / 2
    sub = str(rng.choice(["projective", "projective", "rotated", "coarse", "single"]))
    proj = [np.outer(U[:, i], U[:, i].conj()) for i in range(d)]
    if sub == "projective":
        ops = proj
    elif sub == "rotated":
        ops = [qgen.cayley_unitary(rng, d, cplx) @ q for q in proj]
    elif sub == "coarse":
        g = int(rng.integers(2, d + 1))
        order = np.argsort(lam)                      # the g smallest eigenvalues go to g different groups, the others anywhere
        lab = np.empty(d, dtype=int)
        lab[order[:g]] = np.arange(g)
        lab[order[g:]] = rng.integers(0, g, size=d - g)
        ops = [sum(proj[i] for i in range(d) if lab[i] == c) for c in range(g)]
    else:
        ops = proj[int(np.argmin(lam))]
    oplist = ops if isinstance(ops, list) else [ops]
    born = [float(np.trace(o.conj().T @ o @ rho).real) for o in oplist]
    good = [t for t in MEAS_TOLS if all(p > 2 * (t or 1e-10) or p < (t or 1e-10) / 2 for p in born)]
    best = [t for t in good if any(1e-11 <= p <= (t or 1e-10) / 2 for p in born)]
    pool = best or good or [None]
    tol = pool[int(rng.integers(len(pool)))]
    return (d, rho, ops, "low_prob/" + sub, None if sub == "single" else True), tol, bool(best)


def pick_measure_form(case, container, state_update, tol_arg):
    """how the optional arguments of measure are spelled (determined by the case): tol as float / np.float64 / np.float32, state_update as bool / np.bool_,
    both by keyword or by position"""
    d, rho, ops, kind, complete = case
    prng = case_rng("c19/measure-form", kind, d, container, state_update, tol_arg, [float(x) for x in np.asarray(rho, dtype=complex).real.reshape(-1)])
    form = {}
    if tol_arg is not None:
        t = str(prng.choice(["float", "float", "float64", "float64", "float32"]))
        if t != "float":
            form["tol"] = t
        if prng.integers(2):
            form["pos"] = True
    if prng.integers(2):
        form["upd"] = "bool_"
    return form or None


def measure_model_check(ctx, rep, d, rho, oplist, single, state_update, tol, st, out, info):
    """the Lean model of `measure` (Born probability, `prob > tol` branch, post state `K rho K^H / prob` or zeros_like(state), completeness
    check of the list form) on the exact dyadic values of the same inputs; borderline float comparisons (within 1e-3 of a threshold) are skipped"""
    if len({np.asarray(o).shape for o in oplist}) != 1:
        return ctx.count("measure-model/mixed-shapes")
    m = np.asarray(oplist[0]).shape[0]
    eR, (jR,) = dyadic([np.asarray(rho, dtype=complex)])
    eK, jK = dyadic([np.asarray(o, dtype=complex) for o in oplist])
    ft = Fraction(float(tol))
    res = ctx.lean().ask("c19_measure", {"dim": d, "rows": m, "tol": [ft.numerator, ft.denominator], "state_update": state_update, "single": single,
                                         "rho": {"e": eR, **jR}, "ops": [{"e": eK, **j} for j in jK]})
    if res["raises"] == -1 or any(o["positive"] == -1 for o in res["outcomes"]):
        return ctx.count("measure-model/borderline")
    if res["raises"] == 1:
        if st == "ok":
            broken(ctx, "measure/completeness", "the Lean model of measure raises (incomplete Kraus set, state_update, all probabilities > tol), the code returns")
        else:
            ctx.count("measure-model/agree-raises")
        return
    if st != "ok":
        return broken(ctx, "measure/raises", f"measure raised {out.split(':')[0]}, the Lean model returns")
    outs = [out] if single else list(out)
    if len(outs) != len(res["outcomes"]):
        return broken(ctx, "measure/count", "number of outcomes differs from the Lean model")
    for o, mo in zip(outs, res["outcomes"]):
        p = float(o[0]) if state_update else float(o)
        pm = float(Fraction(mo["prob"][0], mo["prob"][1]))
        bad = abs(p - pm) > TOL_MODEL
        if state_update and not bad:
            post = np.asarray(o[1])
            k = mo["post_dim"]
            want = unrat(mo["post"]["re"], (k, k)) + 1j * unrat(mo["post"]["im"], (k, k))
            bad = post.shape != want.shape or float(np.abs(post - want).max()) > 1e-10 + 1e-13 / max(pm, 1e-300)
        if bad:
            return broken(ctx, "measure/post-processing", f"measure differs from the Lean model (probability {p!r} vs {pm!r}" + (", or post-measurement state" if state_update else "") + ")")
    ctx.count("relation/measure-equals-model")


def check_measure(ctx, rep, case, container, state_update, tol_arg, model_ok=True, form=None, nontrivial=True):
    d, rho, ops, kind, complete = case
    if form == "auto":
        form = pick_measure_form(case, container, state_update, tol_arg)
    form = form or None
    single = not isinstance(ops, list)
    meas = ops if single else (tuple(ops) if container == "tuple" else list(ops))
    args = {"kind": "measure", "subkind": kind, "dim": d, "container": "ndarray" if single else container, "state_update": state_update, "tol": tol_arg,
            "rho": [[[float(z.real), float(z.imag)] for z in row] for row in np.asarray(rho, dtype=complex)],
            "ops": [[[[float(z.real), float(z.imag)] for z in row] for row in np.asarray(o, dtype=complex)] for o in ([ops] if single else ops)]}
    if form:
        args["form"] = form
    ctx.case(args, nontrivial, f"measure/{kind}/{'update' if state_update else 'prob'}" + ("" if tol_arg is None else ("/tol<=1e-6" if tol_arg <= 1e-6 else "/tol>=1e-3")))
    info = {"function": "measure", "args": args, "theorem": "measure_born / measure_probs_sum_one / measure_post_normalised / measure_model_born, measure_model_prob_tol_indep, measure_model_below_tol (every tol)"}
    updv = np.bool_(state_update) if form and form.get("upd") else state_update
    tolv = tol_arg if tol_arg is None or not (form and form.get("tol")) else getattr(np, form["tol"])(tol_arg)
    pos, kw = (), {"state_update": updv}
    if tol_arg is not None:
        kw["tol"] = tolv
    if form and form.get("pos") and tol_arg is not None:
        pos, kw = (tolv, updv), {}
    tol = 1e-10 if tol_arg is None else float(tolv)      # the value the code compares with (np.float32(1e-3) is not 1e-3)
    if form:
        for k_, v_ in form.items():
            ctx.count("measure/argument-form/" + (k_ if v_ is True else f"{k_}:{v_}"))
        info["call"] = "measure(state, measurement" + "".join(f", {x!r}" for x in pos) + "".join(f", {k}={v!r}" for k, v in kw.items()) + ")"
    prng = case_rng("c19/measure", kind, d, args["container"], state_update, tol_arg, args["rho"], args["ops"])
    prho = present_nd(prng, np.asarray(rho, dtype=complex))
    pmeas = present_obj(prng, np.asarray(meas, dtype=complex) if single else type(meas)(np.asarray(o, dtype=complex) for o in meas))   # container type kept
    guard = Pure(prho, pmeas)
    st, out = _call(measure, prho, pmeas, *pos, **kw)
    impure(rep, guard, "measure", info, pdescribe([prho, pmeas]))
    oplist = [ops] if single else ops
    if model_ok:
        measure_model_check(ctx, rep, d, rho, oplist, single, state_update, tol, st, out, info)
    born = [float(np.trace(o.conj().T @ o @ rho).real) for o in oplist]
    dev = 0.0 if single else float(np.abs(sum(o.conj().T @ o for o in oplist) - np.eye(d)).max())
    if kind == "incomplete" and dev < 1e-3:
        ctx.count("measure/incomplete-margin-too-small")
        return
    if kind == "incomplete" and state_update and all(p > tol for p in born):
        if st == "ok":
            rep.fail("completeness-not-checked", "measure(state_update=True) accepted Kraus operators violating sum K^dagger K = 1 by >= 1e-2", {**info, "impl": out})
        elif not out.startswith("ValueError"):
            rep.fail("raises", f"measure raised {out}", {**info, "impl": out})
        return
    if st != "ok":
        return rep.fail("raises", f"measure raised {out} on a valid input ({kind})", {**info, "impl": out})
    outs = [out] if single else list(out)
    if len(outs) != len(oplist):
        return rep.fail("count", f"measure returned {len(outs)} outcomes for {len(oplist)} operators", {**info, "impl": out})
    probs = []
    for i, (o, K) in enumerate(zip(outs, oplist)):
        if state_update:
            if not (isinstance(o, tuple) and len(o) == 2):
                return rep.fail("return-form", f"outcome {i} is not a (probability, state) pair", {**info, "impl": out})
            p, post = float(o[0]), np.asarray(o[1])
        else:
            if isinstance(o, tuple):
                return rep.fail("return-form", f"outcome {i} is a tuple although state_update=False", {**info, "impl": out})
            p, post = float(o), None
        probs.append(p)
        if abs(p - born[i]) > TOL_MEAS:
            rep.fail("born", f"outcome {i}: probability {p!r} differs from tr(K^dagger K rho) = {born[i]!r}" + ("" if tol_arg is None else f" (tol={tolv!r})"), {**info, "impl": out, "expected": born})
        elif abs(p - born[i]) > TOL_BORN_TIGHT * max(1.0, float(np.abs(K).max()) ** 2):
            # hardening pass: unlikely outcomes (probability below TOL_MEAS, or below the function's own `tol`) are outcomes; the Born value is
            # direct float algebra on entries of size <= 1 (rounding <= d^3 2^-52 ~ 1e-14)
            rep.fail("born", f"outcome {i}: probability {p!r} differs from tr(K^dagger K rho) = {born[i]!r} by more than {TOL_BORN_TIGHT}"
                     + ("" if tol_arg is None else f" (tol={tolv!r})"), {**info, "impl": out, "expected": born})
        if p < -TOL_MEAS:
            rep.fail("negative-probability", f"outcome {i}: probability {p!r}", {**info, "impl": out})
        if post is not None:
            if born[i] > 1e-6 and born[i] > tol * (1 + 1e-3):
                want = K @ rho @ K.conj().T / born[i]
                if post.shape != want.shape or float(np.abs(post - want).max()) > TOL_MEAS:
                    rep.fail("post-state", f"outcome {i}: post-measurement state differs from K rho K^dagger / p", {**info, "impl": out, "expected": want})
                elif abs(float(np.trace(post).real) - 1) > TOL_MEAS or abs(float(np.trace(post).imag)) > TOL_MEAS:
                    rep.fail("post-trace", f"outcome {i}: post-measurement state has trace {np.trace(post)!r}", {**info, "impl": out})
            elif (born[i] <= tol / 10 or born[i] < tol * (1 - 1e-3)) and np.abs(post).max() != 0:
                rep.fail("post-state-zero-prob", f"outcome {i} has probability {born[i]:.1e} <= tol = {tol!r} but a non-zero post-measurement state", {**info, "impl": out})
    if complete and not single and abs(sum(probs) - 1) > TOL_MEAS:
        rep.fail("probs-sum", f"probabilities of a complete measurement sum to {sum(probs)!r}", {**info, "impl": out})


# ------------------------------------------------------------------------------------------------ E. is_povm

def check_is_povm(ctx, rep, rng):
    d = int(rng.integers(1, 6))
    k = int(rng.integers(1, 5))
    cplx = bool(rng.integers(2))
    kind = str(rng.choice(["valid_projective", "valid_random_povm", "valid_sqrt", "bad_sum", "bad_psd", "bad_hermitian"]))
    if kind == "valid_projective" or d == 1 and kind in ("bad_psd", "bad_hermitian"):
        kind = "valid_projective"
        U = qgen.cayley_unitary(rng, d, cplx)
        mats = [np.outer(U[:, i], U[:, i].conj()) for i in range(d)]
    elif kind == "valid_random_povm":
        P = random_povm(d, 1, k, seed=int(rng.integers(2 ** 32)))
        mats = [P[:, :, 0, y] for y in range(k)]
    else:
        As = [rand_complex(rng, (d, d), cplx) for _ in range(k)]
        Es = [a.conj().T @ a + np.eye(d) * 0.5 for a in As]
        S = inv_sqrt(sum(Es))
        mats = [S @ e @ S for e in Es]
        mats = [(m + m.conj().T) / 2 for m in mats]
        if kind == "bad_sum":
            j = int(rng.integers(k))
            mats[j] = mats[j] + np.eye(d) * float(rng.choice([1e-3, 1e-2, 0.3]))
        elif kind == "bad_psd":
            # move weight between two elements along a direction so that the sum is kept and one element gets an eigenvalue <= -1e-3
            if k == 1:
                mats = mats + [np.zeros((d, d), dtype=complex)]
            w, V = np.linalg.eigh(mats[0])
            v = V[:, 0]
            shift = (w[0] + float(rng.choice([1e-3, 1e-2, 0.5]))) * np.outer(v, v.conj())
            mats[0] = mats[0] - shift
            mats[1] = mats[1] + shift
        elif kind == "bad_hermitian":
            if k == 1:
                mats = mats + [np.zeros((d, d), dtype=complex)]
            N = np.zeros((d, d), dtype=complex)
            N[0, d - 1] = float(rng.choice([1e-3, 1e-2, 0.5]))
            mats[0] = mats[0] + N
            mats[1] = mats[1] - N
    want = kind.startswith("valid")
    args = {"kind": "is_povm", "subkind": kind, "dim": d, "mats": [[[[float(z.real), float(z.imag)] for z in row] for row in np.asarray(m, dtype=complex)] for m in mats]}
    ctx.case(args, d >= 2, f"is_povm/{kind}")
    pm = present_obj(case_rng("c19/is_povm", kind, d, args["mats"]), [np.array(m, dtype=complex) for m in mats])
    guard = Pure(pm)
    st, got = _call(is_povm, pm)
    info = {"function": "is_povm", "args": args, "expected": want, "theorem": "(definition IsPOVM)"}
    impure(rep, guard, "is_povm", info, pdescribe(pm))
    if st != "ok":
        return rep.fail("raises", f"is_povm raised {got}", {**info, "impl": got})
    if bool(got) != want:
        rep.fail("verdict", f"is_povm returned {got} on a set that {'is a POVM up to rounding' if want else 'violates the POVM conditions by >= 1e-3'} ({kind})", {**info, "impl": bool(got)})


# ------------------------------------------------------------------------------------------------ entry points

# ------------------------------------------------------------------------------------------------ F. NumPy's floating-point error state
STRICT_FNS = {"measure": measure, "pretty_good_measurement": pretty_good_measurement, "pretty_bad_measurement": pretty_bad_measurement,
              "random_unitary": random_unitary, "random_density_matrix": random_density_matrix, "random_psd_operator": random_psd_operator,
              "random_orthonormal_basis": random_orthonormal_basis, "random_state_vector": random_state_vector, "random_states": random_states,
              "random_povm": random_povm, "random_circulant_gram_matrix": random_circulant_gram_matrix, "random_ginibre": random_ginibre}


def _cj(x):
    x = np.asarray(x, dtype=complex)
    return {"shape": list(x.shape), "re": x.real.reshape(-1).tolist(), "im": x.imag.reshape(-1).tolist()}


def strict_fp_cases(rng, count):
    """(function name, positional arguments, keyword arguments, canonical description) of the strict-fp stream: a fixed corpus, then `count` random rounds.
    * measure, single operator and list / tuple, with and without state_update, with outcomes of probability EXACTLY zero: the state is supported on the
      first r < d computational basis vectors (a random density operator of that block, or |0><0|) and the operators are the diagonal projectors
      |i><i| or the partial isometries |s(i)><i| of a permutation s (Kraus form) - every product with the state is an exact zero for i >= r;
    * pretty_good_measurement / pretty_bad_measurement on spanning ensembles (priors with exact zeros occur), all ensemble forms;
    * every random generator with a seed, dimensions 1..6 and their options."""
    out = []

    def meas(d, rho, ops, single, upd, tol, label):
        kw = {"state_update": upd} if tol is None else {"state_update": upd, "tol": tol}
        m = ops[-1] if single else ops
        out.append(("measure", (rho, m), kw, {"kind": "strict_fp", "function": "measure", "what": label, "dim": d, "single": single, "state_update": upd, "tol": tol,
                                              "rho": _cj(rho), "ops": [_cj(o) for o in ([m] if single else ops)]}))

    e2 = [np.diag([1.0, 0.0]), np.diag([0.0, 1.0])]
    for upd in (True, False):       # corpus: rho = |0><0| measured in the computational basis, and with the single impossible operator |1><1|
        for rho0 in (np.diag([1.0, 0.0]), np.diag([1.0 + 0j, 0.0]), np.array([[1, 0], [0, 0]])):
            meas(2, rho0, [o.astype(rho0.dtype if rho0.dtype.kind != "i" else float) for o in e2], False, upd, None, "impossible-outcome/corpus")
            meas(2, rho0, [o.astype(complex) for o in e2], True, upd, None, "impossible-outcome/corpus")
    for _ in range(count):
        d = int(rng.integers(2, 5))
        r = int(rng.integers(1, d))
        cplx = bool(rng.integers(2))
        rho = np.zeros((d, d), dtype=complex)
        rho[:r, :r] = qgen.rand_density(rng, r, int(rng.integers(1, r + 1)), cplx)
        if not cplx:
            rho = rho.real.copy()
        perm = [int(x) for x in rng.permutation(d)] if rng.integers(2) else list(range(d))
        ops = []
        for i in range(d):
            o = np.zeros((d, d), dtype=complex if rng.integers(2) else float)
            o[perm[i], i] = 1
            ops.append(o)
        container = tuple if rng.integers(3) == 0 else list
        meas(d, rho, container(ops), False, bool(rng.integers(2)), [None, None, 1e-8, 1e-3][int(rng.integers(4))], "impossible-outcome/block-state")
        meas(d, rho, ops, True, bool(rng.integers(2)), [None, 1e-8][int(rng.integers(2))], "impossible-outcome/block-state")
        inst = gen_ensemble(rng, True, ("vec1d", "col", "row", "mixed", "dm_pure", "dm_mixed"))
        if inst is not None:
            dd, states, rhos, probs, form, cx, lam = inst
            for fname in ("pretty_good_measurement", "pretty_bad_measurement"):
                for pr in ((list(probs),), ()) if float(np.linalg.eigvalsh(sum(rhos) / len(rhos)).min()) >= 2e-2 else ((list(probs),),):
                    out.append((fname, (list(states),) + pr, {}, {"kind": "strict_fp", "function": fname, "what": f"ensemble/{form}", "dim": dd,
                                                                  "states": [_cj(s_) for s_ in states], "probs": list(pr[0]) if pr else None}))
        # generators with a seed
        d = int(rng.integers(1, 7))
        real = bool(rng.integers(2))
        seed = int(rng.integers(2 ** 32)) if rng.integers(4) else int(rng.integers(2))
        k = int(rng.integers(1, d + 1))
        gens = [("random_unitary", ([d, d] if rng.integers(2) else d, real), {}),
                ("random_density_matrix", (d, real, [None, k][int(rng.integers(2))], "haar"), {}),
                ("random_density_matrix", (d, real, None, "bures"), {}),
                ("random_psd_operator", (d, real), {}),
                ("random_orthonormal_basis", (d, real), {}),
                ("random_state_vector", (d,), {"is_real": real, "k_param": int(rng.integers(0, d + 1))}),
                ("random_states", (int(rng.integers(1, 5)), d), {}),
                ("random_povm", (d, int(rng.integers(1, 4)), int(rng.integers(1, 5))), {}),
                ("random_circulant_gram_matrix", (d,), {}),
                ("random_ginibre", (d, int(rng.integers(1, 5))), {})]
        for j in (int(x) for x in rng.choice(len(gens), size=3, replace=False)):
            fname, pos, kw = gens[j]
            kw = {**kw, "seed": seed}
            out.append((fname, pos, kw, {"kind": "strict_fp", "function": fname, "what": "generator", "pos": [p if not isinstance(p, list) else list(p) for p in pos], "kw": kw}))
    return out


def _same_value(x, y):
    if isinstance(x, (list, tuple)) or isinstance(y, (list, tuple)):
        return isinstance(x, (list, tuple)) and isinstance(y, (list, tuple)) and len(x) == len(y) and all(_same_value(a, b) for a, b in zip(x, y))
    x, y = np.asarray(x), np.asarray(y)
    return x.shape == y.shape and bool(np.array_equal(x, y, equal_nan=True))


def check_strict_fp(ctx, rep, fname, pos, kw, desc, stream_seed, count):
    """the VALUE of a call does not depend on NumPy's global floating-point error state: evaluated with invalid / divide / overflow set to 'raise' (and the
    corresponding RuntimeWarnings as errors) the function returns what it returns in the default state - the value the other streams compare with the
    model.  A 0/0 evaluated for an impossible outcome and discarded afterwards (np.where) is invisible in the default state and raises here."""
    fn = STRICT_FNS[fname]
    args = {**desc, "stream_seed": stream_seed, "count": count}
    ctx.case(desc, True, f"strict-fp/{fname}/{desc['what']}")
    info = {"function": fname, "args": args, "theorem": "(the value specified by the property's theorems for this input - measure_born / measure_model_below_tol, pgm_is_povm, pbm_is_povm, "
            "the generator theorems - is a function of the arguments; NumPy's error state is not an argument)"}
    st0, v0 = _call(fn, *pos, **kw)
    st1, v1 = strict_fp_call(fn, *pos, **kw)
    if st0 != "ok":
        return ctx.count(f"strict-fp/default-state-raises/{fname}")       # judged by the stream of that function, not here
    if st1 != "ok":
        return rep.fail("fp-error-state", f"{fname}: the value depends on NumPy's floating-point error state - with np.seterr(invalid='raise', divide='raise', over='raise') the call "
                        f"raises {v1} where the default state returns a value ({desc['what']}; {show_strict(desc)})", {**info, "impl": v1, "default_state": v0})
    if not _same_value(v0, v1):
        return rep.fail("fp-error-state-value", f"{fname}: a different value under np.seterr(invalid='raise', ...) than in the default state ({desc['what']}; {show_strict(desc)})",
                        {**info, "impl": v1, "default_state": v0})
    ctx.count(f"strict-fp/same-value/{fname}")


def show_strict(desc):
    if desc["function"] == "measure":
        rho = np.array(desc["rho"]["re"]).reshape(desc["rho"]["shape"]) + 1j * np.array(desc["rho"]["im"]).reshape(desc["rho"]["shape"])
        ops = [np.array(o["re"]).reshape(o["shape"]) for o in desc["ops"]]
        return (f"state {np.round(rho, 4).tolist() if np.abs(rho.imag).max() else np.round(rho.real, 4).tolist()}, "
                f"{'operator' if desc['single'] else 'operators'} {[o.astype(int).tolist() for o in ops]}, state_update={desc['state_update']}, tol={desc['tol']}")
    if "states" in desc:
        return f"d={desc['dim']}, {len(desc['states'])} states of shapes {[tuple(s_['shape']) for s_ in desc['states']]}, probs={desc['probs']}"
    return f"{desc['function']}({', '.join(repr(p) for p in desc['pos'])}, {', '.join(f'{k}={v!r}' for k, v in desc['kw'].items())})"


def run_strict_fp(ctx, rep, quick):
    srng = ctx.rng.spawn(1)[0]
    stream_seed = int(srng.integers(2 ** 31))
    count = 40 if quick else 1000
    for fname, pos, kw, desc in strict_fp_cases(np.random.default_rng(stream_seed), count):
        check_strict_fp(ctx, rep, fname, pos, kw, desc, stream_seed, count)


def install_matchers(ctx):
    def bures(info):
        a = info.get("args", {})
        return (info.get("function") == "random_density_matrix" and a.get("distance_metric") == "bures" and a.get("k_param") is not None
                and a["k_param"] < a["dim"] and info.get("failure_class") in ("raises/ValueError", "rank>k"))

    def sv_list(info):
        a = info.get("args", {})
        return (info.get("function") == "random_state_vector" and isinstance(a.get("dim"), list) and not (0 < a.get("k_param", 0) < min(a["dim"]))
                and info.get("failure_class") == "raises/TypeError/list-dim")
    ctx.matchers[NP_DIM_MATCHER] = lambda info: info.get("failure_class") == "numpy-scalar-dim-raises" and str(info.get("impl", "")).startswith("IndexError")
    ctx.matchers["c19-bures-kparam-lt-dim"] = bures
    ctx.matchers["c19-state-vector-list-dim-plain-branch"] = sv_list


def run(ctx, model_ok=True):
    install_matchers(ctx)
    rep = Reporter(ctx)
    rng = ctx.rng
    quick = ctx.tier == "quick"
    run_kinds(ctx, rep, model_ok)
    check_seed_pairs(ctx, rep)
    for _ in range(150 if quick else 4000):
        check_history(ctx, rep, gen_history(rng), int(rng.integers(2 ** 31)), model_ok)
    # ensembles whose average state has a REPEATED eigenvalue in a basis that is not axis-aligned (orthonormal bases from rational unitaries with
    # equal priors on two or all members; the rotated trine): a normaliser built from non-orthogonal eigenvectors shows here
    drng = rng.spawn(1)[0]
    for d, probs in ((2, [0.5, 0.5]), (3, [0.375, 0.3125, 0.3125]), (3, [1 / 3] * 3), (4, [0.25] * 4), (4, [0.375, 0.125, 0.25, 0.25])):
        U = qgen.cayley_unitary(drng, d, True)
        vecs = [U[:, i].copy() for i in range(d)]
        rhos = [np.outer(v, np.conj(v)) for v in vecs]
        lam = float(np.linalg.eigvalsh(sum(p * r for p, r in zip(probs, rhos))).min())
        check_pgm(ctx, rep, (d, vecs, rhos, list(probs), "vec1d", True, lam), True, model_ok)
    cth, sth = 4 / 5, 3 / 5        # the trine rotated by a Pythagorean angle, uniform prior: average state 1/2 exactly
    rot = np.array([[cth, -sth], [sth, cth]])
    tri = [rot @ np.array([np.cos(2 * np.pi * k / 3), np.sin(2 * np.pi * k / 3)]) for k in range(3)]
    check_pgm(ctx, rep, (2, tri, [np.outer(v, v) for v in tri], [1 / 3] * 3, "vec1d", False, 0.5), True, model_ok)
    for i in range(40 if quick else 800):
        inst = gen_ensemble(rng, True)
        if inst is not None:
            check_pgm(ctx, rep, inst, True, model_ok)
    # kets as ROW vectors (1, d) - a form to_density_matrix accepts - and lists mixing 1-D, column, row and density-matrix elements (own rng: the
    # streams above keep their inputs).  Corpus: the two-state and the qutrit ensemble with a row vector first
    erng = rng.spawn(1)[0]
    v2 = [np.array([[0.6, 0.8]]), np.array([[0.8, -0.6j]])]
    check_pgm(ctx, rep, (2, v2, [np.outer(v.reshape(-1), v.reshape(-1).conj()) for v in v2], [0.25, 0.75], "row", True, 0.25), True, model_ok)
    v3 = [np.array([[1.0, 0.0, 0.0]]), np.array([0.0, 0.6, 0.8]), np.array([[0.0], [0.8], [-0.6]]), np.array([[0.6, 0.0, 0.8]])]
    check_pgm(ctx, rep, (3, v3, [np.outer(v.reshape(-1), v.reshape(-1).conj()) for v in v3], [0.25] * 4, "mixed_row_first", False, 0.25), True, model_ok)
    for i in range(12 if quick else 300):
        inst = gen_ensemble(erng, True, ("row", "row", "mixed", "mixed_row_first"))
        if inst is not None:
            check_pgm(ctx, rep, inst, i % 3 == 0, model_ok)
    run_strict_fp(ctx, rep, quick)
    for i in range(4 if quick else 30):
        inst = gen_ensemble(rng, False)
        if inst is not None:
            observe_non_spanning(ctx, inst)
    # hardening pass, corpus: an unlikely outcome (probability 4e-4 / 3e-7 / 3e-11 in a rotated basis) and a `tol` argument above it - the
    # probabilities are still the Born values and sum to one; tol spelled as float, np.float64, np.float32, by keyword and by position
    th = 0.3
    u2 = np.array([[np.cos(th), -np.sin(th) * np.exp(-0.4j)], [np.sin(th) * np.exp(0.4j), np.cos(th)]])
    k2 = [u2 @ np.diag([1.0, 0.0]) @ u2.conj().T, u2 @ np.diag([0.0, 1.0]) @ u2.conj().T]
    for eps, tols in ((4e-4, (1e-3, 1e-2, 1e-6, None)), (3e-7, (1e-3, 1e-6, None)), (3e-11, (None, 1e-8, 1e-3))):
        r2 = u2 @ np.diag([1 - eps, eps]).astype(complex) @ u2.conj().T
        r2 = (r2 + r2.conj().T) / 2
        for j, t in enumerate(tols):
            for upd in (False, True):
                fm = [None, {"tol": "float64"}, {"tol": "float64", "pos": True, "upd": "bool_"}, {"tol": "float32", "pos": True}][(j + upd) % 4] if t is not None else ({"upd": "bool_"} if upd else None)
                check_measure(ctx, rep, (2, r2, k2, "low_prob/projective", True), "list" if upd else "tuple", upd, t, model_ok, fm)
                check_measure(ctx, rep, (2, r2, k2[1], "low_prob/single", None), "list", upd, t, model_ok, fm)
    # every outcome below tol: the maximally mixed state of two qubits in the computational basis, tol = 0.3
    e4 = [np.diag(np.eye(4)[i]).astype(complex) for i in range(4)]
    for upd in (False, True):
        check_measure(ctx, rep, (4, np.eye(4, dtype=complex) / 4, e4, "low_prob/projective", True), "list", upd, 0.3, model_ok, {"tol": "float64"})
    for i in range(100 if quick else 3000):
        case, t, nt = gen_low_prob_case(rng)
        check_measure(ctx, rep, case, str(rng.choice(["list", "tuple"])), bool(rng.integers(2)), t, model_ok, "auto", nt)
    for i in range(300 if quick else 8000):
        case = gen_measure_case(rng)
        check_measure(ctx, rep, case, str(rng.choice(["list", "tuple"])), bool(rng.integers(2)), None if rng.integers(3) else 1e-8, model_ok, "auto")
    # a state of a narrower dtype than the operators / the result: integer-valued |0><0| measured in the X basis, a real state
    # measured in the Y basis (complex Kraus operators), a real diagonal state under complex unitary-rotated projectors
    sq = 1 / np.sqrt(2)
    xb = [np.array([[.5, .5], [.5, .5]]), np.array([[.5, -.5], [-.5, .5]])]
    yb = [np.outer(v, v.conj()) for v in (np.array([sq, 1j * sq]), np.array([sq, -1j * sq]))]
    for rho0 in (np.array([[1, 0], [0, 0]]), np.array([[0.75, 0.25], [0.25, 0.25]])):
        for ops0 in (xb, yb):
            for upd in (True, False):
                check_measure(ctx, rep, (2, rho0.astype(complex), [o.astype(complex) for o in ops0], "projective-mixed-dtype", True), "list", upd, None, model_ok)
    for i in range(150 if quick else 4000):
        check_is_povm(ctx, rep, rng)
    ctx.extra["tolerances"] = {"model_vs_code": TOL_MODEL, "relation_residual": TOL_REL, "generators": TOL_GEN, "trace": TOL_TRACE, "psd": TOL_PSD, "rank_eps": RANK_EPS, "pgm_pbm": TOL_PGM, "measure": TOL_MEAS, "pgm_bound_slack": 1e-4}


def _c(z):
    a = np.asarray(z, dtype=float)
    return a[..., 0] + 1j * a[..., 1]


def replay(ctx, rec):
    install_matchers(ctx)
    rep = Reporter(ctx)
    a = rec.get("args", {})
    k = a.get("kind")
    if k == "unitary":
        check_unitary(ctx, rep, a["dim"], a["is_real"], a["seed"], True, a.get("form"))
    elif k == "density":
        check_density(ctx, rep, a["dim"], a["is_real"], a["k_param"], a["distance_metric"], a["seed"], True, a.get("form"))
    elif k == "psd":
        check_psd(ctx, rep, a["dim"], a["is_real"], a["seed"], True, a.get("form"))
    elif k == "basis":
        check_basis(ctx, rep, a["dim"], a["is_real"], a["seed"], True, a.get("form"))
    elif k == "state_vector":
        check_state_vector(ctx, rep, a["dim"], a["is_real"], a["k_param"], a["seed"], True, a.get("form"))
    elif k == "states":
        check_states(ctx, rep, a["n"], a["d"], a["seed"], True, a.get("form"))
    elif k == "povm":
        check_povm(ctx, rep, a["dim"], a["num_inputs"], a["num_outputs"], a["seed"], True, a.get("form"))
    elif k == "circulant":
        check_circulant(ctx, rep, a["dim"], a["seed"], True, a.get("form"))
    elif k == "ginibre":
        check_ginibre(ctx, rep, a["n"], a["m"], a["seed"], True, a.get("form"))
    elif k == "history":
        check_history(ctx, rep, [list(o) for o in a["ops"]], a["state0_seed"], True)
    elif k == "pgm":
        cplx = a["complex"]
        if cplx:
            flat = [_c(s) for s in a["states"]]
            d = a["dim"]
            states = [f.reshape(d, d) if a["form"].startswith("dm") else (f.reshape(-1, 1) if a["form"] == "col" else f) for f in flat]
            if "shapes" in a:
                states = [f.reshape(sh) for f, sh in zip(flat, a["shapes"])]
        else:
            states = [np.array(s, dtype=float) for s in a["states"]]
        rhos = [s if s.ndim == 2 and s.shape[0] == s.shape[1] and s.shape[0] > 1 else np.outer(s.reshape(-1), s.reshape(-1).conj()) for s in states]
        check_pgm(ctx, rep, (a["dim"], states, rhos, a["probs"], a["form"], cplx, a["lambda_min"]))
    elif k == "measure":
        rho = _c(a["rho"])
        ops = [_c(o) for o in a["ops"]]
        single = a["container"] == "ndarray"
        complete = {"incomplete": False}.get(a["subkind"], None if single else True)
        check_measure(ctx, rep, (a["dim"], rho, ops[0] if single else ops, a["subkind"], complete), a["container"], a["state_update"], a["tol"], True, a.get("form"))
    elif k == "is_povm":
        mats = [_c(m) for m in a["mats"]]
        st, got = _call(is_povm, mats)
        if st != "ok" or bool(got) != rec.get("expected"):
            ctx.violation("is_povm verdict (replay)", {"function": "is_povm", "args": a, "impl": got, "expected": rec.get("expected")})
    elif k == "strict_fp":
        for fname, pos, kw, desc in strict_fp_cases(np.random.default_rng(a.get("stream_seed", 0)), a.get("count", 0)):
            if desc == {k_: v_ for k_, v_ in a.items() if k_ not in ("stream_seed", "count")}:
                check_strict_fp(ctx, rep, fname, pos, kw, desc, a.get("stream_seed", 0), a.get("count", 0))
    elif k == "seed_pair":
        check_seed_pairs(ctx, rep)
    elif k == "np_dim":
        observe_np_dim(ctx, rep)
    else:
        ctx.note(f"replay: unknown case kind {k!r}")
