"""C15: PPT and separability verdicts (is_ppt, is_npt, is_separable, in_separable_ball, has_symmetric_extension).

Every float matrix handed to toqito has an exact dyadic image X (cert.DM.exact_float).  The compiled Lean model
(lean/Toq/Model/Sep.lean, theorems in lean/Toq/Properties/C15.lean) is asked on every run
  * for a certified interval [lo, hi] of the smallest eigenvalue of the exact partial transpose `pt sys X`
    (certificates = float eigh/Cholesky output rounded to dyadics, untrusted; accepted by checkLamMinLower/Upper;
    meaning: checkLamMinLower_sound, checkLamMinUpper_sound, pptVerdict_sound, negative_rayleigh_not_separable),
  * for the exact mixture sum_k w_k (a_k a_k^H) (x) (b_k b_k^H) of the rational data a separable instance is built from
    (sepMix_separable: it IS a mixture of product states), compared entrywise with the float matrix,
  * for the exact local conjugation / exchange of parties of X (sep_local_unitary_closed, sep_swap_closed), compared with the
    float matrices that are fed to toqito (exchange: toqito.perms.swap, exact equality),
  * for the exact Gurvits-Barnum decision (ball_exact, inSepBallMirror_eq),
  * for the exact realignment R(X), the exact marginals tr_B X, tr_A X and the exact partial application of a map given by its Choi matrix
    (realign_exec_eq_spec, ptrace_exec_eq_spec, partial_channel_exec_eq_spec), compared with toqito's realignment / partial_trace / partial_channel; on these
    the quantities of the NECESSARY criteria of the cascade are evaluated for every separable-by-construction instance, confirming numerically what
    the Lean theorems state for all dimensions (realignment_criterion_svd, zhang_criterion_svd, positive_map_criterion, reduction_criterion,
    breuer_hall_criterion): a separable input decided at one of those branches contradicts a theorem, i.e. the CODE evaluates the criterion wrongly.
The deciding return statement of is_separable / has_symmetric_extension is observed with sys.monitoring (no source hooks) and compared, call by call, with the
Lean model of the decision logic (lean/Toq/Model/SepCascade.lean: sepCascade / isSeparableModel, hasSymExtModel, isPptOperand / isPptDecide): the quantities the
cascade evaluates (trace norms, purities, sorted spectrum, numerical ranks, block quantities of the 2xn tests, |F| of the rank-4 test, ball / Schmidt-rank /
qutrit-map outcomes) are obtained with the same NumPy / toqito calls on the same array and handed to the compiled model as exact rationals; the model answers with
the statement that returns, the verdict, and the two sides of every rational comparison made on the way (agreement is demanded when none of them is closer to
equality than 1e-13 relative).  The exchange of the parties that puts the qubit first, the slices A, B, C and the block matrix of the homothetic-image test are
compared with the exact Lean blk / qubitFirst / homothetic on every 2xn call."""
from __future__ import annotations

import hashlib
import inspect
import sys
import warnings
from fractions import Fraction

import numpy as np

from ..cert import DM, frac_json, py_psd_cert
from ..common import InfraError
from ..exact import Pure, call_rng, describe, present_nd, strict_fp_call
from ..pool import Result, fold, run_pool, worker_driver
from .. import qgen

RULE = ("states on dA (x) dB, dA,dB in 2..4 (unequal allowed), from the seeded generator: exact mixtures of 1..8 rational product states (real/complex integer "
        "amplitudes, integer weights; optionally mixed with the maximally mixed state, rescaled by a power of two), isotropic and Werner states at rational "
        "parameters on both sides of the PPT threshold, random rational mixed states of every rank, (1-eps)*separable + eps*entangled, and threshold states "
        "(1-t) I/D + t*sigma with lambda_min of the partial transpose placed at +-1e-2 .. +-1e-9 around -tol; x function x call form (sys 1/2; dim list / ndarray / "
        "[d] / float / int / omitted, each form also on unequal dimensions in every run; tol None/1e-10/1e-6/1e-3; level 1/2; ppt flag). The instance is the exact dyadic image of the float matrix. "
        "non-trivial: is_ppt/is_npt - certified interval clear of -tol by 1e-9 and the state is not maximally mixed; is_separable - the oracle applies "
        "(separable by construction with >= 1 term, or certified lambda_min <= -1e-6, or dA*dB <= 6 with a decided PPT verdict, or an invariance pair whose members "
        "did not both raise); in_separable_ball - relative margin >= 1e-9 from the boundary; has_symmetric_extension - separable by construction or NPT by margin. "
        "cascade streams (decision logic against the Lean model, every is_separable / has_symmetric_extension / is_ppt call of the streams above plus): separable 2xn / nx2 block "
        "mixtures aimed at the homothetic-image and Lemma-1 statements ((1-eps) diagonal product state + eps random complex product states), diagonal states on 2x4 / 4x2 whose "
        "spectrum satisfies Johnston's condition but none of its off-by-one index variants (and conversely), instances 5e-9 beyond the spectrum, rank-one-perturbation and Lemma-1 "
        "conditions (decided by tol**2, not tol), PPT entangled states decided by the Zhang test, by the rank-4 determinant test (two sizes of |F|) and by the Ha-Kye qutrit maps "
        "(locally filtered Horodecki / tiles states); non-trivial = no comparison of the cascade within 1e-13 (relative) of equality. Explicit symmetric extensions (levels 2, 3) of exact "
        "product mixtures are checked against the constraint expressions of the hierarchy. "
        "distinct = sha1 of (function, call form, matrix bytes). "
        "presentation: every call of is_ppt / is_npt / is_separable / in_separable_ball / has_symmetric_extension / partial_transpose / swap receives the same values in a "
        "freshly drawn presentation (C / Fortran / strided memory layout; real-valued matrices as float64, integer-valued ones also as int64); the array handed over "
        "must be untouched afterwards; is_ppt, in_separable_ball and (dA*dB <= 6, first dim form) is_separable are called a second time on the same object and must "
        "return the same verdict. "
        "strict-fp: is_ppt / is_npt (sys 1, 2), in_separable_ball (matrix, spectrum, zero matrix, rescaled), is_separable (dA*dB <= 6, pure states and pure product states on "
        "larger systems; only when the default call is decided before the symmetric-extension search) and has_symmetric_extension (level 1, PPT shortcut, two-qubit analytic "
        "formula; never the SDP statement) on pure product states, 1-2 term mixtures, the maximally mixed state, pure entangled states, |0><0| and isotropic / Werner states at "
        "the end points and the PPT threshold are evaluated a second time with NumPy's error state set to raise for invalid / divide / overflow (harness.exact.strict_fp_call) "
        "and must return the verdict of the default state (the functions of this property take one array argument: there is no two-role call).")
ASSUMPTIONS = [
    "the float matrix handed to toqito differs from the exact rational mixture it was built from by <= 4e-15 entrywise (checked on every instance against the Lean sepMix); "
    "'separable by construction' refers to that exact mixture",
    "verdicts are only demanded when the certified interval of lambda_min is clear of the threshold by 1e-9 (is_ppt / is_npt) resp. when lambda_min <= -1e-6 (is_separable must not accept)",
    "in_separable_ball: float evaluation of the norm is compared with the exact decision only at relative margin >= 1e-9",
    "local unitaries are the float images of rational Cayley unitaries; closure of the separable class holds for arbitrary local matrices (sep_local_unitary_closed), "
    "so the rotated exact instance is again a mixture of product states; is_separable normalises the trace itself",
    "has_symmetric_extension with ppt=False on two qubits (analytic formula) is exercised on mixtures with >= 2 terms only (pure product states sit exactly on the boundary of the formula)",
    "known finding c15-is-separable-late-stage is recognised by the traced deciding statement (final `return False` / TypeError in the Breuer-Hall block), only for inputs that are "
    "separable by construction AND for which none of the independently evaluated sufficient criteria (exact Gurvits-Barnum inequality, operator Schmidt rank <= 2, Johnston's 2xn spectrum "
    "condition; margins 1e-9 / 1e-13 / 1e-9) holds, or for invariance pairs in which one member is accepted by one of toqito's sound sufficient criteria and the other is decided by that late stage; "
    "a deciding statement governed by a condition that no labelling rule recognises is reported as 'unrecognised:...' and never folded into a named branch",
    "soundness of the sufficient criteria named above (Gurvits-Barnum, Cariello, Johnston, Vidal-Tarrach, Horodecki for dA*dB <= 6) is cited, not proved in Lean",
    "necessary criteria (the branches that answer False): PPT, realignment, Zhang et al., the positive-map criterion with the reduction and Breuer-Hall maps are Lean theorems for all "
    "local dimensions (peres, realignment_criterion[_svd], zhang_criterion[_svd], positive_map_criterion, reduction_criterion, breuer_hall_criterion); the trace norm is used in its dual form "
    "(sup over contractions) and as the sum of the singular values of ANY singular value decomposition; two facts stay cited: positivity of the Ha-Kye qutrit maps Phi[a,b,c] "
    "(Cho-Kye-Lee; a hypothesis of ha_maps_branch, probed numerically on random pure states in every run) and the Chen-Djokovic determinant criterion for rank-4 states on 3x3",
    "decision-logic streams: the quantities handed to the Lean cascade are produced by the same NumPy / toqito calls, on the same array object, that is_separable makes (identical inputs give "
    "identical floats; single-threaded BLAS); the model compares their exact rational values, the code compares in float, so agreement of the deciding statement is demanded only when every "
    "comparison made before the return has |lhs - rhs| > 1e-13 (|lhs| + |rhs|), and a mismatch must reproduce on a second identical call; |F| of the rank-4 test is obtained by executing the "
    "lines of is_separable that build it (the table of minors is toqito's; the model covers the decision abs(F) < max(tol**2, eps**(3/4)) only)",
    "the statements after the Ha-Kye maps (Breuer-Hall block, symmetric-extension search) are one outcome `late` of the model: the known finding c15-is-separable-late-stage; at the SDP statement of "
    "has_symmetric_extension the model is given the value 1 (the optimum of the single-state discrimination program the code evaluates: known finding c15-symext-sdp-constant-false)",
    "soundness of the sufficient criteria stays cited (Horodecki dA*dB <= 6, Johnston spectrum / Lemma 1, Hildebrand Hankel / homothetic images, Gurvits-Barnum, Vidal-Tarrach, Cariello, "
    "Chen-Djokovic rank 4, Chen et al. two-qubit symmetric extension); what is proved is that the code's arithmetic IS the cited condition (johnston_spectrum_indices, zhang_test_arithmetic, "
    "homothetic_image_spec, qubit_blocks_spec, lemma1_frobenius_dominates, ha_parameters_in_region, symext_analytic_arithmetic) and the decision logic around it",
    "criteria quantities are evaluated in float on rho/trace(rho) (the normalisation is_separable performs) from the exact Lean realignment / marginals; an inequality proved in Lean must hold "
    "with slack 1e-12 (else the harness itself is wrong: infrastructure error), and toqito's own evaluation of the same quantity must agree within 1e-12 (else violation)",
]
MARGIN = 1e-9
SQRT_EPS = float(np.sqrt(np.finfo(float).eps))

# ------------------------------------------------------------------------------------------------
# observation of the deciding statement (sys.monitoring, local to one code object)

_TOOL = None


def _tool_id():
    global _TOOL
    if _TOOL is None:
        for tid in (4, 3, 5, 2, 1):
            try:
                sys.monitoring.use_tool_id(tid, "verif-c15")
                _TOOL = tid
                break
            except ValueError:
                continue
        if _TOOL is None:
            raise InfraError("no free sys.monitoring tool id")
    return _TOOL


class Watch:
    """records, for each call of `func`, the last source line executed in its own frame and whether it returned"""

    _watched = {}

    def __init__(self, func):
        self.func = func
        self.code = func.__code__
        self.last = None
        self.returned = False
        src, start = inspect.getsourcelines(func)
        self.src, self.start = src, start
        tid = _tool_id()
        E = sys.monitoring.events
        Watch._watched[self.code] = self
        sys.monitoring.register_callback(tid, E.LINE, Watch._on_line)
        sys.monitoring.register_callback(tid, E.PY_RETURN, Watch._on_return)
        sys.monitoring.register_callback(tid, E.PY_START, Watch._on_start)
        sys.monitoring.set_local_events(tid, self.code, E.LINE | E.PY_RETURN | E.PY_START)

    @staticmethod
    def _on_line(code, line):
        w = Watch._watched.get(code)
        if w is not None:
            w.last = line

    @staticmethod
    def _on_return(code, off, val):
        w = Watch._watched.get(code)
        if w is not None:
            w.returned = True

    @staticmethod
    def _on_start(code, off):
        w = Watch._watched.get(code)
        if w is not None:
            w.last, w.returned = None, False

    def line_text(self, line):
        i = line - self.start
        return self.src[i] if 0 <= i < len(self.src) else ""

    def window(self, line):
        """source text from the governing `if`/`elif` (walking out through enclosing statements) to `line`"""
        i = line - self.start
        if not (0 <= i < len(self.src)):
            return ""
        ind = len(self.src[i]) - len(self.src[i].lstrip())
        j = i
        k = i
        while k > 0:
            k -= 1
            t = self.src[k]
            if not t.strip() or t.strip().startswith(("#", ")", "]", "}")):
                continue
            ik = len(t) - len(t.lstrip())
            if ik < ind:
                ind = ik
                j = k
                if t.lstrip().startswith(("if ", "elif ", "if(")):
                    return "".join(self.src[j : i + 1])
                if t.lstrip().startswith("def "):
                    break
        return self.src[i]


SEP_RULES = [
    ("non-positive semidefinite", "input-not-psd"),
    ("must evenly divide", "invalid-dim"),
    ("min_dim == 1", "dim1"),
    ("not is_ppt_state", "ppt-reject"),
    ("prod_dim <= 6", "ppt-sufficient"),
    ("realignment(state - np.kron", "zhang"),
    ("realignment(state, dim))", "realignment"),
    ("lam[0] - lam[2 * max_dim - 2]", "2xn-spectrum"),
    ("matrix_rank(B - B.conj().T)", "2xn-hankel"),
    ("X_2n_ppt_check) and", "2xn-homothetic"),
    ("np.linalg.norm(B) ** 2", "2xn-lemma1"),
    ("state_rank == 4", "rank4-3x3"),
    ("in_separable_ball(state)", "ball"),
    ("lam[1] - lam[prod_dim - 1]", "rank1-perturbation"),
    ("schmidt_rank(state, dim) <= 2", "op-schmidt-rank"),
    ("partial_channel(state, Phi, 2, dim)", "ha-maps-3x3"),
    ("np.remainder(dim[p], 2) == 0", "breuer-hall"),
    ("partial_channel(state, Phi, p + 1, dim)", "breuer-hall"),
    ("any(has_symmetric_extension", "symext-true"),
]
SYMEXT_RULES = [
    ("return is_ppt(rho, 2, dim)", "ppt-shortcut"),
    ("return is_positive_semidefinite(rho)", "level1-no-ppt"),
    ("must evenly divide", "invalid-dim"),
    ("if not ppt:", "level1-no-ppt"),
    ("level == 1 or len_mat <= 6", "ppt-shortcut"),
    ("dim_x == 2 and dim_y == 2", "analytic-2qubit"),
    ("symmetric_extension_hierarchy", "sdp"),
]


def label(w: Watch, rules, fallback):
    if w.last is None:
        return "not-entered"
    txt = w.line_text(w.last).strip()
    for key, name in rules:
        if key in txt:
            return name
    win = w.window(w.last)
    for key, name in rules:
        if key in win:
            return name
    if win.strip() != txt:  # governed by a condition that no rule recognises: never fold it into a named branch
        return "unrecognised:" + " ".join(win.split())[:70]
    return fallback(txt)


def sep_fallback(txt):
    if txt.startswith("return False"):
        return "symext-final-false"
    return "other:" + txt[:40]


def symext_fallback(txt):
    if "symmetric_extension_hierarchy" in txt or txt.startswith(("return not np.isclose", "atol=", "0,", ")")):
        return "sdp"
    return "other:" + txt[:40]


_W = {}


def watched(name):
    if name not in _W:
        if name == "is_separable":
            mod = __import__("toqito.state_props.is_separable", fromlist=["x"])
            f = sys.modules["toqito.state_props.is_separable"].is_separable
        else:
            __import__("toqito.state_props.has_symmetric_extension", fromlist=["x"])
            f = sys.modules["toqito.state_props.has_symmetric_extension"].has_symmetric_extension
        _W[name] = (f, Watch(f))
    return _W[name]


def observed_call(name, *a, **k):
    """-> (outcome, branch, exception text or None); outcome True / False / 'raise:<Type>'"""
    f, w = watched(name)
    rules, fb = (SEP_RULES, sep_fallback) if name == "is_separable" else (SYMEXT_RULES, symext_fallback)
    w.last, w.returned = None, False
    try:
        r = f(*a, **k)
        out, exc = bool(r), None
    except Exception as e:  # the verdict of the implementation on this input
        out, exc = f"raise:{type(e).__name__}", f"{type(e).__name__}: {str(e)[:160]}"
    return out, label(w, rules, fb), exc


# ------------------------------------------------------------------------------------------------
# exact helpers (Python side; every exact claim used as an oracle is re-derived by the Lean model)


def herm(a):
    a = np.asarray(a, dtype=complex)
    return (a + a.conj().T) / 2


def pt_float(rho, dA, dB, sys_):
    r = np.asarray(rho).reshape(dA, dB, dA, dB)
    r = r.transpose(0, 3, 2, 1) if sys_ == 2 else r.transpose(2, 1, 0, 3)
    return r.reshape(dA * dB, dA * dB)


def pt_dm(X: DM, dA, dB, sys_):
    ax = (0, 3, 2, 1) if sys_ == 2 else (2, 1, 0, 3)
    n = dA * dB
    return DM(X.re.reshape(dA, dB, dA, dB).transpose(*ax).reshape(n, n).copy(), X.im.reshape(dA, dB, dA, dB).transpose(*ax).reshape(n, n).copy(), X.e)


def rat_of(j):
    return None if j is None else Fraction(int(j[0]), int(j[1]))


def digest(a):
    return hashlib.sha1(np.ascontiguousarray(np.asarray(a, dtype=complex)).tobytes()).hexdigest()[:16]


def py_lammin(A: DM, c: Fraction, L: DM, v: DM):
    """Python replica of checkLamMinLower / checkLamMinUpper (used only when the Lean driver is unavailable)"""
    n = A.re.shape[0]
    cd = DM.eye(n).scale_dy(c.numerator, c.denominator.bit_length() - 1) if c.denominator & (c.denominator - 1) == 0 else None
    lo = None
    if cd is not None and py_psd_cert(A - cd, L):
        lo = c
    nv = (v.H() @ v)
    nrm = Fraction(int(nv.re[0, 0]), 1 << nv.e)
    hi = None
    if nrm > 0:
        q = v.H() @ (A @ v)
        hi = Fraction(int(q.re[0, 0]), 1 << q.e) / nrm
    return lo, hi


def certify_lammin(drv, X: DM, dA, dB, sys_, tol: Fraction):
    """certified interval of lambda_min(pt sys X) and the model's verdict; sys_ = 0: X itself.
    returns dict(lo, hi, verdict, width, how)"""
    n = dA * dB
    A = X if sys_ == 0 else pt_dm(X, dA, dB, sys_)
    Af = A.to_float()
    lam, V = np.linalg.eigh(herm(Af))
    v = DM.from_float(V[:, [0]], 44)
    best = {"lo": None, "hi": None, "verdict": None, "how": "none"}
    for delta in (1e-11, 1e-10, 1e-9, 1e-8):
        c = Fraction(float(lam[0] - delta))
        try:
            Lf = np.linalg.cholesky(herm(Af) - (float(c) + delta / 2) * np.eye(n))
        except np.linalg.LinAlgError:
            continue
        L = DM.from_float(Lf, 58)
        if drv is not None:
            ans = drv.ask("c15_lammin", {"dA": dA, "dB": dB, "sys": sys_, "X": X.json(), "tol": frac_json(tol), "c": frac_json(c), "k": n, "L": L.json(), "v": v.json()})
            if "reject" in ans:
                raise InfraError(f"c15_lammin rejected: {ans}")
            lo, hi, verdict = rat_of(ans["lo"]), rat_of(ans["hi"]), ans["verdict"]
        else:
            lo, hi = py_lammin(A, c, L, v)
            verdict = True if (lo is not None and lo >= -tol) else (False if (hi is not None and hi < -tol) else None)
        if best["hi"] is None and hi is not None:
            best["hi"] = hi
        if lo is not None:
            best.update(lo=lo, hi=hi, verdict=verdict, how=f"delta={delta:g}")
            break
        best.update(verdict=verdict if verdict is False else best["verdict"])
    if best["lo"] is not None and best["hi"] is not None:
        best["width"] = float(best["hi"] - best["lo"])
    else:
        best["width"] = None
    return best


# ------------------------------------------------------------------------------------------------
# instance generation (parent process; every random choice from ctx.rng)

DIMS_ALL = [(2, 2), (2, 3), (3, 2), (2, 4), (4, 2), (3, 3), (3, 4), (4, 3), (4, 4)]


def _ivec(rng, d, cplx, lim=4):
    return qgen.int_vector(rng, d, cplx, lim)


def gen_sepmix(rng, dA, dB, k, cplx, mix_id=None, scale=1.0):
    """exact mixture of k product states; mix_id = (num, den): weight num/den on the maximally mixed state.
    returns instance with rational term data"""
    w = [int(x) for x in rng.integers(1, 6, size=k)]
    a = [_ivec(rng, dA, cplx) for _ in range(k)]
    b = [_ivec(rng, dB, cplx) for _ in range(k)]
    W = sum(w)
    terms = []  # (Fraction weight, a int vector, b int vector)
    lam = Fraction(0) if mix_id is None else Fraction(*mix_id)
    for wi, ai, bi in zip(w, a, b):
        na = int(round(float(np.vdot(ai, ai).real)))
        nb = int(round(float(np.vdot(bi, bi).real)))
        terms.append(((1 - lam) * Fraction(wi, W) / (na * nb), ai, bi))
    if mix_id is not None:
        D = dA * dB
        for i in range(dA):
            for j in range(dB):
                ea = np.zeros(dA, dtype=complex)
                ea[i] = 1
                eb = np.zeros(dB, dtype=complex)
                eb[j] = 1
                terms.append((lam / D, ea, eb))
    sc = Fraction(scale)
    terms = [(t[0] * sc, t[1], t[2]) for t in terms]
    rho = sum(float(t[0]) * np.kron(np.outer(t[1], t[1].conj()), np.outer(t[2], t[2].conj())) for t in terms)
    rho = herm(rho)
    if not cplx:
        rho = rho.real.astype(float)
    return {"family": "sepmix", "dA": dA, "dB": dB, "rho": rho, "sep": True, "terms": terms, "k": k, "cplx": cplx,
            "mix_id": mix_id, "scale": scale}


def gen_entangled_pure(rng, dA, dB, cplx):
    while True:
        psi = qgen.int_vector(rng, dA * dB, cplx, 3)
        if np.linalg.matrix_rank(psi.reshape(dA, dB)) >= 2:
            psi = qgen.unit(psi)
            return np.outer(psi, psi.conj())


def gen_isotropic(dA, p: Fraction):
    d = dA
    phi = np.zeros(d * d)
    for i in range(d):
        phi[i * d + i] = 1
    P = np.outer(phi, phi) / d
    return herm((1 - float(p)) * np.eye(d * d) / (d * d) + float(p) * P)


def gen_werner(d, q: Fraction):
    """q * P_asym / tr + (1 - q) * P_sym / tr ; NPT iff q > 1/2"""
    S = np.zeros((d * d, d * d))
    for i in range(d):
        for j in range(d):
            S[i * d + j, j * d + i] = 1
    Ps, Pa = (np.eye(d * d) + S) / 2, (np.eye(d * d) - S) / 2
    return herm(float(q) * Pa / (d * (d - 1) / 2) + (1 - float(q)) * Ps / (d * (d + 1) / 2))


def lam_min_pt(rho, dA, dB):
    return float(np.linalg.eigvalsh(herm(pt_float(rho, dA, dB, 2)))[0])


def gen_threshold(rng, dA, dB, cplx, target):
    """(1-t) I/D + t sigma with lambda_min(PT) = target (float accuracy); sigma pure entangled"""
    D = dA * dB
    sig = gen_entangled_pure(rng, dA, dB, cplx)
    mu = -lam_min_pt(sig, dA, dB)
    t = (1.0 / D - target) / (1.0 / D + mu)
    rho = herm((1 - t) * np.eye(D) / D + t * sig)
    if not cplx:
        rho = rho.real.astype(float)
    return rho


def gen_state(rng, fam, dA, dB):
    """non-sepmix families -> instance dict (sep = None: separability unknown/irrelevant)"""
    cplx = bool(rng.integers(2))
    D = dA * dB
    meta = {}
    if fam == "isotropic":
        d = dA
        thr = Fraction(1, d + 1)
        p = thr + Fraction(int(rng.choice([-1, 1])) * int(rng.integers(1, 40)), 100 * (d + 1))
        p = min(max(p, Fraction(0)), Fraction(1))
        rho, meta = gen_isotropic(d, p), {"p": str(p)}
        cplx = False
    elif fam == "werner":
        d = dA
        q = Fraction(1, 2) + Fraction(int(rng.choice([-1, 1])) * int(rng.integers(1, 45)), 100)
        rho, meta = gen_werner(d, q), {"q": str(q)}
        cplx = False
    elif fam == "random":
        rank = int(rng.integers(1, D + 1))
        rho = qgen.rand_density(rng, D, rank, cplx)
        meta = {"rank": rank}
    elif fam == "random_mixed":
        rank = int(rng.integers(2, D + 1))
        lam = float(rng.choice([0.5, 0.75, 0.875, 0.9375]))
        rho = herm((1 - lam) * qgen.rand_density(rng, D, rank, cplx) + lam * np.eye(D) / D)
        meta = {"rank": rank, "lam": lam}
    elif fam == "ppt_plus_ent":
        eps_ = float(rng.choice([0.5, 0.25, 0.125, 0.03125, 0.0078125]))
        base = gen_sepmix(rng, dA, dB, int(rng.integers(2, 7)), cplx, mix_id=(1, 4) if rng.integers(2) else None)["rho"]
        rho = herm((1 - eps_) * base + eps_ * gen_entangled_pure(rng, dA, dB, cplx))
        meta = {"eps": eps_}
    elif fam == "threshold":
        target = float(rng.choice([-1e-2, -1e-4, -1e-6 * 3, -3e-8, -1.25e-8, -5e-9, 2e-9, 1e-7, 1e-5, -2e-3, -5e-4, -2e-7, -5e-11]))
        rho = gen_threshold(rng, dA, dB, cplx, target)
        meta = {"target": target}
    else:
        raise InfraError("unknown family " + fam)
    rho = herm(rho)
    if np.max(np.abs(rho.imag)) == 0:
        rho = rho.real.astype(float)
    return {"family": fam, "dA": dA, "dB": dB, "rho": rho, "sep": None, "terms": None, "cplx": cplx, "meta": meta}


def gen_2xn_block(rng, n, qubit_first, kind, eps=Fraction(1, 64), k=4):
    """separable by construction, aimed at the later 2xn statements: (1-eps) * (diagonal product state |i><i| (x) |j><j| with weights wq[i]*wn[j]) + eps * (k random
    complex product states).  kind 'lemma1': wq = (1, 6), flat wn (5/6 A - C/6 is not PSD, ||B||_F^2 <= lmin(A) lmin(C));  kind 'homothetic': wq = (1, 1),
    wn = (6, 2, 1, ..., 1) (spectrum condition fails, the homothetic image is PSD and PPT); 'homothetic-tight': wq = (1, 4) (5/6 A - C/6 = A/6: PSD only with the
    coefficients 5/6 and 1/6 of the code).  B - B^H has rank >= 2 for complex terms (k >= 2)."""
    wq, wn = {"lemma1": ((1, 6), [1] * n), "homothetic": ((1, 1), [6, 2] + [1] * (n - 2)), "homothetic-tight": ((1, 4), [6, 2] + [1] * (n - 2))}[kind]
    terms = []
    for i in range(2):
        for j in range(n):
            eq = np.zeros(2, dtype=complex)
            eq[i] = 1
            en = np.zeros(n, dtype=complex)
            en[j] = 1
            terms.append(((1 - eps) * Fraction(wq[i], sum(wq)) * Fraction(wn[j], sum(wn)), eq, en))
    for _ in range(k):
        a = qgen.int_vector(rng, 2, True, 3)
        b = qgen.int_vector(rng, n, True, 3)
        na = int(round(float(np.vdot(a, a).real)))
        nb = int(round(float(np.vdot(b, b).real)))
        terms.append((eps / k / (na * nb), a, b))
    if not qubit_first:
        terms = [(w, b, a) for (w, a, b) in terms]
    rho = herm(sum(float(t[0]) * np.kron(np.outer(t[1], t[1].conj()), np.outer(t[2], t[2].conj())) for t in terms))
    dA, dB = (2, n) if qubit_first else (n, 2)
    return {"family": "sepmix", "dA": dA, "dB": dB, "rho": rho, "sep": True, "terms": terms, "k": len(terms), "cplx": True, "mix_id": None, "scale": 1.0,
            "meta": {"aim": "2xn-" + kind}}


def corpus_cascade():
    """PPT entangled states (cited; no separability oracle is attached) that are decided by the Zhang test, by the rank-4 determinant test and by the qutrit maps
    of Ha and Kye: the statements of the cascade that the other families do not reach.  Only the decision logic is compared with the Lean model."""
    from toqito.states import horodecki, tile
    out = []
    H = np.real(horodecki(0.236, [3, 3]))
    out.append(("zhang", herm(0.9945 * H + 0.0055 * np.eye(9) / 9)))
    T = np.identity(9)
    for i in range(5):
        T = T - tile(i) @ tile(i).conj().T
    # local filters of the tiles state (PPT entangled, rank 4): |F| = 1.3e-8 and 7.8e-11, both above the floor eps**(3/4) = 1.8e-12 of the determinant test
    for nm, fa, fb in (("rank4-filtered-tiles", [1.0, 3.0, 9.0], [1.0, 2.0, 4.0]), ("rank4-filtered-tiles-small-F", [1.0, 4.0, 16.0], [1.0, 3.0, 9.0])):
        K = np.kron(np.diag(fa), np.diag(fb))
        F = K @ (T / 4) @ K.T
        out.append((nm, herm(F / np.trace(F))))
    psi = np.zeros(9)
    psi[[0, 4, 8]] = 1 / np.sqrt(3)
    P = np.outer(psi, psi)

    def e(i, j):
        v = np.zeros(9)
        v[3 * i + j] = 1
        return np.outer(v, v)
    sp = (e(0, 1) + e(1, 2) + e(2, 0)) / 3
    sm = (e(1, 0) + e(2, 1) + e(0, 2)) / 3
    for al, flt in ((3.5, [1.0, 3.0, 3.0]), (4.0, [1.0, 4.0, 8.0])):
        r = 2 / 7 * P + al / 7 * sp + (5 - al) / 7 * sm
        K = np.kron(np.diag(flt), np.eye(3))
        r2 = K @ r @ K.T
        out.append((f"ha-filtered-alpha{al}", herm(r2 / np.trace(r2))))
    return [{"family": "cascade-corpus", "dA": 3, "dB": 3, "rho": np.real(m).astype(float), "sep": None, "terms": None, "cplx": False, "meta": {"name": nm}} for nm, m in out]


def _diag_inst(dA, dB, weights, aim):
    """classical state sum_ij w_ij |i><i| (x) |j><j| (separable by construction), weights = exact rationals in flat order i*dB + j"""
    terms = []
    for idx, w in enumerate(weights):
        ea = np.zeros(dA, dtype=complex)
        ea[idx // dB] = 1
        eb = np.zeros(dB, dtype=complex)
        eb[idx % dB] = 1
        terms.append((Fraction(w), ea, eb))
    rho = np.diag([float(t[0]) for t in terms])
    return {"family": "sepmix", "dA": dA, "dB": dB, "rho": rho, "sep": True, "terms": terms, "k": len(terms), "cplx": False, "mix_id": None, "scale": 1.0,
            "meta": {"aim": aim}}


def corpus_thresholds():
    """instances placed so that the index choices and the tolerance terms of the later statements matter:
    * spectra on 2x4 / 4x2 that satisfy Johnston's condition (l1 - l7)^2 <= 4 l6 l8 but none of its off-by-one variants, and one that violates it but satisfies
      the variant with l7 in place of l8;
    * a spectrum 5e-9 outside Johnston's condition (decided with tol**2, not tol), a 3x4 state whose second largest and smallest eigenvalue differ by 5e-9
      (rank-one-perturbation statement: tol**2), a 2x4 block state with ||B||_F^2 = lmin(A) lmin(C) + 5e-9 (Lemma-1 statement: tol**2)."""
    F = Fraction
    out = []
    spec_in = [F(1, 5), F(7, 50), F(7, 50), F(7, 50), F(7, 50), F(3, 25), F(2, 25), F(1, 25)]          # J holds; (l1-l8)^2 and 4 l7 l8 variants fail
    spec_out = [F(1, 4), F(51, 400), F(51, 400), F(51, 400), F(51, 400), F(3, 25), F(2, 25), F(1, 25)]  # J fails; 4 l6 l7 variant holds
    spec_tol = [F(3, 10) + F(125, 10**10)] + [F(1, 10)] * 7                                            # 5e-9 outside J
    perm = [5, 0, 7, 2, 4, 1, 6, 3]   # the eigenvalues are not stored in sorted order
    for nm, lam in (("spectrum-indices-in", spec_in), ("spectrum-indices-out", spec_out), ("spectrum-tol", spec_tol)):
        for dA, dB in ((2, 4), (4, 2)):
            out.append(_diag_inst(dA, dB, [lam[i] for i in perm], nm))
    w = [F(1, 24)] * 12
    w[0] = F(1, 2) + F(1, 24)
    w[5] = F(1, 24) + F(5, 10**9)
    out.append(_diag_inst(3, 4, w, "rank1-tol"))
    # Lemma 1 by 5e-9: [[a 1, B], [B^H, c 1]] on 2x4 (and with the parties exchanged), a = 1/40, c = 9/40, B = beta * G with rank(G - G^H) >= 2
    G = np.array([[0, 1, 0, 0], [0, 0, 1j, 0], [0, 0, 0, 0], [0, 0, 0, 0]], dtype=complex)
    a, c = 1 / 40, 9 / 40
    beta = np.sqrt((a * c + 5e-9) / 2)
    X = np.block([[a * np.eye(4), beta * G], [beta * G.conj().T, c * np.eye(4)]])
    for dA, dB in ((2, 4), (4, 2)):
        M = X if dA == 2 else X.reshape(2, 4, 2, 4).transpose(1, 0, 3, 2).reshape(8, 8)
        out.append({"family": "cascade-corpus", "dA": dA, "dB": dB, "rho": herm(M), "sep": None, "terms": None, "cplx": True, "meta": {"name": "lemma1-tol"}})
    return out


def pick_dims(rng, square=False, pool=None):
    pool = pool or DIMS_ALL
    if square:
        pool = [d for d in pool if d[0] == d[1]]
    return pool[int(rng.integers(len(pool)))]


# ------------------------------------------------------------------------------------------------
# workers


def _drv(task):
    return worker_driver() if task.get("model_ok", True) else None


def _give(task, mat, *key):
    """(array, guard): the same values in a presentation drawn for this call (a function of the task's presentation seed and the call's identity)"""
    a = present_nd(call_rng(task.get("pres"), *key), np.array(mat, copy=True))
    return a, Pure(a)


def _purity(res, fn, guard, a, args):
    why = guard.modified()
    if why is not None:
        res.violation(f"{fn}: caller's arguments were modified ({why})", {"function": fn, "args": args, "modified": why, "presentation": describe(a), "check": "purity"})
    return why


def _X(inst):
    X = DM.exact_float(np.asarray(inst["rho"], dtype=complex))
    if not X.is_herm():
        raise InfraError("generated matrix is not exactly Hermitian")
    return X


def check_sepmix_exact(drv, inst, res, rho=None):
    """the float matrix is (the rounding of) the exact mixture the Lean model builds from the rational data"""
    if drv is None or inst.get("terms") is None:
        return
    terms = inst["terms"]
    dA, dB = inst["dA"], inst["dB"]
    ans = drv.ask("c15_sepmix", {"dA": dA, "dB": dB, "w": [frac_json(t[0]) for t in terms],
                                 "a": [DM.from_int(np.asarray(t[1]).reshape(-1, 1)).json() for t in terms],
                                 "b": [DM.from_int(np.asarray(t[2]).reshape(-1, 1)).json() for t in terms]})
    if "reject" in ans:
        raise InfraError(f"c15_sepmix rejected a generated mixture: {ans}")
    n = dA * dB
    re = np.array([int(x[0]) / int(x[1]) for x in ans["re"]]).reshape(n, n)
    im = np.array([int(x[0]) / int(x[1]) for x in ans["im"]]).reshape(n, n)
    err = float(np.max(np.abs((re + 1j * im) - np.asarray(inst["rho"] if rho is None else rho))))
    res.count("sepmix-exact-checked")
    if err > 4e-15 * max(1.0, inst.get("scale", 1.0)):
        raise InfraError(f"float mixture differs from the exact Lean mixture by {err}")


def dim_arg(form, dA, dB):
    return {"list": [dA, dB], "ndarray": np.array([dA, dB]), "none": None, "float": float(dA), "int": int(dA), "list1": [dA]}[form]


def ppt_dim_json(form, dA, dB):
    return {"list": [dA, dB], "ndarray": [dA, dB], "none": None, "float": int(dA), "int": int(dA), "list1": [dA]}[form]


def ppt_operand_check(drv, dA, dB, sys_, form):
    """the operand of is_ppt for this form of `dim` according to the Lean model (isPptOperand on the array labelled i*N + j) is the partial
    transpose of party sys_ for the dimensions [dA, dB] (is_ppt_operand_forms)"""
    N = dA * dB
    ans = drv.ask("c15_ppt_operand", {"N": N, "sys": int(sys_), "dim": ppt_dim_json(form, dA, dB)})
    if "reject" in ans:
        raise InfraError(f"c15_ppt_operand rejects the accepted form {form} on {dA}x{dB}: {ans}")
    lab = np.arange(N * N).reshape(N, N)
    mine = pt_float(lab, dA, dB, sys_)
    if ans["rows"] != N or ans["cols"] != N or [int(x) for x in ans["src"]] != [int(x) for x in mine.reshape(-1)]:
        raise InfraError(f"the Lean operand of is_ppt (form {form}, sys {sys_}, {dA}x{dB}) is not the partial transpose the certificates are computed for")
    return True


def work_ppt(task, res: Result):
    """is_ppt / is_npt against the certified interval of the exact partial transpose"""
    from toqito.state_props import is_npt, is_ppt
    warnings.filterwarnings("ignore")
    inst, calls = task["inst"], task["calls"]
    drv = _drv(task)
    dA, dB, rho = inst["dA"], inst["dB"], inst["rho"]
    X = _X(inst)
    if inst.get("sep"):
        check_sepmix_exact(drv, inst, res)
    cache = {}
    for sys_, form, tol in calls:
        tolq = Fraction(SQRT_EPS) if tol is None else Fraction(float(tol))
        key = (sys_, tolq)
        if key not in cache:
            cache[key] = certify_lammin(drv, X, dA, dB, sys_, tolq)
        cert = cache[key]
        lo, hi = cert["lo"], cert["hi"]
        expected = None
        if lo is not None and float(lo) >= -float(tolq) + MARGIN:
            expected = True
        elif hi is not None and float(hi) <= -float(tolq) - MARGIN:
            expected = False
        if drv is not None:
            # the argument forms and the decision of is_ppt / is_npt according to the Lean model (isPptOperand, isPptDecide, isNptDecide)
            okey = (sys_, form)
            if okey not in cache:
                cache[okey] = ppt_operand_check(drv, dA, dB, sys_, form)
                res.count("ppt-operand-model-checked")
            tolj = None if tol is None else frac_json(Fraction(float(tol)))
            m_exp = None
            if lo is not None:
                a1 = drv.ask("c15_ppt_decide", {"herm": True, "lam": frac_json(lo - Fraction(MARGIN)), "tol": tolj})
                if a1["is_ppt"] is True:
                    m_exp = True
                if a1["is_npt"] != (not a1["is_ppt"]) or rat_of(a1["tol"]) != tolq:
                    raise InfraError(f"c15_ppt_decide inconsistent: {a1}, harness tolerance {tolq}")
            if m_exp is None and hi is not None:
                a2 = drv.ask("c15_ppt_decide", {"herm": True, "lam": frac_json(hi + Fraction(MARGIN)), "tol": tolj})
                if a2["is_ppt"] is False:
                    m_exp = False
            if m_exp != expected:
                raise InfraError(f"the Lean decision of is_ppt ({m_exp}) differs from the harness threshold logic ({expected}) at lo={lo}, hi={hi}, tol={tol}")
            res.count("ppt-decision-model-checked")
        at8 = None  # what a hard-wired threshold -1e-8 would answer
        if lo is not None and float(lo) >= -1e-8 + 1e-10:
            at8 = True
        elif hi is not None and float(hi) <= -1e-8 - 1e-10:
            at8 = False
        args = {"sys": sys_, "dim_form": form, "tol": tol, "dA": dA, "dB": dB, "family": inst["family"], "meta": inst.get("meta"), "rho": rho, "pres": task.get("pres")}
        out = {}
        pres_txt = {}
        for name, fn in (("is_ppt", is_ppt), ("is_npt", is_npt)):
            arr, guard = _give(task, rho, name, sys_, form, tol)
            pres_txt[name] = describe(arr)
            try:
                out[name] = bool(fn(arr, sys_, dim_arg(form, dA, dB), tol))
                if _purity(res, name, guard, arr, args) is None and name == "is_ppt":
                    again = bool(fn(arr, sys_, dim_arg(form, dA, dB), tol))   # the SAME object again
                    res.count("repeat-call/is_ppt")
                    if again != out[name] or guard.modified() is not None:
                        res.violation(f"is_ppt: a second call on the same object returns {again}, the first returned {out[name]}",
                                      {"function": "is_ppt", "args": args, "impl": [out[name], again], "presentation": describe(arr), "check": "repeat"})
            except Exception as e:
                out[name] = f"raise:{type(e).__name__}"
                out[name + "_exc"] = f"{type(e).__name__}: {str(e)[:160]}"
        desc = {"fn": "is_ppt", "sys": sys_, "dim_form": form, "tol": tol, "dA": dA, "dB": dB, "family": inst["family"], "rho": digest(rho)}
        decided = expected is not None
        trivial = inst["family"] == "maxmixed"
        res.case(desc, decided and not trivial, f"is_ppt/{inst['family']}/" + ("ppt" if expected else "npt" if expected is False else "near-threshold"))
        base = {"args": args, "certified": {"lo": None if lo is None else float(lo), "hi": None if hi is None else float(hi), "how": cert["how"]},
                "tol_arg": tol, "dim_form": form, "verdict_at_1e-8": at8, "model": expected, "model_verdict": cert["verdict"], "presentation": pres_txt}
        if isinstance(out["is_ppt"], str):
            res.violation(f"is_ppt raised on a valid input ({form} dim, {dA}x{dB}): {out.get('is_ppt_exc')}",
                          {"function": "is_ppt", **base, "impl": out["is_ppt"], "exception": out.get("is_ppt_exc"), "theorem": "pptVerdict_sound"})
        elif decided and out["is_ppt"] != expected:
            res.violation(f"is_ppt = {out['is_ppt']} but certified lambda_min(PT) in [{float(lo) if lo is not None else None}, {float(hi) if hi is not None else None}], tol = {float(tolq):.3g}",
                          {"function": "is_ppt", **base, "impl": out["is_ppt"], "exception": None, "theorem": "pptVerdict_sound"})
        if isinstance(out["is_npt"], str) or isinstance(out["is_ppt"], str):
            if isinstance(out["is_npt"], str) != isinstance(out["is_ppt"], str):
                res.violation("exactly one of is_ppt / is_npt raised", {"function": "is_npt", **base, "impl": [out["is_ppt"], out["is_npt"]], "exception": out.get("is_npt_exc"), "theorem": "is_npt = not is_ppt"})
        elif out["is_npt"] != (not out["is_ppt"]):
            res.violation("is_npt is not the negation of is_ppt", {"function": "is_npt", **base, "impl": [out["is_ppt"], out["is_npt"]], "exception": None, "theorem": "is_npt = not is_ppt"})
        if cert["width"] is None or cert["width"] > 1e-7:
            res.count("uncertified/lammin")


def work_pt_tie(task, res: Result):
    """toqito.channels.partial_transpose on the float matrix = Lean pt on its exact image (exact equality), both parties"""
    from toqito.channels import partial_transpose
    inst = task["inst"]
    drv = _drv(task)
    dA, dB, rho = inst["dA"], inst["dB"], inst["rho"]
    X = _X(inst)
    n = dA * dB
    for sys_ in (1, 2):
        arr, guard = _give(task, rho, "pt", sys_)
        impl = np.asarray(partial_transpose(arr, [sys_ - 1], [dA, dB]))
        _purity(res, "partial_transpose", guard, arr, {"sys": sys_, "dA": dA, "dB": dB, "rho": rho, "pres": task.get("pres")})
        mine = pt_dm(X, dA, dB, sys_)
        if drv is not None:
            ans = drv.ask("c15_pt", {"dA": dA, "dB": dB, "sys": sys_, "X": X.json()})
            re = [Fraction(int(x[0]), int(x[1])) for x in ans["re"]]
            im = [Fraction(int(x[0]), int(x[1])) for x in ans["im"]]
        else:
            re = [Fraction(int(x), 1 << mine.e) for x in mine.re.reshape(-1)]
            im = [Fraction(int(x), 1 << mine.e) for x in mine.im.reshape(-1)]
        iv = np.asarray(impl, dtype=complex).reshape(-1)
        ok = all(Fraction(float(z.real)) == r and Fraction(float(z.imag)) == i for z, r, i in zip(iv, re, im))
        res.case({"fn": "pt_tie", "sys": sys_, "dA": dA, "dB": dB, "rho": digest(rho)}, dA != dB or inst["cplx"], f"pt-tie/sys{sys_}")
        if not ok:
            res.violation(f"partial_transpose(sys={sys_}) differs from the exact model on {dA}x{dB}", {"function": "partial_transpose", "args": {"sys": sys_, "dA": dA, "dB": dB, "rho": rho}, "impl": impl, "model": "pt", "theorem": "pt_exec_eq_spec"})


def sep_dim_arg(form, dA, dB):
    return {"list": [dA, dB], "none": None, "int": int(dA)}[form]


def early_criteria(rho, dA, dB):
    """sufficient criteria of the cascade that hold BY A MARGIN for this state, evaluated independently of toqito
    (exact Gurvits-Barnum inequality; operator Schmidt rank <= 2; Johnston's 2xn spectrum condition).  A state for which
    one of them holds must be accepted before the late stages are reached."""
    rho = np.asarray(rho, dtype=complex)
    D = dA * dB
    out = []
    X = DM.exact_float(rho)
    t = X.trace_re()
    F = sum(Fraction(int(x) * int(x), 1 << (2 * X.e)) for x in list(X.re.reshape(-1)) + list(X.im.reshape(-1)))
    if t > 0 and (D - 1) * F <= t * t * (1 - Fraction(1, 10**9)):
        out.append("ball")
    R = rho.reshape(dA, dB, dA, dB).transpose(0, 2, 1, 3).reshape(dA * dA, dB * dB)
    sv = np.linalg.svd(R, compute_uv=False)
    if len(sv) < 3 or sv[2] < 1e-13 * sv[0]:
        out.append("op-schmidt-rank")
    if min(dA, dB) == 2:
        n = max(dA, dB)
        lam = np.sort(np.linalg.eigvalsh(herm(rho) / float(t)))[::-1]
        if (lam[0] - lam[2 * n - 2]) ** 2 <= 4 * lam[2 * n - 3] * lam[2 * n - 1] - 1e-9:
            out.append("2xn-spectrum")
    return out


# ------------------------------------------------------------------------------------------------
# the decision logic of is_separable / has_symmetric_extension / is_ppt against the Lean model (Toq/Model/SepCascade.lean)

LATE_LABELS = ("breuer-hall", "symext-true", "symext-final-false")
REL_MARGIN = 1e-13   # a comparison lhs ? rhs evaluated in float is resolved when |lhs - rhs| > REL_MARGIN * (|lhs| + |rhs|)
_F_SRC = {}


def _rank4_F(state):
    """abs(F) of the rank-4 test on 3x3, computed by EXECUTING the lines of is_separable that build it (from `p = np.zeros((6, 7, 8, 9))` to the
    end of the `F = np.linalg.det(...)` statement): the table of Pluecker coordinates is toqito's own; the Lean model covers the decision
    `abs(F) < max(tol**2, eps**(3/4))` only (the criterion itself is cited).  None when the lines cannot be located."""
    from itertools import product
    from scipy.linalg import orth
    f, w = watched("is_separable")
    key = id(f)
    if key not in _F_SRC:
        src = w.src
        try:
            i0 = next(i for i, t in enumerate(src) if "p = np.zeros((6, 7, 8, 9))" in t)
            i1 = next(i for i, t in enumerate(src) if i > i0 and "Matrix is separable iff F is zero" in t)
            import textwrap
            _F_SRC[key] = compile(textwrap.dedent("".join(src[i0:i1])), "<is_separable rank-4 block>", "exec")
        except StopIteration:
            _F_SRC[key] = None
    code = _F_SRC[key]
    if code is None:
        return None
    ns = {"np": np, "orth": orth, "product": product, "state": state}
    exec(code, ns)
    return abs(ns["F"])


def cascade_quantities(arr, dA, dB, tol=1e-8):
    """the quantities is_separable evaluates, obtained with the same NumPy / toqito calls on the same array, in the order of the source
    (all of them, whether or not the real call gets that far); -> (dict of exact values, dict name -> exception text)"""
    from toqito.channel_ops.partial_channel import partial_channel
    from toqito.channels import partial_trace, realignment
    from toqito.matrix_props import is_positive_semidefinite, trace_norm
    from toqito.perms import swap
    from toqito.state_props import in_separable_ball, is_ppt, schmidt_rank
    q = {"psd": False, "rank": 0, "ppt": False, "realignNorm": 0.0, "zhangNorm": 0.0, "purA": 0.0, "purB": 0.0, "lam": [], "hankelRank": 0, "homPsd": False,
         "homPpt": False, "normB2": 0.0, "minA": 0.0, "minC": 0.0, "absF": 0.0, "ball": False, "osr": 0, "haPsd": []}
    err = {}

    def grab(name, fn):
        try:
            q[name] = fn()
        except Exception as e:
            err[name] = f"{type(e).__name__}: {str(e)[:120]}"

    state = arr
    grab("psd", lambda: bool(is_positive_semidefinite(state)))
    if not q["psd"]:
        return q, err
    grab("rank", lambda: int(np.linalg.matrix_rank(state)))
    state = state / np.trace(state)
    dim = [int(dA), int(dB)]
    min_dim, max_dim, prod_dim = min(dim), max(dim), dA * dB
    if min_dim == 1:
        return q, err
    pa = partial_trace(state, [1], dim)
    pb = partial_trace(state, [0], dim)
    grab("ppt", lambda: bool(is_ppt(state, 2, dim, tol)))
    grab("realignNorm", lambda: float(trace_norm(realignment(state, dim))))
    grab("zhangNorm", lambda: float(trace_norm(realignment(state - np.kron(pa, pb), dim))))
    grab("purA", lambda: float(np.real(np.trace(pa @ pa))))
    grab("purB", lambda: float(np.real(np.trace(pb @ pb))))

    def lam_():
        eig_vals, _ = np.linalg.eig(state)
        return [float(np.real(x)) for x in eig_vals[np.argsort(-eig_vals)]]
    grab("lam", lam_)
    if min_dim == 2:
        state_t = swap(state, [1, 2], dim) if dim[0] > 2 else state
        A = state_t[:max_dim, :max_dim]
        B = state_t[:max_dim, max_dim: 2 * max_dim]
        C = state_t[max_dim: 2 * max_dim, max_dim: 2 * max_dim]
        grab("hankelRank", lambda: int(np.linalg.matrix_rank(B - B.conj().T)))
        X2 = np.vstack((np.hstack(((5 / 6) * A - C / 6, B)), np.hstack((B.conj().T, (5 / 6) * C - A / 6))))
        grab("homPsd", lambda: bool(is_positive_semidefinite(X2)))
        grab("homPpt", lambda: bool(is_ppt(X2, 2, [2, max_dim])))
        grab("normB2", lambda: float(np.linalg.norm(B) ** 2))
        grab("minA", lambda: float(np.min(np.real(np.linalg.eigvals(A)))))
        grab("minC", lambda: float(np.min(np.real(np.linalg.eigvals(C)))))
        q["_blocks"] = (np.array(state_t), np.array(A), np.array(B), np.array(C), np.array(X2))
    if q["rank"] == 4 and min_dim == 3 and max_dim == 3:
        def f_():
            v = _rank4_F(state)
            if v is None:
                raise InfraError("rank-4 block of is_separable not located")
            return float(v)
        grab("absF", f_)
    grab("ball", lambda: bool(in_separable_ball(state)))
    grab("osr", lambda: int(schmidt_rank(state, dim)))
    if dim[0] == 3 and dim[1] == 3:
        grab("haPsd", lambda: [bool(is_positive_semidefinite(partial_channel(state, Phi, 2, dim))) for _, Phi in ha_choi_matrices()])
    return q, err


def _qjson(q):
    out = {}
    for k, v in q.items():
        if k.startswith("_"):
            continue
        if isinstance(v, bool) or (isinstance(v, int) and k in ("rank", "hankelRank", "osr")):
            out[k] = v
        elif isinstance(v, list):
            out[k] = [x if isinstance(x, bool) else frac_json(Fraction(float(x))) for x in v]
        else:
            out[k] = frac_json(Fraction(float(v)))
    return out


def model_cascade(drv, N, form, dA, tol, q):
    """-> (label, verdict, near_threshold, raw answer): the statement of is_separable that returns according to the Lean model"""
    dimj = {"list": None, "none": None, "int": int(dA)}[form]
    args = {"N": int(N), "dim": dimj, "tol": frac_json(Fraction(float(tol))), "q": _qjson(q)}
    if form == "list":
        args["dim"] = [int(dA), int(N // dA)]
    ans = drv.ask("c15_cascade", args)
    if "reject" in ans:
        lab = {"NotPSD": "input-not-psd", "InvalidDim": "invalid-dim"}.get(ans["reject"], "reject:" + str(ans["reject"]))
        return lab, "raise:ValueError", False, ans
    near = False
    for lhs, rhs in ans["cmps"]:
        a, b = Fraction(int(lhs[0]), int(lhs[1])), Fraction(int(rhs[0]), int(rhs[1]))
        if abs(a - b) <= Fraction(REL_MARGIN) * (abs(a) + abs(b)):
            near = True
    if ans["out"] == "late":
        return "late", None, near, ans
    return ans["branch"], bool(ans["verdict"]), near, ans


def check_blocks(res, drv, blocks, dA, dB):
    """the exchange of the parties that puts the qubit first, the slices A, B, C and the block matrix of the homothetic-image test, as the harness replica
    computes them with toqito.perms.swap / NumPy, against the exact Lean blk / qubitFirst / homothetic (qubit_blocks_spec, homothetic_image_spec)"""
    state_t, A, B, C, X2 = blocks
    n = max(dA, dB)
    # the exact image of the normalised float state, in the ORIGINAL party order: undo the exchange the replica made
    st = np.asarray(state_t, dtype=complex)
    orig = st if dA == 2 else st.reshape(2, n, 2, n).transpose(1, 0, 3, 2).reshape(2 * n, 2 * n)
    X = DM.exact_float(np.ascontiguousarray(orig))
    ans = drv.ask("c15_blocks2n", {"dA": dA, "dB": dB, "X": X.json()})
    if "reject" in ans:
        raise InfraError(f"c15_blocks2n rejected {dA}x{dB}: {ans}")
    ok = int(ans["n"]) == n and all(_exact_equal(M, ans[k]) for k, M in (("A", A), ("B", B), ("C", C)))
    H = _lean_mat(ans["H"], 2 * n, 2 * n)
    okh = float(np.max(np.abs(H - np.asarray(X2, dtype=complex)))) <= 8e-16 * max(1.0, float(np.max(np.abs(st))))
    res.count("blocks2n-exact-checked")
    if not (ok and okh):
        raise InfraError(f"the replica of the 2xn blocks ({dA}x{dB}) differs from the exact Lean blocks (A,B,C exact: {ok}; homothetic image: {okh})")


def check_cascade(res, drv, arr, inst, form, dA, dB, out, branch, exc, tag="base"):
    """compares the deciding statement and the verdict of the real call with the Lean model of the cascade, fed with the quantities that toqito's own
    functions give on the same array"""
    if drv is None or branch in ("not-entered",) or branch.startswith(("unrecognised:", "other:")):
        return
    q, err = cascade_quantities(arr, dA, dB)
    N = int(np.asarray(arr).shape[1])
    lab, verdict, near, ans = model_cascade(drv, N, form, dA, 1e-8, q)
    if "reject" not in ans and list(ans.get("dims", [])) != [dA, dB]:
        raise InfraError(f"the model decodes dim form {form!r} on side {N} as {ans.get('dims')}, the instance was generated on {[dA, dB]}")
    res.count(f"cascade-model/{lab}/{verdict}")
    if "_blocks" in q and not err:
        check_blocks(res, drv, q["_blocks"], dA, dB)
    agree = (lab == "late" and branch in LATE_LABELS) or (lab == branch and verdict == out)
    # a quantity whose evaluation raised is only relevant when the real call raised too (then the real call shows the same exception)
    if err and not agree:
        res.count("cascade-model/replica-raised")
        return
    desc = {"fn": "is_separable/cascade", "tag": tag, "dim_form": form, "dA": dA, "dB": dB, "rho": digest(inst["rho"])}
    res.case(desc, not near, f"cascade/{lab}" + ("/near-threshold" if near else ""))
    if agree:
        return
    if near:
        res.count("cascade-model/near-threshold-mismatch")
        return
    if tag != "recheck":
        # identical calls on identical data: a mismatch that does not reproduce is numerical flutter, not a statement about the decision logic
        out_b, branch_b, exc_b = observed_call("is_separable", arr, sep_dim_arg(form, dA, dB))
        if (out_b, branch_b) != (out, branch):
            res.count("cascade-model/unstable-call")
            return
    qv = {k: v for k, v in q.items() if not k.startswith("_")}
    res.violation(f"is_separable returned {out} at statement {branch}; the Lean model of the cascade, fed with the quantities toqito's own functions give on the same array, "
                  f"returns {verdict} at {lab} ({dA}x{dB}, dim form {form})",
                  {"function": "is_separable", "check": "cascade", "args": {"dA": dA, "dB": dB, "dim_form": form, "family": inst.get("family"), "k": inst.get("k"), "meta": inst.get("meta"),
                                                                             "variant": inst.get("variant", "base"), "rho": inst["rho"], "pres": inst.get("pres")},
                   "impl": [out, branch], "model": [verdict, lab], "quantities": qv, "exception": exc, "branch": branch, "dA": dA, "dB": dB,
                   "separable_by_construction": bool(inst.get("sep")),
                   "theorem": "sepCascade (cascade_small_dims_is_ppt, cascade_npt_rejected, cascade_false_only_by_necessary_criteria, johnston_spectrum_indices, zhang_test_arithmetic)"})


def _sep_violation(res, what, inst, form, out, branch, exc, extra=None):
    info = {"function": "is_separable", "args": {"dA": inst["dA"], "dB": inst["dB"], "dim_form": form, "family": inst["family"], "k": inst.get("k"), "meta": inst.get("meta"),
                                                  "variant": inst.get("variant", "base"), "rho": inst["rho"], "pres": inst.get("pres")},
            "impl": out, "branch": branch, "exception": exc, "separable_by_construction": bool(inst.get("sep")), "dA": inst["dA"], "dB": inst["dB"]}
    info.update(extra or {})
    if inst.get("sep"):
        info["early_criteria_hold"] = early_criteria(inst["rho"], inst["dA"], inst["dB"])
        if info["early_criteria_hold"]:
            what += f" although the sufficient criteria {info['early_criteria_hold']} hold by a margin"
    res.violation(what, info)


def _contradicts(out, branch):
    if out is False and branch in NECESSARY_THEOREMS:
        return f": contradicts the Lean theorem {NECESSARY_THEOREMS[branch]} (no separable state fails this necessary criterion), so the code evaluates the criterion wrongly"
    return ""


def _sep_theorem(base, out, branch):
    return base + (" + " + NECESSARY_THEOREMS[branch] if out is False and branch in NECESSARY_THEOREMS else "")


def _ppt_first(res, inst, form, out, branch, exc, npt8, ppt8, cinfo):
    """the PPT test (tolerance 1e-8 on rho/trace) is the FIRST test of the cascade: a certified failure of it must be answered False at the PPT statement,
    and the PPT statement must not answer when the test certifiably passes (branch-trace assertion about the code, oracle: pptVerdict_sound)"""
    if not (npt8 or ppt8) or branch in ("input-not-psd", "invalid-dim", "dim1", "not-entered"):
        return
    res.count("ppt-first/" + ("npt" if npt8 else "ppt"))
    if npt8 and not (out is False and branch == "ppt-reject"):
        _sep_violation(res, f"the PPT test fails by a margin (certified lambda_min(PT) <= {cinfo['certified']['hi']:.3g}) but is_separable answered {out} at branch {branch}, not False at the PPT statement",
                       inst, form, out, branch, exc, {**cinfo, "model": [False, "ppt-reject"], "theorem": "pptVerdict_sound (PPT is the first test) / negative_rayleigh_not_separable"})
    elif ppt8 and branch == "ppt-reject":
        _sep_violation(res, f"is_separable answered at the PPT-reject statement although the PPT test passes by a margin (certified lambda_min(PT) >= {cinfo['certified']['lo']:.3g})",
                       inst, form, out, branch, exc, {**cinfo, "model": "not ppt-reject", "theorem": "pptVerdict_sound / peres"})


def work_sep(task, res: Result):
    """is_separable: soundness on separable-by-construction inputs, on certified-NPT inputs, agreement with PPT for D <= 6,
    invariance under local unitaries and exchange of the parties"""
    from toqito.perms import swap
    from toqito.state_props import is_ppt
    warnings.filterwarnings("ignore")
    inst, forms = task["inst"], task["forms"]
    drv = _drv(task)
    dA, dB, rho = inst["dA"], inst["dB"], inst["rho"]
    D = dA * dB
    X = _X(inst)
    fam = inst["family"]
    inst = dict(inst, pres=task.get("pres"))
    if inst.get("sep"):
        check_sepmix_exact(drv, inst, res)
    cert = certify_lammin(drv, X, dA, dB, 2, Fraction(1, 10**8))
    lo, hi = cert["lo"], cert["hi"]
    tr = float(np.trace(rho).real)
    npt = hi is not None and float(hi) <= -1e-6 * tr
    # is_separable tests rho / trace(rho) against tol = 1e-8 first: certified verdict of that first test (scale-free), decided only by the margin
    npt8 = hi is not None and float(hi) <= (-1e-8 - MARGIN) * tr
    ppt8 = lo is not None and float(lo) >= (-1e-8 + MARGIN) * tr
    cinfo = {"certified": {"lo": None if lo is None else float(lo), "hi": None if hi is None else float(hi)}}
    verdicts = {}
    for form in forms:
        arr, guard = _give(task, rho, "sep", form)
        pargs = {"dA": dA, "dB": dB, "dim_form": form, "family": fam, "rho": rho, "pres": task.get("pres")}
        out, branch, exc = observed_call("is_separable", arr, sep_dim_arg(form, dA, dB))
        if _purity(res, "is_separable", guard, arr, pargs) is None and D <= 6 and form == forms[0]:
            out_b, branch_b, _ = observed_call("is_separable", arr, sep_dim_arg(form, dA, dB))   # the SAME object again
            res.count("repeat-call/is_separable")
            if out_b != out or guard.modified() is not None:
                res.violation(f"is_separable: a second call on the same object returns {out_b} ({branch_b}), the first returned {out} ({branch})",
                              {"function": "is_separable", "args": pargs, "impl": [out, out_b], "presentation": describe(arr), "check": "repeat"})
        verdicts[form] = (out, branch)
        res.count(f"is_separable-branch/{branch}/{out}")
        check_cascade(res, drv, arr, inst, form, dA, dB, out, branch, exc)
        desc = {"fn": "is_separable", "dim_form": form, "dA": dA, "dB": dB, "family": fam, "k": inst.get("k"), "rho": digest(rho)}
        oracle = bool(inst.get("sep")) or npt or D <= 6
        res.case(desc, oracle, f"is_separable/{fam}/{dA}x{dB}")
        _ppt_first(res, inst, form, out, branch, exc, npt8, ppt8, cinfo)
        if inst.get("sep") and out is not True:
            _sep_violation(res, f"is_separable declared a mixture of {inst.get('k')} product states on {dA}x{dB} " + ("entangled" if out is False else f"invalid ({exc})") + f" at branch {branch}"
                           + _contradicts(out, branch), inst, form, out, branch, exc, {**cinfo, "model": True, "theorem": _sep_theorem("sepMix_separable", out, branch)})
        elif npt and out is not False:
            _sep_violation(res, f"is_separable = {out} although certified lambda_min(PT) <= {float(hi):.3g} (branch {branch})", inst, form, out, branch, exc,
                           {**cinfo, "model": False, "theorem": "negative_rayleigh_not_separable"})
        elif D <= 6 and not inst.get("sep"):
            # agreement with the PPT criterion (and with the certified verdict when decided)
            try:
                p = bool(is_ppt(_give(task, np.array(rho, copy=True) / np.trace(rho), "sep-ppt", form)[0], 2, [dA, dB], 1e-8))
            except Exception as e:
                p = f"raise:{type(e).__name__}"
            decided = (lo is not None and float(lo) >= -1e-8 * tr + MARGIN) or (hi is not None and float(hi) <= -1e-8 * tr - MARGIN)
            if out != p:
                _sep_violation(res, f"is_separable = {out} but is_ppt = {p} on {dA}x{dB}", inst, form, out, branch, exc, {**cinfo, "model": p, "theorem": "PPT is necessary and sufficient for dA*dB <= 6 (Horodecki, cited)"})
            elif decided and isinstance(out, bool) and out != (float(lo) >= -1e-8 * tr + MARGIN if lo is not None else False):
                _sep_violation(res, f"is_separable = {out} contradicts the certified PPT verdict on {dA}x{dB}", inst, form, out, branch, exc, {**cinfo, "model": not out, "theorem": "pptVerdict_sound"})
    vs = set(v[0] for v in verdicts.values())
    if len(vs) > 1:
        _sep_violation(res, f"is_separable verdict depends on the form of the dim argument: {verdicts}", inst, "all", sorted(map(str, vs)), "dim-forms", None, {"model": "equal", "theorem": "n/a (same input)"})
    # ---- invariance
    if task.get("U") is not None:
        U, V = task["U"], task["V"]
        base_out, base_branch = verdicts[forms[0]]
        K = np.kron(U, V)
        rot = herm(K @ np.asarray(rho, dtype=complex) @ K.conj().T)
        if drv is not None:
            ans = drv.ask("c15_localconj", {"dA": dA, "dB": dB, "U": DM.exact_float(U).json(), "V": DM.exact_float(V).json(), "X": X.json()})
            re = np.array([int(x[0]) / int(x[1]) for x in ans["re"]]).reshape(D, D)
            im = np.array([int(x[0]) / int(x[1]) for x in ans["im"]]).reshape(D, D)
            if float(np.max(np.abs(re + 1j * im - rot))) > 1e-13 * max(1.0, tr):
                raise InfraError("float local conjugation differs from the exact Lean localConj")
            res.count("localconj-exact-checked")
        arr, guard = _give(task, rho, "swap")
        sw = np.asarray(swap(arr, [1, 2], [dA, dB]))
        _purity(res, "swap", guard, arr, {"dA": dA, "dB": dB, "rho": rho, "pres": task.get("pres")})
        if drv is not None:
            ans = drv.ask("c15_swap", {"dA": dA, "dB": dB, "X": X.json()})
            ok = all(Fraction(float(z.real)) == Fraction(int(r[0]), int(r[1])) and Fraction(float(z.imag)) == Fraction(int(i[0]), int(i[1]))
                     for z, r, i in zip(np.asarray(sw, dtype=complex).reshape(-1), ans["re"], ans["im"]))
            res.count("swap-exact-checked")
            if not ok:
                res.violation(f"toqito.perms.swap on {dA}x{dB} differs from the exact exchange of the parties", {"function": "swap", "args": {"dA": dA, "dB": dB, "rho": rho}, "impl": sw, "model": "swapAB", "theorem": "swapAB_exec_eq_spec"})
        variants = [v for v in (("local-unitary", rot, dA, dB), ("swap", sw, dB, dA)) if v[0] in task.get("variants", ["local-unitary", "swap"])]
        for vname, mat, a_, b_ in variants:
            inst2 = dict(inst, rho=mat, dA=a_, dB=b_, variant=vname, terms=None)
            arr, guard = _give(task, mat, "sep-variant", vname)
            out2, branch2, exc2 = observed_call("is_separable", arr, [a_, b_])
            _purity(res, "is_separable", guard, arr, {"dA": a_, "dB": b_, "dim_form": "list", "family": fam, "variant": vname, "rho": mat, "pres": task.get("pres")})
            res.count(f"is_separable-branch/{branch2}/{out2}")
            check_cascade(res, drv, arr, inst2, "list", a_, b_, out2, branch2, exc2, tag=vname)
            both_raise = isinstance(out2, str) and isinstance(base_out, str)
            res.case({"fn": "is_separable/" + vname, "dA": dA, "dB": dB, "family": fam, "rho": digest(rho)}, not both_raise, f"invariance/{vname}/" + ("both-raise" if both_raise else "compared"))
            _ppt_first(res, inst2, "list", out2, branch2, exc2, npt8, ppt8, cinfo)
            if inst.get("sep") and out2 is not True:
                _sep_violation(res, f"is_separable declared the {vname} image of a mixture of product states " + ("entangled" if out2 is False else f"invalid ({exc2})") + f" at branch {branch2}"
                               + _contradicts(out2, branch2), inst2, "list", out2, branch2, exc2, {"model": True, "theorem": _sep_theorem("sep_local_unitary_closed / sep_swap_closed", out2, branch2)})
            elif npt and out2 is not False:
                _sep_violation(res, f"is_separable = {out2} on the {vname} image of a certified NPT state", inst2, "list", out2, branch2, exc2, {"model": False, "theorem": "negative_rayleigh_not_separable"})
            elif out2 != base_out and not inst.get("sep"):
                _sep_violation(res, f"is_separable verdict not invariant under {vname}: {base_out} ({base_branch}) vs {out2} ({branch2})", inst2, "list", [base_out, out2], branch2, exc2,
                               {"model": "equal", "kind": "invariance", "pair": [[base_out, base_branch], [out2, branch2]], "base_branch": base_branch, "base_rho": rho, "base_dims": [dA, dB],
                                "theorem": "sep_local_unitary_iff / sep_swap_closed"})


# ------------------------------------------------------------------------------------------------
# necessary criteria of the cascade (branches that answer False): which Lean theorem covers which branch

NECESSARY_THEOREMS = {
    "ppt-reject": "peres",
    "realignment": "realignment_criterion_svd (+ realign_exec_eq_spec)",
    "zhang": "zhang_criterion_svd (+ ptrace_exec_eq_spec)",
    "ha-maps-3x3": "positive_map_criterion / ha_maps_branch (+ partial_channel_exec_eq_spec; positivity of the Ha-Kye maps is cited)",
    "breuer-hall": "breuer_hall_criterion",
}
CRIT_SLACK = 1e-12


def realign_np(M, dA, dB):
    return np.asarray(M).reshape(dA, dB, dA, dB).transpose(0, 2, 1, 3).reshape(dA * dA, dB * dB)


def nuc(M):
    return float(np.sum(np.linalg.svd(np.asarray(M, dtype=complex), compute_uv=False)))


def choi_apply_np(X, J, dA, dB, dO, sys_):
    Xr = np.asarray(X, dtype=complex).reshape(dA, dB, dA, dB)
    if sys_ == 2:
        return np.einsum("akcl,kolp->aocp", Xr, np.asarray(J, dtype=complex).reshape(dB, dO, dB, dO)).reshape(dA * dO, dA * dO)
    return np.einsum("kbld,kolp->obpd", Xr, np.asarray(J, dtype=complex).reshape(dA, dO, dA, dO)).reshape(dO * dB, dO * dB)


def ha_choi_matrices():
    """the Choi matrices is_separable builds for 3x3 (same loop, same float arithmetic) with their parameters (a, b, c)"""
    phi = np.zeros((9, 1))
    for i in range(3):
        phi[3 * i + i, 0] = 1
    out = []
    for t in np.arange(0, 1.0, 0.1):
        t_ = t
        for j in range(2):
            if t_ > 0:
                t_ = 1 / t_
            elif j > 0:
                break
            a = (1 - t_) ** 2 / (1 - t_ + t_**2)
            b = t_**2 / (1 - t_ + t_**2)
            c = 1 / (1 - t_ + t_**2)
            out.append(((a, b, c), np.diag([a + 1, c, b, b, a + 1, c, c, b, a + 1]) - phi @ phi.conj().T))
    return out


def breuer_hall_choi(d):
    """Choi matrix sum_ij E_ij (x) L(E_ij) of L(X) = tr(X) 1 - X - U X^T U^H, U = antidiag(1,..,1,-1,..,-1) (antisymmetric unitary, d even)"""
    U = np.fliplr(np.diag([1.0] * (d // 2) + [-1.0] * (d // 2)))
    if not (np.array_equal(U.T, -U) and np.array_equal(U.T @ U, np.eye(d))):
        raise InfraError("Breuer-Hall U is not an antisymmetric unitary")
    J = np.zeros((d * d, d * d))
    for i in range(d):
        for j in range(d):
            E = np.zeros((d, d))
            E[i, j] = 1
            L = np.trace(E) * np.eye(d) - E - U @ E.T @ U.T
            J += np.kron(E, L)
    return J


def _lean_mat(ans, r, c):
    re = np.array([int(x[0]) / int(x[1]) for x in ans["re"]]).reshape(r, c)
    im = np.array([int(x[0]) / int(x[1]) for x in ans["im"]]).reshape(r, c)
    return re + 1j * im


def _exact_equal(impl, ans):
    iv = np.asarray(impl, dtype=complex).reshape(-1)
    return len(iv) == len(ans["re"]) and all(Fraction(float(z.real)) == Fraction(int(r[0]), int(r[1])) and Fraction(float(z.imag)) == Fraction(int(i[0]), int(i[1]))
                                             for z, r, i in zip(iv, ans["re"], ans["im"]))


def work_criteria(task, res: Result):
    """ties toqito's realignment / partial_trace / partial_channel to the exact Lean evaluators and evaluates the quantities of the necessary criteria
    (realignment, Zhang et al., reduction, Ha-Kye maps on 3x3, Breuer-Hall in even dimension) on separable-by-construction inputs"""
    from toqito.channel_ops.partial_channel import partial_channel
    from toqito.channels import partial_trace, realignment
    from toqito.matrix_props import is_positive_semidefinite, trace_norm
    warnings.filterwarnings("ignore")
    inst = task["inst"]
    drv = _drv(task)
    dA, dB, rho = inst["dA"], inst["dB"], inst["rho"]
    D = dA * dB
    X = _X(inst)
    sep = bool(inst.get("sep"))
    if sep:
        check_sepmix_exact(drv, inst, res)
    scale = max(1.0, float(np.max(np.abs(rho))))
    args = {"dA": dA, "dB": dB, "family": inst["family"], "k": inst.get("k"), "meta": inst.get("meta"), "rho": rho, "pres": task.get("pres"), "ha_idx": task.get("ha_idx", 0)}
    base = {"function": "necessary_criteria", "args": args, "separable_by_construction": sep, "dA": dA, "dB": dB}
    # ---- ties (any input)
    arr, guard = _give(task, rho, "crit-realign")
    R_impl = np.asarray(realignment(arr, [dA, dB]))
    _purity(res, "realignment", guard, arr, args)
    if drv is not None:
        ans = drv.ask("c15_realign", {"dA": dA, "dB": dB, "X": X.json()})
        if "reject" in ans:
            raise InfraError(f"c15_realign rejected: {ans}")
        R_model = _lean_mat(ans, dA * dA, dB * dB)
        ok = R_impl.shape == (dA * dA, dB * dB) and _exact_equal(R_impl, ans)
        pa = drv.ask("c15_ptrace", {"dA": dA, "dB": dB, "X": X.json()})
        A_model, B_model = _lean_mat(pa["A"], dA, dA), _lean_mat(pa["B"], dB, dB)
    else:
        R_model = realign_np(X.to_float(), dA, dB)
        ok = R_impl.shape == R_model.shape and np.array_equal(np.asarray(R_impl, dtype=complex), R_model)
        A_model = np.einsum("abcb->ac", X.to_float().reshape(dA, dB, dA, dB))
        B_model = np.einsum("abad->bd", X.to_float().reshape(dA, dB, dA, dB))
    if not np.array_equal(R_model, realign_np(X.to_float(), dA, dB)):
        raise InfraError("Lean realignE differs from the harness replica")
    res.case({"fn": "realignment_tie", "dA": dA, "dB": dB, "rho": digest(rho)}, dA != dB or inst["cplx"], f"criteria/realign-tie/{dA}x{dB}")
    if not ok:
        res.violation(f"realignment(rho, [{dA},{dB}]) differs from the exact model", {**base, "function": "realignment", "impl": R_impl, "model": "realignE", "theorem": "realign_exec_eq_spec"})
    for sys_, M_model, nm in ((1, A_model, "A"), (0, B_model, "B")):
        arr, guard = _give(task, rho, "crit-ptrace", sys_)
        M_impl = np.asarray(partial_trace(arr, [sys_], [dA, dB]))
        _purity(res, "partial_trace", guard, arr, args)
        if M_impl.shape != M_model.shape or float(np.max(np.abs(M_impl - M_model))) > 1e-15 * max(dA, dB) * scale:
            res.violation(f"partial_trace(rho, [{sys_}], [{dA},{dB}]) differs from the exact marginal rho_{nm}", {**base, "function": "partial_trace", "sys": sys_, "impl": M_impl, "model": M_model, "theorem": "ptrace_exec_eq_spec"})
    res.count("criteria/ties-checked")
    if not sep:
        return
    # ---- the normalisation is_separable performs
    tr = complex(np.trace(rho))
    rn = np.asarray(rho, dtype=complex) / tr
    trX = float(X.trace_re())
    Rn, An, Bn = R_model / trX, A_model / trX, B_model / trX
    dim = [dA, dB]
    viol = lambda what, thm, extra: res.violation(what, {**base, "theorem": thm, **extra})
    nontrivial = inst.get("k", 1) >= 2
    # (1) realignment
    q_model = nuc(Rn)
    q_impl = float(trace_norm(realignment(rn, dim)))
    if q_model > 1 + CRIT_SLACK:
        raise InfraError(f"||R(rho)||_1 = {q_model} > 1 on a separable-by-construction input: contradicts realignment_criterion_svd (harness or model wrong)")
    res.case({"fn": "crit/realignment", "dA": dA, "dB": dB, "rho": digest(rho)}, nontrivial, f"criteria/realignment/{dA}x{dB}/" + ("tight" if q_model > 1 - 1e-9 else "slack"))
    if abs(q_impl - q_model) > CRIT_SLACK or q_impl > 1 + 1e-8:
        viol(f"trace_norm(realignment(rho)) = {q_impl!r} but the exact realignment has trace norm {q_model!r} <= 1 on {dA}x{dB}", NECESSARY_THEOREMS["realignment"], {"impl": q_impl, "model": q_model})
    # (2) Zhang et al.
    lhs_model = nuc(realign_np(X.to_float() / trX - np.kron(An, Bn), dA, dB))
    rhs_model = float(np.sqrt(max(0.0, 1 - np.trace(An @ An).real) * max(0.0, 1 - np.trace(Bn @ Bn).real)))
    pa_, pb_ = partial_trace(rn, [1], dim), partial_trace(rn, [0], dim)
    lhs_impl = float(trace_norm(realignment(rn - np.kron(pa_, pb_), dim)))
    rhs_impl = float(np.sqrt(max(0.0, 1 - np.real(np.trace(pa_ @ pa_))) * max(0.0, 1 - np.real(np.trace(pb_ @ pb_)))))
    if lhs_model > rhs_model + CRIT_SLACK or 1 - np.trace(An @ An).real < -CRIT_SLACK or 1 - np.trace(Bn @ Bn).real < -CRIT_SLACK:
        raise InfraError(f"Zhang bound {lhs_model} <= {rhs_model} fails on a separable-by-construction input: contradicts zhang_criterion_svd (harness or model wrong)")
    res.case({"fn": "crit/zhang", "dA": dA, "dB": dB, "rho": digest(rho)}, nontrivial, f"criteria/zhang/{dA}x{dB}/" + ("tight" if lhs_model > rhs_model - 1e-9 else "slack"))
    # the bound is a square root: rounding noise 1e-16 in a radicand that is exactly 0 (a pure marginal) becomes 1e-8 in the root, so the radicands are compared
    if abs(lhs_impl - lhs_model) > CRIT_SLACK or abs(rhs_impl ** 2 - rhs_model ** 2) > 1e-9 or lhs_impl > 1e-8 + rhs_impl:
        viol(f"Zhang test: toqito evaluates {lhs_impl!r} vs bound {rhs_impl!r}; exact quantities {lhs_model!r} <= {rhs_model!r} on {dA}x{dB}", NECESSARY_THEOREMS["zhang"],
             {"impl": [lhs_impl, rhs_impl], "model": [lhs_model, rhs_model]})
    # (3) reduction criterion (not a branch of the cascade; the Breuer-Hall map refines it)
    Xn = X.to_float() / trX
    for nm, M in (("rho_A (x) 1 - rho", np.kron(An, np.eye(dB)) - Xn), ("1 (x) rho_B - rho", np.kron(np.eye(dA), Bn) - Xn)):
        if float(np.linalg.eigvalsh(herm(M))[0]) < -CRIT_SLACK:
            raise InfraError(f"{nm} is not PSD on a separable-by-construction input: contradicts reduction_criterion")
    res.count("criteria/reduction-confirmed")
    # (4) Ha-Kye maps (the 3x3 branch)
    if (dA, dB) == (3, 3):
        for idx, ((a, b, c), Phi) in enumerate(ha_choi_matrices()):
            Y_model = choi_apply_np(Xn, Phi, 3, 3, 3, 2)
            lam = float(np.linalg.eigvalsh(herm(Y_model))[0])
            if lam < -CRIT_SLACK:
                raise InfraError(f"(id (x) Phi[{a},{b},{c}])(rho) has eigenvalue {lam} on a separable-by-construction input: contradicts positive_map_criterion / the cited positivity of Phi[a,b,c]")
            Y_impl = np.asarray(partial_channel(rn, Phi, 2, dim))
            good = Y_impl.shape == Y_model.shape and float(np.max(np.abs(Y_impl - Y_model))) <= 1e-13 * 4 and bool(is_positive_semidefinite(Y_impl))
            if idx == task.get("ha_idx", 0) % 19 and drv is not None:
                ans = drv.ask("c15_choi_apply", {"dA": 3, "dB": 3, "dO": 3, "sys": 2, "J": DM.exact_float(np.asarray(Phi, dtype=complex)).json(), "X": X.json()})
                if float(np.max(np.abs(_lean_mat(ans, 9, 9) / trX - Y_model))) > 1e-13 * 4:
                    raise InfraError("Lean choiApplyB differs from the harness replica")
                res.count("criteria/choi-apply-exact-checked")
            if not good:
                viol(f"partial_channel(rho, Phi[{a:.4g},{b:.4g},{c:.4g}], 2, [3,3]) is not the PSD operator (id (x) Phi)(rho) (min eigenvalue {lam:.3g})", NECESSARY_THEOREMS["ha-maps-3x3"],
                     {"impl": Y_impl, "model": Y_model, "abc": [a, b, c]})
        res.case({"fn": "crit/ha-maps", "rho": digest(rho)}, nontrivial, "criteria/ha-maps/3x3")
    # (5) Breuer-Hall maps (even local dimension); the code's own block raises TypeError (known finding), so only the theorem's map is evaluated
    for p_, d in ((1, dA), (2, dB)):
        if d % 2 == 0:
            Y = choi_apply_np(Xn, breuer_hall_choi(d), dA, dB, d, p_)
            lam = float(np.linalg.eigvalsh(herm(Y))[0])
            if lam < -CRIT_SLACK:
                raise InfraError(f"Breuer-Hall map on party {p_} gives eigenvalue {lam} on a separable-by-construction input: contradicts breuer_hall_criterion")
            res.case({"fn": "crit/breuer-hall", "party": p_, "dA": dA, "dB": dB, "rho": digest(rho)}, nontrivial, f"criteria/breuer-hall/{dA}x{dB}/party{p_}")


def work_choi_tie(task, res: Result):
    """partial_channel with a Choi matrix on Gaussian-integer data (bilinear: float arithmetic exact) = Lean choiApplyA / choiApplyB, exact equality"""
    from toqito.channel_ops.partial_channel import partial_channel
    warnings.filterwarnings("ignore")
    drv = _drv(task)
    dA, dB, dO, sys_, Xi, Ji = task["dA"], task["dB"], task["dO"], task["sys"], task["X"], task["J"]
    arr, guard = _give(task, Xi, "choi-tie")
    args = {"dA": dA, "dB": dB, "dO": dO, "sys": sys_, "X": Xi, "J": Ji, "pres": task.get("pres")}
    try:
        Y = np.asarray(partial_channel(arr, np.array(Ji, copy=True), sys_, [dA, dB]))
        exc = None
    except Exception as e:
        Y, exc = None, f"{type(e).__name__}: {str(e)[:160]}"
    _purity(res, "partial_channel", guard, arr, args)
    Y_np = choi_apply_np(Xi, Ji, dA, dB, dO, sys_)
    if drv is not None:
        ans = drv.ask("c15_choi_apply", {"dA": dA, "dB": dB, "dO": dO, "sys": sys_, "J": DM.from_int(np.asarray(Ji)).json(), "X": DM.from_int(np.asarray(Xi)).json()})
        if "reject" in ans:
            raise InfraError(f"c15_choi_apply rejected: {ans}")
        n = (dA * dO) if sys_ == 2 else (dO * dB)
        if not np.array_equal(_lean_mat(ans, n, n), Y_np):
            raise InfraError("Lean choiApply differs from the harness replica on integer data")
        ok = Y is not None and Y.shape == (n, n) and _exact_equal(Y, ans)
    else:
        ok = Y is not None and Y.shape == Y_np.shape and np.array_equal(np.asarray(Y, dtype=complex), Y_np)
    d_in = dA if sys_ == 1 else dB
    res.case({"fn": "partial_channel_tie", "dA": dA, "dB": dB, "dO": dO, "sys": sys_, "X": digest(Xi), "J": digest(Ji)}, dA != dB or dO != d_in, f"criteria/choi-tie/sys{sys_}/" + ("dO=d" if dO == d_in else "dO!=d"))
    if not ok:
        res.violation(f"partial_channel(X, J, {sys_}, [{dA},{dB}]) with a {d_in}->{dO} Choi matrix differs from the exact model ({exc})",
                      {"function": "partial_channel", "args": args, "impl": Y, "model": Y_np, "exception": exc, "theorem": "partial_channel_exec_eq_spec"})


def work_ha_probe(task, res: Result):
    """the cited hypothesis of ha_maps_branch, probed: the Choi matrices built by is_separable are those of Phi[a,b,c] (choiMap_haChoi) with a+b+c = 2,
    bc = (1-a)^2, 0 <= a <= 1, and Phi[a,b,c](b b^H) is PSD on the given pure states"""
    vecs = task["vecs"]
    mats = ha_choi_matrices()
    if len(mats) != 19:
        raise InfraError("expected 19 Ha-Kye Choi matrices")
    drv = _drv(task)
    if drv is not None:
        # the parameter loop of the model (haTs, haABC; ha_parameters_in_region) against the float loop of the code as replicated by ha_choi_matrices
        ans = drv.ask("c15_ha_params", {})
        if len(ans) != 19 or any(max(abs(float(rat_of(r[1 + i])) - abc[i]) for i in range(3)) > 1e-12 for r, (abc, _) in zip(ans, mats)):
            raise InfraError("the parameters (a, b, c) of the Lean model of the qutrit-map loop differ from the replica of the code's loop")
        res.count("criteria/ha-params-model-checked")
    for (a, b, c), Phi in mats:
        if abs(a + b + c - 2) > 1e-12 or abs(b * c - (1 - a) ** 2) > 1e-12 or not (-1e-15 <= a <= 1 + 1e-15):
            res.violation(f"is_separable's qutrit map parameters ({a}, {b}, {c}) leave the Cho-Kye-Lee positivity region", {"function": "ha_probe", "args": {"abc": [a, b, c], "vecs": vecs}, "impl": [a, b, c], "model": "a+b+c>=2, bc>=(1-a)^2", "theorem": "ha_maps_branch (cited hypothesis)"})
        for v in vecs:
            P = np.outer(v, np.conj(v))
            L = np.einsum("kl,kolp->op", P, Phi.reshape(3, 3, 3, 3))
            formula = np.diag([a * P[k, k] + b * P[(k + 1) % 3, (k + 1) % 3] + c * P[(k + 2) % 3, (k + 2) % 3] for k in range(3)]) - (P - np.diag(np.diag(P)))
            if float(np.max(np.abs(L - formula))) > 1e-12 * max(1.0, float(np.max(np.abs(P)))):
                raise InfraError("Choi matrix of the cascade is not that of Phi[a,b,c] (contradicts choiMap_haChoi)")
            lam = float(np.linalg.eigvalsh(herm(L))[0])
            res.case({"fn": "ha-probe", "abc": [round(a, 6), round(b, 6), round(c, 6)], "v": digest(v)}, True, "criteria/ha-positivity-probe")
            if lam < -1e-12 * max(1.0, float(np.vdot(v, v).real)):
                res.violation(f"Phi[{a},{b},{c}](v v^H) has eigenvalue {lam}: the map used by is_separable is not positive", {"function": "ha_probe", "args": {"abc": [a, b, c], "vecs": [v]}, "impl": lam, "model": ">= 0", "theorem": "ha_maps_branch (cited hypothesis)"})


def work_ball(task, res: Result):
    from toqito.state_props import in_separable_ball
    warnings.filterwarnings("ignore")
    drv = _drv(task)
    M, form = task["M"], task["form"]
    n = M.shape[0] if M.ndim == 2 and min(M.shape) > 1 else M.size
    thr = Fraction(float(n * np.finfo(float).eps))
    if form == "matrix":
        X = DM.exact_float(np.asarray(M, dtype=complex))
        trq = X.trace_re()
        F = sum(Fraction(int(x) * int(x), 1 << (2 * X.e)) for x in list(X.re.reshape(-1)) + list(X.im.reshape(-1)))
        lam = None
    else:
        lam = [Fraction(float(x)) for x in np.asarray(M).reshape(-1)]
        trq = sum(lam)
        F = sum(x * x for x in lam)
    py_ineq = trq >= thr and (n - 1) * F <= trq * trq
    if drv is not None:
        if form == "matrix":
            ans = drv.ask("c15_ball", {"n": n, "M": X.json(), "thr": frac_json(thr)})
            if ans.get("mirror") != ans.get("ineq"):
                res.violation("Lean mirror of in_separable_ball disagrees with the rational inequality (contradicts inSepBallMirror_eq)", {"function": "model", "args": {"M": M}, "impl": ans, "model": "equal"})
            if rat_of(ans["tr"]) != trq or rat_of(ans["frob2"]) != F:
                raise InfraError("trace / Frobenius norm of the Lean model differ from the harness")
        else:
            ans = drv.ask("c15_ball_eig", {"lam": [frac_json(x) for x in lam], "thr": frac_json(thr)})
        model = bool(ans["ineq"])
        if model != py_ineq:
            raise InfraError("Lean ball decision differs from the harness replica")
    else:
        model = py_ineq
    if trq > 0:
        rel = abs(float(((n - 1) * F - trq * trq) / (trq * trq)))
    else:
        rel = 1.0
    near_zero_trace = abs(float(trq)) < 1e-9 and trq != 0
    arr, guard = _give(task, M, "ball")
    try:
        impl = bool(in_separable_ball(arr))
        exc = None
        if _purity(res, "in_separable_ball", guard, arr, {"form": form, "n": n, "M": M, "pres": task.get("pres")}) is None:
            again = bool(in_separable_ball(arr))   # the SAME object again
            res.count("repeat-call/in_separable_ball")
            if again != impl or guard.modified() is not None:
                res.violation(f"in_separable_ball: a second call on the same object returns {again}, the first returned {impl}",
                              {"function": "in_separable_ball", "args": {"form": form, "n": n, "M": M, "pres": task.get("pres")}, "impl": [impl, again], "presentation": describe(arr), "check": "repeat"})
    except Exception as e:
        impl, exc = f"raise:{type(e).__name__}", f"{type(e).__name__}: {str(e)[:160]}"
    decided = rel >= MARGIN and not near_zero_trace
    res.case({"fn": "in_separable_ball", "form": form, "n": n, "M": digest(M)}, decided, f"ball/{form}/" + ("inside" if model else "outside") + ("" if decided else "/boundary"))
    if isinstance(impl, str) or (decided and impl != model):
        res.violation(f"in_separable_ball = {impl} but the exact decision is {model} (n={n}, relative margin {rel:.3g})",
                      {"function": "in_separable_ball", "args": {"form": form, "n": n, "ndim": int(np.asarray(M).ndim), "M": M, "pres": task.get("pres")}, "presentation": describe(arr), "impl": impl, "model": model, "exception": exc, "margin": rel, "theorem": "ball_exact"})


def check_symext_model(res, drv, arr, inst, level, form, ppt, out, branch, exc, tol=1e-4):
    """the deciding statement and verdict of has_symmetric_extension against the Lean model (hasSymExtModel), fed with the quantities toqito's own
    functions give; at the SDP statement the value handed to the model is 1, the optimum of the program the code evaluates (known finding)"""
    if drv is None or branch.startswith(("other:", "unrecognised:")) or branch in ("not-entered", "invalid-dim"):
        return
    from toqito.channels import partial_trace
    from toqito.matrix_props import is_positive_semidefinite
    from toqito.state_props import is_ppt
    dA, dB = inst["dA"], inst["dB"]
    N = dA * dB
    q = {"psd": False, "ppt": False, "purB": 0.0, "purRho": 0.0, "detRho": 0.0, "sdpVal": 1.0}
    try:
        q["psd"] = bool(is_positive_semidefinite(arr))
        q["ppt"] = bool(is_ppt(arr, 2, np.int_([dA, dB])))
        if (dA, dB) == (2, 2):
            q["purB"] = float(np.real(np.trace(np.linalg.matrix_power(partial_trace(arr, [0]), 2))))
            q["purRho"] = float(np.real(np.trace(np.linalg.matrix_power(arr, 2))))
            q["detRho"] = float(np.real(np.linalg.det(arr)))
    except Exception:
        res.count("symext-model/replica-raised")
        return
    dimj = {"none": None, "int": int(dA), "list": [dA, dB], "ndarray": [dA, dB]}[form]
    ans = drv.ask("c15_symext_decide", {"N": N, "level": int(level), "dim": dimj, "ppt": bool(ppt), "tol": frac_json(Fraction(tol)),
                                        "q": {k: (v if isinstance(v, bool) else frac_json(Fraction(float(v)))) for k, v in q.items()}})
    if "reject" in ans:
        raise InfraError(f"c15_symext_decide rejects a generated call: {ans}")
    if list(ans["dims"]) != [dA, dB]:
        raise InfraError(f"the model decodes dim form {form!r} as {ans['dims']}, generated on {[dA, dB]}")
    res.count(f"symext-model/{ans['branch']}/{ans['verdict']}")
    near = False
    if ans["branch"] == "analytic-2qubit":
        near = abs(q["purB"] - q["purRho"] + 4 * np.sqrt(max(q["detRho"], 0.0)) + tol) < 1e-9
    res.case({"fn": "has_symmetric_extension/model", "level": level, "dim_form": form, "ppt": ppt, "dA": dA, "dB": dB, "rho": digest(inst["rho"])}, not near,
             f"symext-model/{ans['branch']}")
    if ans["branch"] == branch and (ans["verdict"] == out or near):
        return
    if ans["branch"] == branch == "sdp":
        res.count("symext-model/sdp-value-not-1")   # the solver returned a value below 1 - tol: not a statement about the decision logic
        return
    res.violation(f"has_symmetric_extension(level={level}, dim={form}, ppt={ppt}) returned {out} at statement {branch}; the Lean model of its decision logic returns "
                  f"{ans['verdict']} at {ans['branch']} on {dA}x{dB}",
                  {"function": "has_symmetric_extension", "check": "decision-model", "args": {"dA": dA, "dB": dB, "level": level, "dim_form": form, "ppt": ppt, "family": inst["family"],
                                                                                               "k": inst.get("k"), "rho": inst["rho"], "pres": inst.get("pres")},
                   "impl": [out, branch], "model": [ans["verdict"], ans["branch"]], "quantities": q, "exception": exc, "branch": branch, "dA": dA, "dB": dB,
                   "separable_by_construction": bool(inst.get("sep")), "theorem": "hasSymExtModel (symext_shortcuts_accept_separable, symext_analytic_arithmetic, symext_sdp_branch_constant)"})


def work_symext(task, res: Result):
    warnings.filterwarnings("ignore")
    inst = task["inst"]
    drv = _drv(task)
    dA, dB, rho = inst["dA"], inst["dB"], inst["rho"]
    X = _X(inst)
    if inst.get("sep"):
        check_sepmix_exact(drv, inst, res)
    npt = False
    cert = None
    if not inst.get("sep"):
        cert = certify_lammin(drv, X, dA, dB, 2, Fraction(1, 10**8))
        npt = cert["hi"] is not None and float(cert["hi"]) <= -1e-6
    for level, form, ppt in task["calls"]:
        dim = {"none": None, "int": int(dA), "list": [dA, dB], "ndarray": np.array([dA, dB])}[form]
        arr, guard = _give(task, rho, "symext", level, form, ppt)
        out, branch, exc = observed_call("has_symmetric_extension", arr, level, dim, ppt)
        _purity(res, "has_symmetric_extension", guard, arr, {"dA": dA, "dB": dB, "level": level, "dim_form": form, "ppt": ppt, "rho": rho, "pres": task.get("pres")})
        res.count(f"symext-branch/{branch}/{out}")
        check_symext_model(res, drv, arr, inst, level, form, ppt, out, branch, exc)
        oracle = bool(inst.get("sep")) or (npt and ppt)
        res.case({"fn": "has_symmetric_extension", "level": level, "dim_form": form, "ppt": ppt, "dA": dA, "dB": dB, "family": inst["family"], "rho": digest(rho)}, oracle,
                 f"symext/{inst['family']}/{dA}x{dB}/level{level}")
        info = {"function": "has_symmetric_extension", "args": {"dA": dA, "dB": dB, "level": level, "dim_form": form, "ppt": ppt, "family": inst["family"], "k": inst.get("k"), "rho": rho, "pres": task.get("pres")},
                "presentation": describe(arr), "impl": out, "branch": branch, "exception": exc, "separable_by_construction": bool(inst.get("sep")), "dA": dA, "dB": dB}
        if inst.get("sep") and out is not True:
            res.violation(f"has_symmetric_extension(level={level}, dim={form}, ppt={ppt}) = {out} on a mixture of product states on {dA}x{dB} (branch {branch}; {exc})",
                          {**info, "model": True, "theorem": "sepMix_separable + separable_has_symmetric_extensions (a separable state has symmetric PPT extensions of every order)"})
        elif npt and ppt and out is not False:
            res.violation(f"has_symmetric_extension(level={level}, ppt=True) = {out} on a certified NPT state", {**info, "model": False, "certified_hi": float(cert["hi"]), "theorem": "negative_rayleigh_not_separable"})


def work_symext_witness(task, res: Result):
    """separable_has_symmetric_extensions in toqito's conventions: the explicit extension sum_i w_i/|b_i|^(2(level-1)) (a_i a_i^H) (x) (b_i b_i^H)^(x)level of an exact
    mixture of product states satisfies every constraint that symmetric_extension_hierarchy writes for its extension variable - evaluated with the same toqito
    functions and the same arguments (partial_trace(X, sys_list, dim_list) = rho, X >> 0, (1 (x) P_sym) X (1 (x) P_sym) = X, partial transposes of party 0 and of the
    copies sys + 2) - and additionally is PPT with respect to every other copy."""
    from toqito.channels import partial_trace, partial_transpose
    from toqito.perms import symmetric_projection
    warnings.filterwarnings("ignore")
    inst, level = task["inst"], task["level"]
    dA, dB, rho, terms = inst["dA"], inst["dB"], np.asarray(inst["rho"], dtype=complex), inst["terms"]
    check_sepmix_exact(_drv(task), inst, res)
    dim_list = [dA] + [dB] * level
    sigma = np.zeros((dA * dB ** level, dA * dB ** level), dtype=complex)
    for w, a, b in terms:
        nb = float(np.vdot(b, b).real)
        Pb = np.outer(b, np.conj(b))
        T = Pb
        for _ in range(level - 1):
            T = np.kron(T, Pb)
        sigma += float(w) / nb ** (level - 1) * np.kron(np.outer(a, np.conj(a)), T)
    sys_list = list(range(2, 2 + level - 1))
    sym = symmetric_projection(dB, level)
    sym = np.asarray(sym.todense() if hasattr(sym, "todense") else sym)
    K = np.kron(np.identity(dA), sym)
    scale = max(1.0, float(np.max(np.abs(rho))))
    fails = []
    red = np.asarray(partial_trace(sigma, sys_list, dim_list))
    if red.shape != rho.shape or float(np.max(np.abs(red - rho))) > 1e-12 * scale:
        fails.append("partial_trace(X, sys_list, dim_list) != rho")
    if float(np.max(np.abs(K @ sigma @ K - sigma))) > 1e-12 * scale:
        fails.append("(1 (x) P_sym) X (1 (x) P_sym) != X")
    if float(np.linalg.eigvalsh(herm(sigma))[0]) < -1e-12 * scale:
        fails.append("X is not PSD")
    for sys_ in [0] + list(range(1, level + 1)):
        Y = np.asarray(partial_transpose(sigma, [sys_], dim_list))
        if float(np.linalg.eigvalsh(herm(Y))[0]) < -1e-12 * scale:
            fails.append(f"partial_transpose(X, [{sys_}], dim_list) is not PSD")
    res.case({"fn": "symext_witness", "level": level, "dA": dA, "dB": dB, "rho": digest(rho)}, inst.get("k", 1) >= 2, f"symext-witness/{dA}x{dB}/level{level}")
    if fails:
        res.violation(f"the explicit symmetric extension (level {level}) of a mixture of product states on {dA}x{dB} violates constraints of the symmetric-extension search as "
                      f"toqito's functions evaluate them: {fails}",
                      {"function": "symext_witness", "args": {"dA": dA, "dB": dB, "level": level, "k": inst.get("k"), "rho": inst["rho"],
                                                               "terms": [[str(t[0]), [complex(x) for x in t[1]], [complex(x) for x in t[2]]] for t in terms]},
                       "impl": fails, "model": "all constraints hold", "theorem": "separable_has_symmetric_extensions"})


def strict_insts(rng):
    """rank-deficient / pure / boundary instances of the strict-fp stream: fixed ones first, seeded ones from the child generator handed in"""
    out = []
    for d in (2, 3, 4):
        for p in (Fraction(0), Fraction(1, d + 1), Fraction(1)):
            out.append({"family": "isotropic-end", "dA": d, "dB": d, "rho": gen_isotropic(d, p), "meta": {"p": str(p)}})
        for q in (Fraction(0), Fraction(1, 2), Fraction(1)):
            out.append({"family": "werner-end", "dA": d, "dB": d, "rho": gen_werner(d, q), "meta": {"q": str(q)}})
    for (dA, dB) in DIMS_ALL:
        e = np.zeros(dA * dB)
        e[0] = 1
        out.append({"family": "e0", "dA": dA, "dB": dB, "rho": np.outer(e, e)})
        out.append(dict(gen_sepmix(rng, dA, dB, 1, False, mix_id=(1, 1)), family="maxmixed"))
        for cplx in (False, True):
            out.append(dict(gen_sepmix(rng, dA, dB, 1, cplx), family="pure-product"))
            out.append(gen_sepmix(rng, dA, dB, 2, cplx))
        out.append({"family": "pure-entangled", "dA": dA, "dB": dB, "rho": gen_entangled_pure(rng, dA, dB, True)})
    return out


def work_strict(task, res: Result):
    """each verdict once in the default floating-point error state and once under StrictFP: same outcome"""
    from toqito.state_props import has_symmetric_extension, in_separable_ball, is_npt, is_ppt, is_separable
    warnings.filterwarnings("ignore")
    inst = task["inst"]
    rho, dA, dB, fam = inst["rho"], inst["dA"], inst["dB"], inst["family"]

    def both(name, fn, args, tag, default=None):
        if default is None:
            try:
                default = ("ok", bool(fn(*[a.copy() if isinstance(a, np.ndarray) else a for a in args])))
            except Exception as e:  # the outcome of the default state
                default = ("raise", type(e).__name__)
        st, v = strict_fp_call(fn, *[a.copy() if isinstance(a, np.ndarray) else a for a in args])
        strict = ("ok", bool(v)) if st == "ok" else ("raise", v.split(":")[0])
        res.case({"fn": name + "/strict-fp", "tag": tag, "dA": dA, "dB": dB, "rho": digest(rho)}, True, f"strict-fp/{name}")
        if strict != default:
            what = "value depends on NumPy's floating-point error state" if (st == "raise" and default[0] == "ok") else "outcome differs under StrictFP"
            res.violation(f"{name}: {what}: default state {default}, invalid/divide/overflow='raise' gives {(st, v)} ({fam} {dA}x{dB}, {tag})",
                          {"function": name, "kind": "strict-fp", "args": {"family": fam, "dA": dA, "dB": dB, "rho": rho, "call": tag, "meta": inst.get("meta")},
                           "impl": [list(default), [st, str(v)]], "model": "equal", "dA": dA, "dB": dB})

    for sys_ in (1, 2):
        both("is_ppt", is_ppt, (rho, sys_, [dA, dB]), f"sys={sys_}")
    both("is_npt", is_npt, (rho, 2, [dA, dB]), "sys=2")
    for tag, M in (("matrix", rho), ("eig", np.linalg.eigvalsh(rho)), ("zero", 0 * rho), ("scaled", rho * 1e-3)):
        both("in_separable_ball", in_separable_ball, (M,), tag)
    if dA * dB <= 6 or fam in ("e0", "pure-product", "pure-entangled"):
        out, branch, exc = observed_call("is_separable", rho.copy(), [dA, dB])
        if branch in EARLY_SEP:
            both("is_separable", is_separable, (rho, [dA, dB]), branch, default=("ok", out) if isinstance(out, bool) else ("raise", out.split(":")[1]))
        else:
            res.count(f"strict-fp/is_separable-skipped/{branch}")
    for level, ppt in ((1, True), (1, False), (2, True), (2, False)):
        if not (level == 1 or (dA * dB <= 6 and ppt) or (dA, dB) == (2, 2)):
            continue
        out, branch, exc = observed_call("has_symmetric_extension", rho.copy(), level, [dA, dB], ppt)
        if branch in ("analytic-2qubit", "level1-no-ppt", "ppt-shortcut"):
            both("has_symmetric_extension", has_symmetric_extension, (rho, level, [dA, dB], ppt), f"level={level},ppt={ppt},{branch}",
                 default=("ok", out) if isinstance(out, bool) else ("raise", out.split(":")[1]))
        else:
            res.count(f"strict-fp/symext-skipped/{branch}")


EARLY_SEP = ("ppt-reject", "ppt-sufficient", "realignment", "zhang", "2xn-spectrum", "2xn-hankel", "2xn-homothetic", "2xn-lemma1", "rank4-3x3", "ball", "rank1-perturbation",
             "op-schmidt-rank")
WORK = {"strict": work_strict, "ppt": work_ppt, "pt_tie": work_pt_tie, "sep": work_sep, "ball": work_ball, "symext": work_symext, "criteria": work_criteria, "choi_tie": work_choi_tie,
        "ha_probe": work_ha_probe, "symext_witness": work_symext_witness}


def work(task, res: Result):
    WORK[task["kind"]](task, res)


# ------------------------------------------------------------------------------------------------
# known findings (narrow predicates on the info of one specific failure)


def install_matchers(ctx):
    def exc_is(info, *names):
        e = info.get("exception") or ""
        return any(e.startswith(n) for n in names)

    ctx.matchers["c15-symext-sdp-constant-false"] = lambda info: (
        info.get("function") == "has_symmetric_extension" and info.get("separable_by_construction") is True and info.get("branch") == "sdp" and info.get("impl") is False)
    SUFFICIENT = {"ball", "rank1-perturbation", "op-schmidt-rank", "2xn-spectrum", "2xn-hankel", "2xn-homothetic", "2xn-lemma1", "rank4-3x3", "ppt-sufficient"}

    def late(v):
        return (v[0] is False and v[1] == "symext-final-false") or (v[0] == "raise:TypeError" and v[1] == "breuer-hall")

    def late_stage(info):
        if info.get("function") != "is_separable":
            return False
        if info.get("kind") == "invariance":
            # one member accepted by a sound sufficient criterion (so the state and its image are separable), the other decided by the late stage
            p = info.get("pair") or []
            return len(p) == 2 and any(p[i][0] is True and p[i][1] in SUFFICIENT and late(p[1 - i]) for i in (0, 1))
        return (info.get("separable_by_construction") is True and info.get("early_criteria_hold") == []
                and late((info.get("impl"), info.get("branch"))) and (info.get("impl") is False or exc_is(info, "TypeError")))

    ctx.matchers["c15-is-separable-late-stage"] = late_stage

# ------------------------------------------------------------------------------------------------
# run


def corpus(rng):
    """past failures and corner cases first"""
    out = []
    for d in (3, 4):  # classically correlated diagonal states: separable, not caught by the early criteria
        k = 3
        terms = []
        for i in range(k):
            e = np.zeros(d, dtype=complex)
            e[i] = 1
            terms.append((Fraction(1, k), e, e.copy()))
        rho = sum(float(t[0]) * np.kron(np.outer(t[1], t[1].conj()), np.outer(t[2], t[2].conj())) for t in terms).real.astype(float)
        out.append({"family": "sepmix", "dA": d, "dB": d, "rho": herm(rho).real.astype(float), "sep": True, "terms": terms, "k": k, "cplx": False, "mix_id": None, "scale": 1.0})
    for (dA, dB) in ((2, 4), (3, 3), (4, 2)):  # maximally mixed
        out.append(gen_sepmix(rng, dA, dB, 1, False, mix_id=(1, 1)))
    # rank-4 states on 3x3 (determinant criterion), pure product state (rank-one perturbation test)
    out.append(gen_sepmix(rng, 3, 3, 4, False))
    out.append(gen_sepmix(rng, 3, 3, 4, True))
    out.append(gen_sepmix(rng, 3, 3, 1, True))
    out.append(gen_sepmix(rng, 4, 4, 1, False))
    return out


def corpus_ppt_entangled():
    """PPT entangled states (no separability oracle: only invariance of the verdict is demanded) that exercise the
    realignment-type criteria"""
    from toqito.states import horodecki, tile
    rho = np.identity(9)
    for i in range(5):
        rho = rho - tile(i) @ tile(i).conj().T
    out = [{"family": "bound-entangled", "dA": 3, "dB": 3, "rho": herm(rho / 4).real.astype(float), "sep": None, "terms": None, "cplx": False, "meta": {"name": "tiles"}}]
    out.append({"family": "bound-entangled", "dA": 3, "dB": 3, "rho": herm(horodecki(0.5, [3, 3])).real.astype(float), "sep": None, "terms": None, "cplx": False, "meta": {"name": "horodecki(1/2)"}})
    out.append({"family": "bound-entangled", "dA": 2, "dB": 4, "rho": herm(horodecki(0.5, [2, 4])).real.astype(float), "sep": None, "terms": None, "cplx": False, "meta": {"name": "horodecki(1/2) 2x4"}})
    return out


def run(ctx, model_ok=True):
    rng = ctx.rng
    quick = ctx.tier == "quick"
    install_matchers(ctx)
    tasks = []
    T = lambda kind, **kw: tasks.append(dict(kind=kind, model_ok=model_ok, **kw))

    # ---- (i) is_ppt / is_npt
    n_ppt = 90 if quick else 900
    fams = ["sepmix", "isotropic", "werner", "random", "random_mixed", "ppt_plus_ent", "threshold", "threshold", "threshold"]
    for i in range(n_ppt):
        fam = fams[i % len(fams)]
        dA, dB = pick_dims(rng, square=fam in ("isotropic", "werner"))
        if fam == "sepmix":
            inst = gen_sepmix(rng, dA, dB, int(rng.integers(1, 9)), bool(rng.integers(2)), mix_id=[None, None, (1, 2), (15, 16)][int(rng.integers(4))])
        else:
            inst = gen_state(rng, fam, dA, dB)
        forms = ["list", "ndarray", "float", "list1", "int"] + (["none"] if dA == dB else [])
        calls = []
        for sys_ in (1, 2):
            calls.append((sys_, forms[int(rng.integers(len(forms)))], [None, None, 1e-10, 1e-6, 1e-3][int(rng.integers(5))]))
        calls.append((2, "list", None))
        if dA != dB:
            # every documented form of the dim argument on unequal dimensions, by index (no draw): scalar dA (int / float), [dA], ndarray
            calls.append((1 + i % 2, ["int", "float", "list1", "ndarray"][i % 4], None))
        if fam == "threshold":
            calls += [(int(rng.integers(1, 3)), "list", t) for t in (1e-10, 1e-6, 1e-3, 0.0)]   # tol = 0 is a tolerance too (falsy in Python)
        T("ppt", inst=inst, calls=calls)
        if i % 6 == 0:
            T("pt_tie", inst=inst)

    # ---- (ii) is_separable
    sep_insts = corpus(rng) + corpus_ppt_entangled()
    n_small = 40 if quick else 400   # dA*dB <= 6
    n_mid = 24 if quick else 240     # unequal dims with dA*dB > 6
    n_33 = 12 if quick else 200      # 3x3 (SDP stage reachable: slow)
    n_44 = 6 if quick else 60
    plan = ([[(2, 2), (2, 3), (3, 2)][i % 3] for i in range(n_small)] + [[(2, 4), (4, 2), (3, 4), (4, 3)][i % 4] for i in range(n_mid)]
            + [(3, 3)] * n_33 + [(4, 4)] * n_44)
    for i, (dA, dB) in enumerate(plan):
        r = int(rng.integers(10))
        if r < 6:
            k = int(rng.integers(1, 9))
            mix = [None, None, None, (1, 2), (7, 8), (63, 64)][int(rng.integers(6))]
            sep_insts.append(gen_sepmix(rng, dA, dB, k, bool(rng.integers(2)), mix_id=mix, scale=float(rng.choice([1.0, 1.0, 4.0, 0.25]))))
        elif r < 8:
            sep_insts.append(gen_state(rng, ["ppt_plus_ent", "random", "threshold", "isotropic" if dA == dB else "random", "werner" if dA == dB else "ppt_plus_ent"][int(rng.integers(5))], dA, dB))
        else:
            sep_insts.append(gen_state(rng, "random_mixed", dA, dB))
    # pure product states (1-term mixtures) on dA*dB > 6: they sit exactly on the boundary of the realignment and Zhang criteria
    for (dA, dB) in [(3, 3), (2, 4), (4, 2), (3, 4), (4, 4)] * (2 if quick else 12):
        sep_insts.append(gen_sepmix(rng, dA, dB, 1, bool(rng.integers(2))))
    # the later 2xn statements (homothetic image, Lemma 1) with either party the qubit, and the statements only PPT entangled states reach
    for i in range(12 if quick else 120):
        sep_insts.append(gen_2xn_block(rng, 4, i % 2 == 0, ["lemma1", "homothetic", "homothetic-tight"][(i // 2) % 3], eps=[Fraction(1, 16), Fraction(1, 64)][(i // 6) % 2]))
    sep_insts += corpus_thresholds() + corpus_cascade()
    for j, inst in enumerate(sep_insts):
        dA, dB = inst["dA"], inst["dB"]
        forms = ["list"]
        if j % 3 == 0:
            forms.append("int")
        if j % 3 == 1 and (dA == dB or (dA, dB) == (2, 3)):
            forms.append("none")
        kw = {}
        heavy = (dA, dB) in ((3, 3), (4, 4))
        if inst["family"] == "cascade-corpus":
            pass   # decision logic only: the images under local unitaries leave the early statements and reach the SDP stage
        elif (j % 2 == 0 and not heavy) or (heavy and j % (6 if quick else 3) == 0) or inst["family"] == "bound-entangled":
            cplx = bool(inst.get("cplx"))
            U = qgen.cayley_unitary(rng, dA, cplx)
            V = qgen.cayley_unitary(rng, dB, cplx)
            if not cplx:
                U, V = np.real(U), np.real(V)
            kw = {"U": U, "V": V, "variants": ["local-unitary", "swap"] if not (heavy and quick) else [["local-unitary"], ["swap"]][j % 2]}
        T("sep", inst=inst, forms=forms if not heavy else ["list"], **kw)

    # ---- (iii) in_separable_ball
    n_ball = 80 if quick else 800
    for i in range(n_ball):
        n = int(rng.choice([4, 6, 8, 9, 12, 16, 3, 5, 2]))
        cplx = bool(rng.integers(2))
        kind = i % 5
        sigma = qgen.rand_density(rng, n, int(rng.integers(1, n + 1)), cplx)
        dev = sigma - np.eye(n) / n
        nd = float(np.linalg.norm(dev, "fro"))
        if nd < 1e-9:      # the drawn state is the maximally mixed one: take a fixed traceless direction instead of dividing by zero
            dev = np.zeros((n, n), dtype=sigma.dtype)
            dev[0, 0], dev[n - 1, n - 1] = 0.5, -0.5
            nd = float(np.linalg.norm(dev, "fro"))
        r_ball = 1.0 / np.sqrt(n * (n - 1))
        fac = [0.5, 0.999999, 1.000001, 2.0, 1 - 1e-12][kind]  # inside / just inside / just outside / outside / boundary (not demanded)
        rho = herm(np.eye(n) / n + dev * (fac * r_ball / nd))
        if not cplx:
            rho = rho.real.astype(float)
        sc = float(rng.choice([1.0, 1.0, 3.5, 0.125, 1e-3, 250.0]))
        if i % 4 == 3:
            lam = np.linalg.eigvalsh(rho) * sc
            shape = [(-1,), (-1, 1), (1, -1)][int(rng.integers(3))]
            T("ball", M=np.asarray(lam).reshape(shape), form="eig")
        else:
            T("ball", M=rho * sc, form="matrix")
    for M in (np.zeros((4, 4)), -np.eye(4), np.diag([1.0, -1.0, 0.0, 0.0]), np.diag([3.0, 1.0, 1.0, 1.0]) / 6, np.eye(9) / 9, np.diag([1.0, 0, 0, 0])):
        T("ball", M=M, form="matrix")

    # ---- (iv) has_symmetric_extension
    n_sx = 26 if quick else 200
    sx_dims = [(2, 2), (2, 3), (3, 2), (2, 2), (3, 3), (2, 4), (2, 2), (3, 3), (4, 2), (2, 3)]
    n_sdp = 0
    for i in range(n_sx):
        dA, dB = sx_dims[i % len(sx_dims)]
        sepflag = i % 4 != 3
        if sepflag:
            inst = gen_sepmix(rng, dA, dB, int(rng.integers(1, 8)) if (dA, dB) != (2, 2) else int(rng.integers(2, 8)), bool(rng.integers(2)), mix_id=[None, (1, 2)][int(rng.integers(2))])
        else:
            inst = gen_state(rng, ["threshold", "ppt_plus_ent", "isotropic" if dA == dB else "random", "werner" if dA == dB else "random"][int(rng.integers(4))], dA, dB)
        forms = ["list", "int", "ndarray"] + (["none"] if dA == dB else [])
        calls = [(1, forms[int(rng.integers(len(forms)))], True)]
        sdp = dA * dB > 6
        if not sdp or (n_sdp < (5 if quick else 60)) or (not sepflag):
            calls.append((2, forms[int(rng.integers(len(forms)))], True))
            n_sdp += int(sdp)
        if (dA, dB) == (2, 2):
            calls.append((2, "list", False))
            calls.append((1, "none", False))
        if dA != dB and (1, ["int", "ndarray", "list"][i % 3], True) not in calls:
            calls.append((1, ["int", "ndarray", "list"][i % 3], True))   # scalar dA / ndarray / list on unequal dimensions, by index (no draw)
        T("symext", inst=inst, calls=calls)
    for inst in corpus(rng)[:1] + [gen_sepmix(rng, 3, 3, 1, False, mix_id=(1, 1))]:
        T("symext", inst=inst, calls=[(2, "none", True), (1, "none", True)])
    # rank-deficient two-qubit mixtures (2-3 terms: singular, det = 0 up to rounding) through the analytic ppt=False formula (past failure: sqrt of a
    # determinant that came out as -1e-35).  Pure product states sit exactly on the boundary of that formula and are not generated.
    past = np.array([[.065, -.175, .055, -.125], [-.175, .485, -.125, .295], [.055, -.125, .085, -.175], [-.125, .295, -.175, .365]])
    T("symext", inst={"family": "sepmix", "dA": 2, "dB": 2, "rho": herm(past).real.astype(float), "sep": True, "terms": None, "k": 2, "cplx": False}, calls=[(2, "list", False), (2, "none", False)])
    for k in (2, 2, 3, 3) if quick else (2, 3) * 20:
        T("symext", inst=gen_sepmix(rng, 2, 2, k, bool(rng.integers(2))), calls=[(2, ["list", "none", "int"][int(rng.integers(3))], False)])

    # explicit symmetric extensions of exact product mixtures against the constraint expressions of the hierarchy (levels 2 and 3)
    for i, ((dA, dB), level) in enumerate([((2, 2), 2), ((2, 3), 2), ((3, 2), 2), ((3, 3), 2), ((2, 2), 3), ((2, 3), 3), ((3, 2), 3), ((4, 2), 2), ((2, 4), 2), ((3, 3), 2)]
                                          * (1 if quick else 6)):
        T("symext_witness", inst=gen_sepmix(rng, dA, dB, 1 + i % 5, bool(i % 2)), level=level)

    # ---- (v) necessary criteria of the cascade: ties of realignment / partial_trace / partial_channel to the exact model, and the criteria quantities on
    #          separable-by-construction inputs (drawn after all other streams)
    crit_insts = [inst for j, inst in enumerate(sep_insts) if inst.get("sep") or j % 3 == 0]
    crit_dims = [(3, 3), (2, 4), (4, 4), (3, 4), (4, 2), (3, 3), (2, 2), (4, 3), (3, 2), (2, 3)]
    for i in range(30 if quick else 400):
        dA, dB = crit_dims[i % len(crit_dims)]
        k = [1, 2, 3, 5, 8][i % 5] if i % 7 else int(rng.integers(1, 9))
        crit_insts.append(gen_sepmix(rng, dA, dB, k, bool(rng.integers(2)), mix_id=[None, None, None, (1, 8)][int(rng.integers(4))], scale=float(rng.choice([1.0, 1.0, 4.0, 0.25]))))
    for inst in crit_insts:
        T("criteria", inst=inst, ha_idx=int(rng.integers(19)))
    for i in range(24 if quick else 300):
        dA, dB = DIMS_ALL[int(rng.integers(len(DIMS_ALL)))]
        sys_ = 1 + i % 2
        d_in = dA if sys_ == 1 else dB
        dO = d_in if i % 3 == 0 else int(rng.integers(1, 5))
        cplx = bool(i % 4)
        Xi = rng.integers(-7, 8, (dA * dB, dA * dB)) + (1j * rng.integers(-7, 8, (dA * dB, dA * dB)) if cplx else 0)
        Ji = rng.integers(-5, 6, (d_in * dO, d_in * dO)) + (1j * rng.integers(-5, 6, (d_in * dO, d_in * dO)) if cplx else 0)
        T("choi_tie", dA=dA, dB=dB, dO=dO, sys=sys_, X=np.asarray(Xi), J=np.asarray(Ji))
    om = np.exp(2j * np.pi / 3)
    vecs = [np.array(v, dtype=complex) for v in ([1, 0, 0], [0, 1, 0], [0, 0, 1], [1, 1, 1], [1, om, om ** 2], [1, 1, 0], [1, 0, 1j], [0, 1, -1])]
    vecs += [qgen.int_vector(rng, 3, True, 5) for _ in range(8 if quick else 200)]
    T("ha_probe", vecs=vecs)

    # heavy tasks first so that the pool drains evenly
    def weight(t):
        if t["kind"] == "sep":
            return {(3, 3): 3, (4, 4): 4}.get((t["inst"]["dA"], t["inst"]["dB"]), 0) * (3 if t.get("U") is not None else 1)
        if t["kind"] == "symext":
            return 2 if t["inst"]["dA"] * t["inst"]["dB"] > 6 else 0
        return 0
    prs = rng.spawn(1)[0]   # presentation stream: a child of the seeded generator (spawning does not consume the parent's draws)
    for t in tasks:
        t["pres"] = int(prs.integers(1, 2 ** 31))
    # ---- (vi) strict-fp stream (second child of the seeded generator: the streams above and the presentation stream do not shift)
    for inst in strict_insts(rng.spawn(1)[0]):
        T("strict", inst=inst)
    tasks.sort(key=lambda t: -weight(t))
    run_pool(ctx, work, tasks)
    br = {k: v for k, v in ctx.hist.items() if k.startswith("is_separable-branch/")}
    ctx.extra["is_separable_deciding_statements"] = br
    ctx.extra["has_symmetric_extension_deciding_statements"] = {k: v for k, v in ctx.hist.items() if k.startswith("symext-branch/")}
    ctx.extra["margins"] = {"lambda_min_vs_tol": MARGIN, "is_separable_npt": 1e-6, "ball_relative": MARGIN, "criteria_slack": CRIT_SLACK}
    ctx.extra["necessary_criterion_branch_theorems"] = dict(NECESSARY_THEOREMS, **{"rank4-3x3": "cited (Chen-Djokovic)", "symext-final-false": "known finding c15-is-separable-late-stage"})
    ctx.extra["cascade_model_statements"] = {k: v for k, v in ctx.hist.items() if k.startswith(("cascade-model/", "symext-model/"))}
    modelled = ["ppt-reject", "ppt-sufficient", "realignment", "zhang", "2xn-spectrum", "2xn-hankel", "2xn-homothetic", "2xn-lemma1", "rank4-3x3", "ball", "rank1-perturbation",
                "op-schmidt-rank", "ha-maps-3x3"]
    want = [(b, v) for b in modelled for v in ((False,) if b in ("ppt-reject", "realignment", "zhang", "ha-maps-3x3") else (True, False) if b == "rank4-3x3" else (True,))]
    missing = [f"{b}/{v}" for b, v in want if not ctx.hist.get(f"is_separable-branch/{b}/{v}")]
    ctx.extra["cascade_statements_not_reached"] = missing
    if missing:
        ctx.note("statements of the modelled cascade that decided no call in this run: " + ", ".join(missing))
    reachable = sorted({k.split("/")[1] for k in br})
    ctx.note("is_separable statements that decided at least one call: " + ", ".join(reachable))


def _arr(x):
    def cv(e):
        return complex(e["re"], e["im"]) if isinstance(e, dict) else e
    a = np.array([[cv(e) for e in row] if isinstance(row, list) else cv(row) for row in x])
    if np.iscomplexobj(a) and np.max(np.abs(a.imag)) == 0:
        a = a.real.astype(float)
    return a


def replay(ctx, rec):
    install_matchers(ctx)
    a = rec["args"]
    fn = rec["function"]
    res = Result()
    if rec.get("kind") == "strict-fp":
        work_strict({"inst": {"family": a.get("family", "replay"), "dA": a["dA"], "dB": a["dB"], "rho": _arr(a["rho"]), "meta": a.get("meta")}, "model_ok": True}, res)
    elif fn in ("is_ppt", "is_npt"):
        inst = {"family": a.get("family", "replay"), "dA": a["dA"], "dB": a["dB"], "rho": _arr(a["rho"]), "sep": None, "terms": None, "cplx": True, "meta": a.get("meta")}
        work_ppt({"inst": inst, "calls": [(a["sys"], a["dim_form"], a["tol"])], "model_ok": True, "pres": a.get("pres")}, res)
    elif fn == "is_separable" and rec.get("kind") == "invariance":
        warnings.filterwarnings("ignore")
        b0, d0 = _arr(rec["base_rho"]), rec["base_dims"]
        o1, br1, _ = observed_call("is_separable", b0, list(d0))
        o2, br2, e2 = observed_call("is_separable", _arr(a["rho"]), [a["dA"], a["dB"]])
        res.case({"fn": "is_separable/replay-invariance", "rho": digest(b0)}, True, "invariance/replay")
        if o1 != o2:
            res.violation(f"is_separable verdict not invariant under {a.get('variant')}: {o1} ({br1}) vs {o2} ({br2})",
                          {"function": "is_separable", "kind": "invariance", "pair": [[o1, br1], [o2, br2]], "args": a, "impl": [o1, o2], "branch": br2, "exception": e2,
                           "base_rho": b0, "base_dims": d0, "dA": a["dA"], "dB": a["dB"], "model": "equal", "theorem": "sep_local_unitary_iff / sep_swap_closed"})
    elif fn == "is_separable":
        inst = {"family": a.get("family", "replay"), "dA": a["dA"], "dB": a["dB"], "rho": _arr(a["rho"]), "sep": rec.get("separable_by_construction"), "terms": None, "cplx": True,
                "k": a.get("k"), "meta": a.get("meta")}
        work_sep({"inst": inst, "forms": [a["dim_form"] if a.get("dim_form") in ("list", "int", "none") else "list"], "model_ok": True, "pres": a.get("pres")}, res)
    elif fn == "has_symmetric_extension":
        inst = {"family": a.get("family", "replay"), "dA": a["dA"], "dB": a["dB"], "rho": _arr(a["rho"]), "sep": rec.get("separable_by_construction"), "terms": None, "cplx": True, "k": a.get("k")}
        work_symext({"inst": inst, "calls": [(a["level"], a["dim_form"], a["ppt"])], "model_ok": True, "pres": a.get("pres")}, res)
    elif fn == "in_separable_ball":
        work_ball({"M": _arr(a["M"]) if a["form"] == "matrix" else np.asarray(_arr(a["M"])), "form": a["form"], "model_ok": True, "pres": a.get("pres")}, res)
    elif fn in ("partial_transpose", "swap"):
        inst = {"family": "replay", "dA": a["dA"], "dB": a["dB"], "rho": _arr(a["rho"]), "sep": None, "terms": None, "cplx": True}
        work_pt_tie({"inst": inst, "model_ok": True, "pres": a.get("pres")}, res)
    elif fn in ("necessary_criteria", "realignment", "partial_trace"):
        inst = {"family": a.get("family", "replay"), "dA": a["dA"], "dB": a["dB"], "rho": _arr(a["rho"]), "sep": rec.get("separable_by_construction"), "terms": None, "cplx": True,
                "k": a.get("k") or 2, "meta": a.get("meta")}
        work_criteria({"inst": inst, "ha_idx": a.get("ha_idx", 0), "model_ok": True, "pres": a.get("pres")}, res)
    elif fn == "partial_channel":
        work_choi_tie({"dA": a["dA"], "dB": a["dB"], "dO": a["dO"], "sys": a["sys"], "X": _arr(a["X"]), "J": _arr(a["J"]), "model_ok": True, "pres": a.get("pres")}, res)
    elif fn == "symext_witness":
        cx = lambda e: complex(e["re"], e["im"]) if isinstance(e, dict) else complex(e)
        terms = [(Fraction(t[0]), np.array([cx(x) for x in t[1]]), np.array([cx(x) for x in t[2]])) for t in a["terms"]]
        inst = {"family": "sepmix", "dA": a["dA"], "dB": a["dB"], "rho": _arr(a["rho"]), "sep": True, "terms": terms, "k": a.get("k"), "cplx": True, "scale": 1.0}
        work_symext_witness({"inst": inst, "level": a["level"], "model_ok": True}, res)
    elif fn == "ha_probe":
        work_ha_probe({"vecs": [np.asarray(_arr([v]))[0] for v in a["vecs"]], "model_ok": True}, res)
    else:
        raise InfraError(f"cannot replay function {fn}")
    fold(ctx, res)
