"""C03: partial_transpose and realignment against the Lean mirror models (labelled inputs: pure gathers)."""
from __future__ import annotations

import itertools

import numpy as np

from toqito.channels import partial_transpose, realignment

from .. import gen
from ..exact import NotExact, call, present, split_int, strict_fp_call
from .c02 import VAR_KINDS_RECT, VAR_KINDS_SQUARE, determine_variable_branch

RULE = ("configurations (row/column dims, subset S and its form, dim argument form, dtype, numeric or cvxpy Variable) from the seeded generator, "
        "all subsets for small dims (thorough); inputs arange-labelled so equality of outputs is equality of index maps; the cvxpy Variable branch "
        "(real / complex / symmetric / hermitian / PSD, square and rectangular) is determined completely by evaluating the returned expression on a "
        "basis of the variable's domain and compared with the Lean model run on the free expression type; raw argument forms (omitted / scalar / "
        "one-element / vector / two-row dim, None / int / list sys incl. repeated, negative, out-of-range entries, wrong products; realignment: "
        "omitted / int / [a,b] / two-row) are decoded by the Lean model and acceptance as well as the result must agree; non-trivial = some "
        "transposed and some untouched subsystem with dimension > 1 (pt), both local dims > 1 (realignment); distinct = configuration hash; "
        "strict-fp stream (fixed configurations first, then seeded ones from a fresh child of the seeded generator spawned after all other streams; one seed per case): partial_transpose "
        "(dim omitted / scalar / list / two-row, sys None / int / list) and realignment (dim omitted / int / pair / two-row) on all-zero, rank-one (v w^H, Gaussian integers) and "
        "labelled inputs, real and complex, square and rectangular, evaluated once in NumPy's default floating-point error state and once with invalid / divide / overflow set to raise "
        "(harness.exact.strict_fp_call): same outcome, same dtype, bitwise equal arrays; the input must be untouched")
ASSUMPTIONS = ["NumPy data-movement primitives are dtype-parametric"]


def _label(R, C, dtype):
    a = np.arange(R * C).reshape(R, C)
    if dtype == "complex128":
        # imaginary part 2k+1 != 0: a stray conjugation (or a dropped imaginary part) changes the labels
        return a.astype(np.complex128) + 1j * (2 * a + 1)
    return a.astype(object) if dtype == "object" else a.astype(dtype)


def check_pt(ctx, rd, cd, sys_arg, dim_form, dtype, variable=False):
    R, C = int(np.prod(rd)), int(np.prod(cd))
    X = _label(R, C, dtype)
    if dim_form == "list":
        dim_py = list(rd)
        dim_js = list(rd)
    elif dim_form == "array":
        dim_py = np.array(rd)
        dim_js = list(rd)
    elif dim_form == "two":
        dim_py = [list(rd), list(cd)]
        dim_js = [list(rd), list(cd)]
    elif dim_form == "two_array":
        dim_py = np.array([list(rd), list(cd)])
        dim_js = [list(rd), list(cd)]
    elif dim_form == "list1":
        dim_py = [int(rd[0])]
        dim_js = [int(rd[0])]
    elif dim_form == "scalar":
        dim_py = int(rd[0])
        dim_js = int(rd[0])
    else:
        dim_py, dim_js = None, None
    if isinstance(sys_arg, np.ndarray):
        sys_js = [int(x) for x in sys_arg]
    else:
        sys_js = sys_arg
    if variable:
        import cvxpy
        V = cvxpy.Variable((R, C))
        V.value = X.astype(float)
        impl = call(partial_transpose, V, sys_arg, dim_py)
        if impl[0] == "ok":
            impl = ("ok", np.asarray(impl[1].value))
    else:
        dim_before = np.array(dim_py, copy=True) if isinstance(dim_py, np.ndarray) else None
        sys_before = np.array(sys_arg, copy=True) if isinstance(sys_arg, np.ndarray) else None
        impl = call(partial_transpose, present(ctx.rng, X, allow_dtype=False), sys_arg, dim_py)
        if (dim_before is not None and not np.array_equal(dim_before, dim_py)) or (sys_before is not None and not np.array_equal(sys_before, sys_arg)):
            ctx.violation("partial_transpose: the caller's dim / sys array was modified in place (the same call repeated then means something else)",
                          {"function": "partial_transpose", "args": {"rd": rd, "cd": cd, "dim_form": dim_form, "dim_before": None if dim_before is None else dim_before.tolist(),
                                                                     "dim_after": np.asarray(dim_py).tolist() if dim_before is not None else None}, "check": "purity"})
            if dim_before is not None:
                dim_py[...] = dim_before
    desc = {"fn": "partial_transpose", "rd": rd, "cd": cd, "sys": sys_js, "sys_form": type(sys_arg).__name__, "dim_form": dim_form, "dtype": dtype, "variable": variable}
    sl = [sys_js] if isinstance(sys_js, int) else ([1] if sys_js is None else list(sys_js))
    n = len(rd)
    try:
        nontriv = any(rd[s] * cd[s] > 1 for s in sl) and any(rd[k] * cd[k] > 1 for k in range(n) if k not in sl) and R * C > 4
    except IndexError:
        nontriv = False
    ctx.case(desc, nontriv, f"pt/{dim_form}/{'var' if variable else dtype}/sys={type(sys_arg).__name__}/{'square' if rd == cd else 'rect'}")
    model = ctx.lean().ask("partial_transpose", {"rows": R, "cols": C, "data": list(range(R * C)), "sys": sys_js, "dim": dim_js})
    ok = compare(ctx, "partial_transpose", desc, impl, model, "pT_eq_spec")
    # linearity at small and large scale (pT_linear): the operator times a power of two gives the result times that power, entry for entry;
    # and a nearly Hermitian operator (Hermitian part of norm ~1e2 plus an anti-Hermitian part of size 2^-40) is not treated as Hermitian
    if ok and impl[0] == "ok" and not variable and dtype in ("float64", "complex128") and ctx.evaluations % 4 == 0:
        Xf = np.asarray(X)
        for kexp in (-40, -55, 30):
            sc = 2.0 ** kexp
            outs = call(partial_transpose, Xf * sc, sys_arg, dim_py)
            ctx.count(f"pt/scaled/2^{kexp}")
            if outs[0] != "ok" or not np.array_equal(np.asarray(outs[1]), np.asarray(impl[1]) * sc):
                ctx.violation(f"partial_transpose: the operator scaled by 2^{kexp} does not give the result scaled by 2^{kexp}",
                              {"function": "partial_transpose", "args": dict(desc, scale_exp=kexp), "theorem": "pT_linear"})
                return False
        if R == C:
            H = (Xf + Xf.conj().T).astype(complex if np.iscomplexobj(Xf) else float)
            eps = 2.0 ** -40
            near = H + eps * (Xf - Xf.conj().T)              # exact in floating point: entries are small integers and multiples of 2^-40
            o1, o2, o3 = call(partial_transpose, near, sys_arg, dim_py), call(partial_transpose, H, sys_arg, dim_py), call(partial_transpose, Xf - Xf.conj().T, sys_arg, dim_py)
            ctx.count("pt/nearly-hermitian")
            if not (o1[0] == o2[0] == o3[0] == "ok") or not np.array_equal(np.asarray(o1[1]), np.asarray(o2[1]) + eps * np.asarray(o3[1])):
                ctx.violation("partial_transpose is not additive on H + 2^-40 K (H Hermitian, K anti-Hermitian): a nearly Hermitian operator is handled as a Hermitian one",
                              {"function": "partial_transpose", "args": dict(desc, check="nearly-hermitian"), "theorem": "pT_linear"})
                return False
    return ok


def compare(ctx, what, desc, impl, model, thm):
    if "reject" in model:
        ctx.count("model-rejects/" + model["reject"])
        if impl[0] != "ok":
            return True
        return not ctx.violation(f"{what}: model rejects ({model['reject']}) but implementation returns", {"function": what, "args": desc, "theorem": "pT_args_two / realign_args_two"})
    if impl[0] != "ok":
        return not ctx.violation(f"{what}: implementation {impl[0]} ({impl[1]}) on a valid call", {"function": what, "args": desc, "theorem": thm})
    try:
        shape, re, im = split_int(impl[1])
    except NotExact as e:
        return not ctx.violation(f"{what}: output is not a rearrangement of the labels ({e})", {"function": what, "args": desc})
    cplx_label = desc.get("dtype") == "complex128" and not desc.get("variable")
    im_ok = (im == [2 * r + 1 for r in re]) if cplx_label else not any(im)
    if re != model["data"] or not im_ok or shape != model["shape"]:
        bad = [i for i, (a, b) in enumerate(zip(re, model["data"])) if a != b][:5]
        if re == model["data"] and not im_ok:
            return not ctx.violation(f"{what}: entries are moved to the right places but their values are changed (imaginary parts differ: conjugated or dropped)",
                                     {"function": what, "args": desc, "impl_re": re[:32], "impl_im": im[:32], "theorem": thm})
        return not ctx.violation(f"{what}: output differs from the stated index exchange (shape {shape} vs {model['shape']}, first differing flat positions {bad})",
                                 {"function": what, "args": desc, "impl": re[:64], "model": model["data"][:64], "impl_shape": shape, "model_shape": model["shape"], "theorem": thm})
    return True


def check_realign(ctx, r0, r1, c0, c1, dim_form, dtype):
    R, C = r0 * r1, c0 * c1
    X = _label(R, C, dtype)
    if dim_form == "two":
        dim_py = [[r0, r1], [c0, c1]]
    elif dim_form == "list":
        dim_py = [r0, r1]
    elif dim_form == "scalar":
        dim_py = int(r0)
    else:
        dim_py = None
    impl = call(realignment, present(ctx.rng, X, allow_dtype=False), dim_py)
    desc = {"fn": "realignment", "rdim": [r0, r1], "cdim": [c0, c1], "dim_form": dim_form, "dtype": dtype}
    ctx.case(desc, min(r0, r1, c0, c1) > 1, f"realign/{dim_form}/{'square' if (r0, r1) == (c0, c1) else 'rect'}")
    model = ctx.lean().ask("realignment", {"rows": R, "cols": C, "data": list(range(R * C)), "dim": dim_py})
    ok = compare(ctx, "realignment", desc, impl, model, "realign_eq_spec")
    if ok and impl[0] == "ok":
        # product form on the implementation side: R(A (x) B) = vec_r(A) vec_r(B)^T (exact integers)
        A = ctx.rng.integers(-9, 10, size=(r0, c0)).astype(float)
        B = ctx.rng.integers(-9, 10, size=(r1, c1)).astype(float)
        out = call(realignment, np.kron(A, B), dim_py)
        if out[0] != "ok" or not np.array_equal(out[1], np.outer(A.reshape(-1), B.reshape(-1))):
            ctx.violation("realignment(A (x) B) differs from vec(A) vec(B)^T", {"function": "realignment", "args": desc, "A": A, "B": B, "theorem": "realign_kron"})
        outs = call(realignment, np.kron(A, B) * 2.0 ** -40, dim_py)      # linear: also at norm 1e-10
        if outs[0] != "ok" or not np.array_equal(outs[1], np.outer(A.reshape(-1), B.reshape(-1)) * 2.0 ** -40):
            ctx.violation("realignment(2^-40 A (x) B) differs from 2^-40 vec(A) vec(B)^T", {"function": "realignment", "args": dict(desc, scale_exp=-40), "A": A, "B": B, "theorem": "realign_linear"})
    return ok


def check_pt_var(ctx, rd, cd, sys_arg, dim_form, kind):
    """cvxpy Variable branch of partial_transpose, determined completely on a basis of the variable's domain"""
    R, C = int(np.prod(rd)), int(np.prod(cd))
    if dim_form == "list":
        dim_py = dim_js = list(rd)
    elif dim_form == "two":
        dim_py = dim_js = [list(rd), list(cd)]
    elif dim_form == "two_array":
        dim_py, dim_js = np.array([list(rd), list(cd)]), [list(rd), list(cd)]
    elif dim_form == "scalar":
        dim_py = dim_js = int(rd[0])
    else:
        dim_py = dim_js = None
    sys_js = [int(x) for x in sys_arg] if isinstance(sys_arg, np.ndarray) else sys_arg
    desc = {"fn": "partial_transpose_var", "rd": rd, "cd": cd, "sys": sys_js, "sys_form": type(sys_arg).__name__, "dim_form": dim_form, "kind": kind}
    sl = [sys_js] if isinstance(sys_js, int) else ([1] if sys_js is None else list(sys_js))
    try:
        nontriv = any(rd[s] * cd[s] > 1 for s in sl) and any(rd[k] * cd[k] > 1 for k in range(len(rd)) if k not in sl) and R * C > 4
    except IndexError:
        nontriv = False
    ctx.case(desc, nontriv, f"pt-var/{kind}/{dim_form}/{'square' if rd == cd else 'rect'}")
    return determine_variable_branch(ctx, "partial_transpose", partial_transpose, "partial_transpose_sym",
                                     {"rows": R, "cols": C, "sys": sys_js, "dim": dim_js}, (sys_arg, dim_py), kind, R, C, desc, "pT_cvx_value / pT_cvx_atom")


def check_pt_raw(ctx, R, C, sys_arg, dim_py, branch):
    """any call partial_transpose(X, sys, dim) with raw arguments (valid or not): acceptance and result must agree with the model"""
    X = _label(R, C, "int64")
    impl = call(partial_transpose, X, sys_arg, dim_py)
    desc = {"fn": "partial_transpose_raw", "R": R, "C": C, "sys": sys_arg, "dim": dim_py, "dtype": "int64"}
    model = ctx.lean().ask("partial_transpose", {"rows": R, "cols": C, "data": list(range(R * C)), "sys": sys_arg, "dim": dim_py})
    ctx.case(desc, "reject" not in model and R * C > 4, branch + ("/rejected" if "reject" in model else "/accepted"))
    return compare(ctx, "partial_transpose", desc, impl, model, "pT_args_two / pT_args_scalar / pT_args_omitted")


def check_realign_raw(ctx, R, C, dim_py, branch):
    X = _label(R, C, "int64")
    impl = call(realignment, X, dim_py)
    desc = {"fn": "realignment_raw", "R": R, "C": C, "dim": dim_py, "dtype": "int64"}
    model = ctx.lean().ask("realignment", {"rows": R, "cols": C, "data": list(range(R * C)), "dim": dim_py})
    ctx.case(desc, "reject" not in model, branch + ("/rejected" if "reject" in model else "/accepted"))
    return compare(ctx, "realignment", desc, impl, model, "realign_args_two / realign_args_forms")


def rand_subset(rng, n):
    k = int(rng.integers(1, n + 1))
    return [int(x) for x in rng.permutation(n)[:k]]

SFP_FIXED = [("pt", [2, 2], [2, 2], None, "omitted"), ("pt", [3, 3], [3, 3], 0, "omitted"), ("pt", [2, 3], [2, 3], [1], "list"), ("pt", [2, 3], [2, 3], 1, "scalar"),
             ("pt", [2, 3], [3, 2], [0], "two"), ("pt", [2, 2, 2], [2, 2, 2], [0, 2], "list"), ("pt", [1, 3], [1, 3], [1], "list"),
             ("re", [2, 2], [2, 2], None, "omitted"), ("re", [3, 3], [3, 3], None, "omitted"), ("re", [2, 3], [2, 3], None, "list"), ("re", [2, 3], [2, 3], None, "scalar"),
             ("re", [2, 3], [3, 2], None, "two"), ("re", [4, 2], [2, 3], None, "two")]


def check_strict_fp(ctx, cfg, data, cplx, seed):
    fnk, rd, cd, sys_arg, dim_form = cfg
    rng = np.random.default_rng(int(seed))
    R, C = int(np.prod(rd)), int(np.prod(cd))

    def gi(r, c):
        m = rng.integers(-9, 10, size=(r, c)).astype(complex if cplx else float)
        return m + 1j * rng.integers(-9, 10, size=(r, c)) if cplx else m

    if data == "zero":
        X = np.zeros((R, C), dtype=complex if cplx else float)
    elif data == "rank-one":
        v, w = gi(R, 1), gi(C, 1)
        v[int(rng.integers(R)), 0] = 0
        X = v @ (v if R == C else w).conj().T
    else:
        X = _label(R, C, "complex128" if cplx else "float64")
    dim = {"omitted": None, "scalar": int(rd[0]), "list": list(rd), "two": [list(rd), list(cd)]}[dim_form]
    fn = partial_transpose if fnk == "pt" else realignment
    args = (lambda: (X.copy(), sys_arg, dim)) if fnk == "pt" else (lambda: (X.copy(), dim))
    desc = {"fn": "strict_fp", "function": fn.__name__, "rd": list(rd), "cd": list(cd), "sys": sys_arg, "dim_form": dim_form, "data": data, "complex": bool(cplx)}
    ctx.case(desc, data != "zero" and min(rd) > 1, f"strict-fp/{fn.__name__}/{data}")
    info = {"case_seed": int(seed), "function": fn.__name__, "args": desc, "theorem": "the function's value is a function of its arguments (the mirror model has no global state)"}
    a0 = args()
    ref = call(fn, *a0)
    st = strict_fp_call(fn, *args())
    if ref[0] != "ok":
        return not ctx.violation(f"{fn.__name__}: {ref[0]} ({ref[1]}) on a valid {data} input, dims {rd} x {cd}, dim {dim_form}", info)
    if st[0] == "raise":
        return not ctx.violation(f"{fn.__name__}: value depends on NumPy's floating-point error state (default state: a value; invalid/divide/overflow set to 'raise': {st[1]}) on a {data} input, dims {rd} x {cd}, dim {dim_form}",
                                 dict(info, impl=st[1]))
    r0, r1 = np.asarray(ref[1]), np.asarray(st[1])
    if r0.dtype != r1.dtype or r0.shape != r1.shape or not np.array_equal(r0, r1):
        return not ctx.violation(f"{fn.__name__}: value under the strict floating-point error state differs from the default-state value ({data} input, dims {rd} x {cd})", dict(info, impl=str(r1)[:200], model=str(r0)[:200]))
    if not np.array_equal(a0[0], X):
        return not ctx.violation(f"{fn.__name__}: the caller's array was modified", dict(info, check="purity"))
    if data == "zero" and np.any(r0):
        return not ctx.violation(f"{fn.__name__}: non-zero entries for the zero input", dict(info, impl=str(r0)[:200]))
    ctx.count("strict-fp/agree")
    return True


def strict_fp_stream(ctx):
    srng = ctx.rng.spawn(1)[0]
    k = 0
    for cfg in SFP_FIXED:
        for data in ("zero", "rank-one", "label"):
            check_strict_fp(ctx, cfg, data, bool(k % 2), int(srng.integers(1 << 62)))
            k += 1
    for it in range(12):
        n = int(srng.integers(2, 4))
        rd = gen.rand_dims(srng, n, 2, 3, 18)
        S = rand_subset(srng, n)
        check_strict_fp(ctx, ("pt", rd, list(rd), S, "list"), ("zero", "rank-one")[it % 2], bool(srng.integers(2)), int(srng.integers(1 << 62)))


def run(ctx, model_ok=True):
    rng = ctx.rng
    quick = ctx.tier == "quick"
    check_pt(ctx, [2, 3], [3, 4], [1], "two", "float64")
    check_pt(ctx, [2, 3, 2], [2, 3, 2], [2, 0], "list", "complex128")
    check_pt(ctx, [3, 3], [3, 3], None, "omitted", "int64")
    for it in range(900 if quick else 5000):
        n = int(rng.choice([1, 2, 2, 3, 3, 4, 5]))
        square = bool(rng.integers(3) > 0)
        lo = 1 if square else 2   # the property quantifies over local dims >= 2 for rectangular inputs
        rd = gen.rand_dims(rng, n, lo, 4, 64)
        if int(np.prod(rd)) < 2:
            continue
        if square:
            cd = list(rd)
            dim_form = str(rng.choice(["list", "array", "two", "two_array"] if n > 1 else ["list", "array"]))
        else:
            cd = gen.rand_dims(rng, n, lo, 4, 64)
            dim_form = str(rng.choice(["two", "two_array"]))
            if n == 1:
                continue
        S = rand_subset(rng, n)
        form = int(rng.integers(3))
        sys_arg = S[0] if (len(S) == 1 and form == 0) else (np.array(S) if form == 1 else S)
        check_pt(ctx, rd, cd, sys_arg, dim_form, str(rng.choice(["int64", "float64", "complex128", "object"])))
    # many subsystems (most of dimension 1, square input): the subsystems that are not transposed keep their places for any n
    # (a complement listed in set-iteration order is ascending only up to 8 subsystems)
    mrng = rng.spawn(1)[0]
    for it in range(150 if quick else 800):
        n = int(mrng.integers(6, 13))
        rd = [1] * n
        big = [int(x) for x in mrng.choice(n, size=int(mrng.integers(2, 5)), replace=False)]
        for b, d in zip(big, [2, 3, 2, 2]):
            rd[b] = d
        if it % 3 == 0 and n >= 9:
            rd[n - 1] = 3     # unequal dimensions inside a complement that contains the last subsystem
        k = int(mrng.integers(1, n))
        S = [int(x) for x in (mrng.permutation(n)[:k] if it % 2 else np.arange(k))]
        check_pt(ctx, rd, list(rd), S, "list", str(mrng.choice(["int64", "complex128"])))
    for it in range(60 if quick else 300):
        d0, d1 = int(rng.integers(1, 6)), int(rng.integers(1, 6))
        if d0 * d1 < 2:
            continue
        check_pt(ctx, [d0, d1], [d0, d1], [None, 0, 1, [0], [0, 1]][int(rng.integers(5))], "list1", "float64")
        if d0 > 1:
            check_pt(ctx, [d0, d0], [d0, d0], [None, 0, 1, [1, 0]][int(rng.integers(4))], "omitted", "float64")
    for it in range(25 if quick else 150):
        n = int(rng.choice([2, 2, 3]))
        rd = gen.rand_dims(rng, n, 1, 3, 12)
        if int(np.prod(rd)) < 2:
            continue
        S = rand_subset(rng, n)
        check_pt(ctx, rd, rd, S, "list", "float64", variable=True)
    # realignment
    for it in range(250 if quick else 1500):
        r0, r1, c0, c1 = [int(x) for x in rng.integers(2, 5, size=4)]
        kind = int(rng.integers(4))
        if kind == 0:
            check_realign(ctx, r0, r1, c0, c1, "two", str(rng.choice(["int64", "float64", "complex128"])))
        elif kind == 1:
            check_realign(ctx, r0, r1, r0, r1, "list", "float64")
        elif kind == 2:
            check_realign(ctx, r0, r1, r0, r1, "scalar", "float64")
        else:
            check_realign(ctx, r0, r0, r0, r0, "omitted", "float64")  # omitted dim: square inputs only (docstring: all dimensions equal)
    # cvxpy Variable branch determined completely on a basis (square and rectangular, all variable kinds)
    vr = rng.spawn(1)[0]
    check_pt_var(ctx, [2, 3], [3, 2], [1], "two", "real")
    check_pt_var(ctx, [2, 2, 2], [2, 2, 2], [0, 1], "list", "hermitian")
    check_pt_var(ctx, [2, 2], [2, 2], None, "omitted", "complex")
    for it in range(40 if quick else 300):
        n = int(vr.choice([2, 2, 3]))
        square = bool(vr.integers(3) > 0)
        rd = gen.rand_dims(vr, n, 1 if square else 2, 3, 12)
        if int(np.prod(rd)) < 2:
            continue
        cd = list(rd) if square else gen.rand_dims(vr, n, 2, 3, 12)
        S = rand_subset(vr, n)
        form = int(vr.integers(3))
        sys_arg = S[0] if (len(S) == 1 and form == 0) else (np.array(S) if form == 1 else S)
        if square:
            check_pt_var(ctx, rd, cd, sys_arg, str(vr.choice(["list", "two", "two_array"])), str(vr.choice(VAR_KINDS_SQUARE)))
        else:
            check_pt_var(ctx, rd, cd, sys_arg, str(vr.choice(["two", "two_array"])), str(vr.choice(VAR_KINDS_RECT)))
    for it in range(10 if quick else 60):
        d0, d1 = int(vr.integers(1, 4)), int(vr.integers(1, 4))
        if d0 * d1 < 2:
            continue
        check_pt_var(ctx, [d0, d1], [d0, d1], [None, 0, 1, [0]][int(vr.integers(4))], "scalar", str(vr.choice(VAR_KINDS_SQUARE)))
        if d0 > 1:
            check_pt_var(ctx, [d0, d0], [d0, d0], [None, 0, [1]][int(vr.integers(3))], "omitted", str(vr.choice(VAR_KINDS_SQUARE)))
    # raw argument forms, accepted and rejected: the model decodes them (Toq/Model/PartialOpsArgs.lean)
    ar = rng.spawn(1)[0]
    for R, C, s_, d_ in [(6, 6, 0, [[2], [3]]), (2, 3, 0, [[2], [3]]), (6, 6, 0, [3]), (6, 6, 0, 3), (6, 6, 0, 4), (6, 6, None, None), (4, 9, None, None), (4, 9, 0, None),
                         (6, 6, [-1], [2, 3]), (6, 6, -1, [2, 3]), (6, 6, [1, 1], [2, 3]), (6, 6, [2], [2, 3]), (6, 6, [-3], [2, 3]), (6, 6, [0], [[2, 3], [6]]),
                         (4, 9, [0], [2]), (4, 9, [1], [[2, 2], [3, 3]]), (4, 9, [1], [[2, 2], [3, 2]]), (8, 8, [0, 2, 1], [2, 2, 2]), (8, 8, [0, 2, 2], [2, 2, 2]),
                         (6, 4, [1, 0], [[2, 3], [2, 2]]), (6, 4, [1, 0], [[3, 2], [2, 2]])]:
        check_pt_raw(ctx, R, C, s_, d_, "args/corpus")
    for it in range(150 if quick else 1500):
        kind = int(ar.integers(5))
        if kind == 0:      # omitted dim on any shape (perfect squares and not)
            sq = [4, 9, 16]
            R = int(ar.choice(sq)) if ar.integers(4) else int(ar.integers(2, 17))
            C = int(ar.choice(sq)) if ar.integers(4) else int(ar.integers(2, 17))
            if min(R, C) < 2:    # a row / column vector is not an operator on a tensor product (permute_systems' vector branch)
                continue
            check_pt_raw(ctx, R, C, [None, 0, 1, [0], [1], [1, 0], 2, -1][int(ar.integers(8))], None, "args/dim-omitted")
        elif kind == 1:    # scalar / one-element dim, dividing or not, square input or not
            R = int(ar.integers(2, 17))
            C = R if ar.integers(3) else int(ar.integers(2, 17))
            d = int(ar.choice([x for x in range(1, R + 1) if R % x == 0])) if ar.integers(2) else int(ar.integers(1, R + 2))
            check_pt_raw(ctx, R, C, [None, 0, 1, [0], [1], [0, 1]][int(ar.integers(6))], d if ar.integers(2) else [d], "args/dim-scalar")
        else:              # list / two-row dim, sys with repeated / negative / out-of-range entries, wrong products
            n = int(ar.integers(2, 5))
            square = bool(ar.integers(2))
            # the property quantifies over local dims >= 2 for rectangular inputs (a dimension-1 factor can turn an intermediate
            # result into a row / column vector, which permute_systems treats as a vector)
            rd = gen.rand_dims(ar, n, 1 if square else 2, 3, 24)
            cd = list(rd) if square else gen.rand_dims(ar, n, 2, 3, 24)
            R, C = int(np.prod(rd)), int(np.prod(cd))
            if min(R, C) < 2:
                continue
            k = int(ar.integers(1, n + 1))
            sys_l = [int(x) for x in ar.integers(-1 if kind == 2 else 0, n + (1 if kind == 2 else 0), size=k)] if kind in (2, 3) else [int(x) for x in ar.permutation(n)[:k]]
            rd2, cd2 = list(rd), list(cd)
            if kind == 4 and ar.integers(3) == 0:
                (rd2 if ar.integers(2) else cd2)[int(ar.integers(n))] += 1      # product no longer matches
            sys_arg = sys_l[0] if len(sys_l) == 1 and ar.integers(2) else sys_l
            check_pt_raw(ctx, R, C, sys_arg, rd2 if (square and rd2 == cd2 and ar.integers(2)) else [rd2, cd2], "args/list")
    for R, C, d_ in [(4, 4, None), (4, 9, None), (9, 9, None), (6, 6, None), (6, 6, 2), (6, 6, 3), (6, 6, 4), (6, 6, [2, 3]), (6, 6, [3, 3]), (4, 9, [[2, 2], [3, 3]]),
                     (4, 9, [[2, 2], [3, 2]]), (6, 4, [[2, 3], [2, 2]]), (6, 4, [[2, 2], [2, 2]]), (4, 9, 2), (12, 12, 5)]:
        check_realign_raw(ctx, R, C, d_, "args-realign/corpus")
    for it in range(60 if quick else 600):
        r0, r1, c0, c1 = [int(x) for x in ar.integers(2, 5, size=4)]    # realignment: local dimensions at least 2
        kind = int(ar.integers(4))
        if kind == 0:
            R = int(ar.choice([4, 9, 16])) if ar.integers(3) else int(ar.integers(2, 17))
            C = R if ar.integers(3) else int(ar.choice([4, 9, 16]))
            check_realign_raw(ctx, R, C, None, "args-realign/omitted")
        elif kind == 1:
            R = r0 * r1
            C = R if ar.integers(3) else c0 * c1
            if min(R, C) < 2:
                continue
            check_realign_raw(ctx, R, C, int(ar.integers(2, R)), "args-realign/scalar")     # 1 < d < R: no local dimension 1
        elif kind == 2:
            C = r0 * r1 if ar.integers(3) else c0 * c1
            if min(r0 * r1, C) < 2:
                continue
            check_realign_raw(ctx, r0 * r1, C, [r0, r1], "args-realign/pair")
        else:
            if min(r0 * r1, c0 * c1) < 2:
                continue
            R, C = r0 * r1, c0 * c1
            if ar.integers(3) == 0:
                R += 1
            check_realign_raw(ctx, R, C, [[r0, r1], [c0, c1]], "args-realign/two")
    strict_fp_stream(ctx)   # a fresh child of the seeded generator; spawned after every other seeded stream
    if not quick:
        for n in range(1, 5):
            for dims in gen.all_dim_vectors(n, 1, 4, 32):
                if int(np.prod(dims)) < 2:
                    continue
                for k in range(1, n + 1):
                    for S in itertools.combinations(range(n), k):
                        check_pt(ctx, dims, dims, list(S), "list", "int64")
        for r0, r1, c0, c1 in itertools.product(range(2, 5), repeat=4):
            check_realign(ctx, r0, r1, c0, c1, "two", "int64")
        ctx.extra["exhaustive_small_space"] = "pt: all subsets x dim vectors (entries 1..4, product <= 32, n <= 4); realignment: all local dims 2..4"


def replay(ctx, rec):
    a = rec["args"]
    if a["fn"] == "strict_fp":
        return check_strict_fp(ctx, ("pt" if a["function"] == "partial_transpose" else "re", a["rd"], a["cd"], a["sys"], a["dim_form"]), a["data"], a["complex"], rec.get("case_seed", 0))
    if a["fn"] == "partial_transpose_var":
        s = np.array(a["sys"]) if a.get("sys_form") == "ndarray" else a["sys"]
        return check_pt_var(ctx, a["rd"], a["cd"], s, a["dim_form"], a["kind"])
    if a["fn"] == "partial_transpose_raw":
        return check_pt_raw(ctx, a["R"], a["C"], a["sys"], a["dim"], "replay")
    if a["fn"] == "realignment_raw":
        return check_realign_raw(ctx, a["R"], a["C"], a["dim"], "replay")
    if a["fn"] == "partial_transpose":
        s = a["sys"]
        if a.get("sys_form") == "ndarray":
            s = np.array(s)
        check_pt(ctx, a["rd"], a["cd"], s, a["dim_form"], a["dtype"], a.get("variable", False))
    else:
        check_realign(ctx, a["rdim"][0], a["rdim"][1], a["cdim"][0], a["cdim"][1], a["dim_form"], a["dtype"])
