"""C08: XORGame (quantum / classical / non-signalling value, conversion to NonlocalGame, repetitions) and
bell_inequality_max (two settings per party) against exact models and certified intervals.

Per game instance (the exact rational image of the float matrices handed to toqito defines the instance):

* the Lean model computes the cost matrix D (`dMat`), the converted predicate tensor (`nlgPred`), the exact
  classical value / bias by enumeration (`xorClassicalValue`, `xorClassicalBias`; theorems
  xor_classical_eq_sign_max, xor_classical_value_is_max, xor_conversion, xor_classical_value_formula);
* an independent cvxpy solve (untrusted) gives a Gram matrix and a dual point, repaired exactly and accepted
  only by the verified checkers (`checkXorPrimal_sound`, `checkXorDual_sound`) -> certified bias interval [lo, hi];
  the model's `xorValue` (theorems xor_value_formula / xor_reps_power / xor_value_bounds) turns it into the interval
  for the value with `reps` repetitions;
* toqito: quantum_value within tau of the interval; classical_value equal to the exact maximum; converted game
  identical to the model's tensor, same classical value, level-1 NPA bound within tau of the interval,
  non-signalling values equal to 1 (xor_ns_value_eq_one); classical <= quantum <= min(1, Grothendieck bound).

Per Bell instance (2 settings per party, two outcomes with arbitrary labels, optional marginal terms): the model
rewrites the expression in +-1 labels (`bellAffine`, theorem bell_affine_change); an explicit exact qubit strategy
(`checkBellStrategy_sound`) gives a lower bound and a Tsirelson dual certificate of the extended coefficient matrix
(`checkBellDual_sound`) an upper bound of the quantum maximum; the best deterministic assignment is exact
(`bell_det_le_opt`).

Further streams:

* classical value WITH repetitions: `XORGame(prob, pred, reps=r).classical_value()` against the Lean mirror of exactly that code path
  (`xorClassicalCall` = `to_nonlocal_game()` + the `reps` branch of `NonlocalGame.__init__` + `classical_value`; theorem xor_classical_path);
* constructor guards (`xorInit`; theorem xor_init_accepts): every game valid within the stated tolerance must be constructible and carry the
  stated `tol` (default eps*q0^2*q1^2, recorded only); agreement on rejections (size / sign / normalisation, in this order) is recorded as evidence only;
* feasibility embedding into the program that `bell_inequality_max` builds (captured in-process): exact real two-qubit strategies with
  rank-one projective measurements are embedded as W = rho (x) phi (x) psi; every captured constraint must accept them and the captured
  objective must equal their Bell value as computed by the verified checker (`checkBellStrategy_sound`, `bell_affine_change`).

What the certified interval means (all proved in Lean, Properties/C08.lean): an accepted primal certificate IS attained by a quantum strategy
(Tsirelson's construction, `tsirelson_theorem` / `xor_quantum_optimum_bracket`), an accepted dual certificate bounds every quantum strategy, and for
`reps = r` the interval `[(1/2+lo/2)^r, (1/2+hi/2)^r]` brackets the quantum value of the r-fold repetition (`xor_repetition_bracket`)."""
from __future__ import annotations

import itertools
import math
import warnings
import zlib
from fractions import Fraction as Fr

import numpy as np

from ..cert import DM, chol_factor, frac_json
from ..common import CorrespondenceBroken, InfraError
from ..exact import Pure, call_rng, describe, present_nd, strict_fp_call
from ..pool import Result, fold, run_pool, worker_driver

RULE = ("XOR games: corpus (CHSH in int/float/bool predicate dtype, odd-cycle games n=3,5, rectangular and degenerate shapes) then seeded random games with "
        "|X|,|Y| in 1..4 (thorough: 1..5), dyadic distributions (denominator 2^6, incl. zero entries / zero rows / columns, non-uniform), random 0/1 predicates, "
        "tol defaulted or given, reps 1..3, a few distributions perturbed within a given tol; per instance the Lean checker certifies the bias interval [lo, hi]. "
        "Bell: 2x2 coefficient matrices (integers / dyadics), optional marginal terms, outcome labels +-1, 0/1 (Clauser-Horne form) or other pairs. "
        "non-trivial = certified quantum bias exceeds the exact classical bias (deterministic maximum) by >= 1e-2 with interval width <= 1e-4 (Bell with marginals: "
        "certified strategy value exceeds the deterministic maximum by >= 1e-2); distinct = hash of instance and call; "
        "presentation: every XORGame is built from the same values in a freshly drawn presentation (probability matrix: C / Fortran / strided layout, int64 when "
        "integer-valued; predicate: the task's dtype in a drawn layout), bell_inequality_max receives its five arrays likewise (integer coefficients / labels also as "
        "int64); the handed-over objects must be untouched after every method call (also through the converted NonlocalGame, which holds references); "
        "quantum_value (one in three), classical_value and the converted game's classical_value are called twice on the same object and must agree; "
        "classical value with repetitions (reps 2..3 where the enumeration of the product game is small) against the Lean mirror of the code path; "
        "constructor stream: 60 (thorough 600) exact dyadic matrices 1..4 x 1..4, valid / size mismatch / negative entry / total off by 2^-k / exactly on the "
        "tolerance boundary, tol defaulted or 0 / 2^-4 .. 2^-30; Bell embedding stream: 3 exact real two-qubit strategies per Bell instance (full-rank rational "
        "state, rank-one projectors from integer vectors, second setting = computational basis) plugged into the captured cvxpy problem; "
        "strict_fp (in-process, functions that call no solver: XORGame.__init__ incl. its guards, to_nonlocal_game, classical_value; reps 1 and, for at most 2 x 2 questions, 2): the corpus games, "
        "games whose predicate is all 0 / all 1, distributions concentrated on one question pair or with zero rows / columns, and 12 random games (kinds zero-row-col / sparse / uniform) from a fresh child of "
        "the seeded generator spawned after all other streams, evaluated once in NumPy's default floating-point error state and once with invalid / divide / overflow set to raise "
        "(harness.exact.strict_fp_call): same tol, converted arrays bitwise equal, same classical value (1e-12); nonsignaling_value / quantum_value build a cvxpy program and are not part of this stream; "
        "non-trivial = at least 2 x 2 questions and a predicate that is not constant")
ASSUMPTIONS = [
    "toqito computes with the float inputs it is given; the instance certified is their exact rational image",
    "tolerance 1e-3 (times the coefficient scale for Bell expressions) on SCS-solved values (DESIGN.md 4.4); classical values are compared exactly "
    "(1e-12 when the distribution is not dyadic)",
    "strong duality of the Tsirelson program is cited (not needed: every instance is bracketed by certificates); weak duality, feasibility of unit vectors, sign "
    "vectors and quantum strategies AND Tsirelson's theorem (every PSD unit-diagonal matrix is realised by a finite-dimensional quantum strategy) are proved",
    "Grothendieck's inequality beta_Q <= K_G beta_C with K_G <= 1.7823 is cited, not proved; checked on the certified values",
    "perfect parallel repetition of XOR games is proved for projective strategies of the r-fold game in every finite dimension (xor_parallel_repetition, "
    "xor_repetition_bracket); general POVM strategies reduce to these by Naimark dilation (cited)",
    "Bell embedding: cvxpy evaluates captured constraint / objective expressions faithfully (Constraint.violation(), Expression.value); that W = rho (x) phi (x) psi "
    "(second-setting projector |0><0| fixed through aux_mat) is the reading of the code's variable follows Navascues-Vertesi and is confirmed exactly on the "
    "unchanged tree, it is not a Lean theorem; residual tolerance 1e-9 * coefficient scale",
    "constructor stream: rejections are outside the property's quantifier (it speaks of XOR games) and never produce a violation",
    "the quantum maximum of a Bell expression is the supremum over finite-dimensional commuting-operator strategies with +-1 observables; with marginal terms the "
    "certified upper bound is the level-1 moment bound, which can exceed the quantum maximum (interval not tight there)",
]
TAU = 1e-3
WIDTH_OK = 1e-4
K_G = 1.7823
EPS_BITS = 22


# ------------------------------------------------------------------------------------------------
# generation (parent process; every random choice from ctx.rng)


def _dyadic_dist(rng, m, n, bits, kind):
    w = rng.integers(1, 8, size=(m, n)).astype(np.int64)
    if kind == "sparse":
        w = w * (rng.random((m, n)) < 0.55)
    elif kind == "zero-row-col":
        if m > 1:
            w[int(rng.integers(m)), :] = 0
        if n > 1 and rng.integers(2):
            w[:, int(rng.integers(n))] = 0
    elif kind == "uniform":
        w[:, :] = 1
    elif kind == "skewed":
        w = w ** 2
    if w.sum() == 0:
        w[int(rng.integers(m)), int(rng.integers(n))] = 1
    tot = 1 << bits
    p = (w * tot) // int(w.sum())
    idx = np.unravel_index(int(np.argmax(w)), w.shape)
    p[idx] += tot - int(p.sum())
    return (p / tot).tolist()


def _game(label, prob, pred, pred_dtype="int", tol=None, reps=1, calls=("q", "c", "conv", "npa", "ns")):
    prob = np.asarray(prob, dtype=float)
    return {"kind": "game", "label": label, "m": int(prob.shape[0]), "n": int(prob.shape[1]), "prob": prob.tolist(),
            "pred": np.asarray(pred, dtype=int).tolist(), "pred_dtype": pred_dtype, "tol": tol, "reps": int(reps), "calls": list(calls)}


def _odd_cycle(nq):
    prob = np.zeros((nq, nq))
    pred = np.zeros((nq, nq), dtype=int)
    for x in range(nq):
        prob[x, x] = 1 / (2 * nq)
        prob[x, (x + 1) % nq] = 1 / (2 * nq)
        pred[x, (x + 1) % nq] = 1
    return prob, pred


def corpus():
    chsh_p = [[0.25, 0.25], [0.25, 0.25]]
    chsh_f = [[0, 0], [0, 1]]
    out = [
        _game("chsh", chsh_p, chsh_f),
        _game("chsh-float-pred", chsh_p, chsh_f, "float", reps=2, calls=("q", "c", "conv", "c2")),
        _game("chsh-bool-pred", chsh_p, chsh_f, "bool", reps=3, calls=("q", "c", "conv")),
        _game("chsh-tol", chsh_p, [[1, 0], [0, 0]], tol=1e-6),
        # a generous tolerance that exceeds several probability entries: `tol` is a tolerance on the VALUE / on the normalisation of
        # the distribution, never a cutoff on individual question pairs
        _game("small-entries-large-tol", [[1 / 64, 1 / 64, 1 / 64, 13 / 64], [1 / 64, 1 / 64, 13 / 64, 1 / 64], [1 / 64, 13 / 64, 1 / 64, 1 / 64],
                                          [13 / 64, 1 / 64, 1 / 64, 1 / 64]], [[0, 1, 1, 0], [1, 0, 0, 1], [0, 0, 1, 1], [1, 1, 0, 0]], tol=2e-2,
              calls=("q", "c", "conv")),
        _game("uniform-4x4-tol-above-entries", (np.ones((4, 4)) / 16).tolist(), [[0, 0, 0, 0], [0, 1, 0, 1], [0, 0, 1, 1], [0, 1, 1, 0]], tol=7e-2,
              calls=("q", "c")),
        _game("biased-chsh", [[0.5, 0.125], [0.125, 0.25]], chsh_f, reps=2, calls=("q", "c", "conv", "npa", "c2")),
        _game("rect-2x3", [[0.125, 0.25, 0.125], [0.25, 0.125, 0.125]], [[0, 0, 1], [0, 1, 0]]),
        _game("rect-3x2", [[0.125, 0.25], [0.125, 0.25], [0.125, 0.125]], [[0, 0], [0, 1], [1, 0]]),
        _game("1x1", [[1.0]], [[1]]),
        _game("1x3", [[0.5, 0.25, 0.25]], [[1, 0, 1]]),
        _game("3x1-zero", [[0.5], [0.0], [0.5]], [[1], [1], [0]]),
        _game("zero-row", [[0.25, 0.25], [0.0, 0.0], [0.25, 0.25]], [[0, 0], [1, 1], [0, 1]]),
        _game("all-zero-pred", [[0.25, 0.25], [0.25, 0.25]], [[0, 0], [0, 0]]),
        _game("3x3-zeros", [[0.125, 0.125, 0.125], [0.125, 0.125, 0.0], [0.125, 0.0, 0.25]], [[0, 0, 0], [0, 1, 0], [0, 0, 1]]),
    ]
    out += [
        _game("rect-2x3-reps2", [[0.125, 0.25, 0.125], [0.25, 0.125, 0.125]], [[0, 0, 1], [0, 1, 0]], reps=2, calls=("q", "c", "cr")),
        _game("1x3-reps3", [[0.5, 0.25, 0.25]], [[1, 0, 1]], reps=3, calls=("q", "c", "cr")),
        _game("biased-chsh-reps2", [[0.5, 0.125], [0.125, 0.25]], chsh_f, "float", reps=2, calls=("c", "c2", "cr")),
    ]
    for nq in (3, 5):
        p, f = _odd_cycle(nq)
        out.append(_game(f"odd-cycle-{nq}", p, f, calls=("q", "c", "conv", "npa", "ns") if nq == 3 else ("q", "c", "conv", "npa")))
    return out


def gen_game(rng, quick, i):
    big = 4 if quick else 5
    m = int(rng.integers(1, big + 1))
    n = int(rng.integers(1, big + 1))
    if rng.integers(3) > 0:  # favour sizes where a quantum advantage exists
        m, n = max(m, 2), max(n, 2)
    kind = str(rng.choice(["random", "random", "uniform", "sparse", "zero-row-col", "skewed"]))
    prob = _dyadic_dist(rng, m, n, 6, kind)
    pred = rng.integers(0, 2, size=(m, n))
    if kind == "uniform" and m >= 2 and n >= 2 and rng.integers(2):
        # CHSH-like frustration: rank-one sign pattern with one flipped entry
        s = rng.integers(0, 2, size=m)
        t = rng.integers(0, 2, size=n)
        pred = (s[:, None] + t[None, :]) % 2
        pred[int(rng.integers(m)), int(rng.integers(n))] ^= 1
    dtype = str(rng.choice(["int", "int", "float", "bool"]))
    tol = None if rng.integers(3) else float(rng.choice([1e-9, 1e-6, 1e-3]))
    reps = int(rng.choice([1, 1, 1, 2, 3]))
    calls = ["q", "c", "conv"]
    if rng.integers(2):
        calls.append("npa")
    if rng.integers(4) == 0:
        calls.append("ns")
    if reps == 2 and m <= 2 and n <= 2:
        calls.append("c2")
    if reps >= 2 and (2 ** reps) ** (min(m, n) ** reps) <= 256 and max(m, n) ** reps <= 27:
        calls.append("cr")   # classical value WITH the task's repetitions: product game built by NonlocalGame.__init__, exact oracle = Lean mirror of the code path
    g = _game(f"rand-{kind}", prob, pred, dtype, tol, reps, calls)
    if tol is not None and tol >= 1e-6 and rng.integers(3) == 0:
        # a distribution that is only normalised within the given tolerance (non-dyadic floats)
        pr = np.array(g["prob"])
        pr = pr * (1 + tol * 0.05 * (rng.random(pr.shape) - 0.5))
        g["prob"] = pr.tolist()
        g["label"] += "-perturbed"
    return g


def gen_bell(rng, quick, i):
    form = str(rng.choice(["corr", "corr", "marg", "marg", "labels", "labels-marg"]))
    if rng.integers(2):
        J = rng.integers(-3, 4, size=(2, 2)).astype(float)
    else:
        J = rng.integers(-12, 13, size=(2, 2)) / 8.0
    if not np.any(J):
        J[0, 0] = 1.0
    chsh_like = rng.integers(3) == 0 or (form in ("marg", "labels-marg") and rng.integers(2) == 0)
    if chsh_like:  # CHSH-like sign pattern: guaranteed quantum advantage
        mag = rng.integers(2, 5, size=(2, 2)).astype(float)
        sg = np.array([[1, 1], [1, -1]]) * rng.choice([-1, 1], size=(2, 1)) * rng.choice([-1, 1], size=(1, 2))
        J = mag * sg
    a = np.zeros(2)
    b = np.zeros(2)
    if form in ("marg", "labels-marg"):
        sc = float(rng.choice([0.25, 0.5])) if chsh_like else float(rng.choice([0.25, 0.5, 1.0, 2.0]))
        a = rng.integers(-2, 3, size=2) * sc
        b = rng.integers(-2, 3, size=2) * sc
        if not np.any(a) and not np.any(b):
            a[0] = sc
    aval, bval = [1.0, -1.0], [1.0, -1.0]
    if form in ("labels", "labels-marg"):
        choices = [[0.0, 1.0], [1.0, 0.0], [-1.0, 1.0], [2.0, -1.0], [0.5, -0.5]]
        aval = list(choices[int(rng.integers(len(choices)))])
        bval = list(choices[int(rng.integers(len(choices)))])
    elif rng.integers(4) == 0:
        aval = [-1.0, 1.0]
    return {"kind": "bell", "label": form, "J": J.tolist(), "a": a.tolist(), "b": b.tolist(), "aval": aval, "bval": bval, "solver": "SCS"}


def gen_init(rng, i):
    """constructor guards: exact dyadic matrices (sums exact in float64), valid or malformed by an exact amount"""
    m = int(rng.integers(1, 5))
    n = int(rng.integers(1, 5))
    bits = 10
    tot = 1 << bits
    w = rng.integers(1, 9, size=(m, n)).astype(np.int64)
    p = (w * tot) // int(w.sum())
    p[np.unravel_index(int(np.argmax(w)), w.shape)] += tot - int(p.sum())
    p = p.astype(object)   # integers over 2^bits, exact
    kind = str(rng.choice(["valid", "valid", "shape", "negative", "sum", "negative+sum", "shape+sum", "boundary"]))
    tol_e = None if rng.integers(3) == 0 else int(rng.choice([0, 4, 8, 12, 30]))   # tol = 2^-tol_e (0 -> tol = 0.0)
    tol = None if tol_e is None else (0.0 if tol_e == 0 else 2.0 ** -tol_e)
    shape = [m, n]
    scale = 1 << 40   # numerators over 2^40
    num = [[int(v) << (40 - bits) for v in row] for row in p]
    k = int(rng.choice([6, 10, 14, 20, 34]))   # size of the defect: 2^-k
    d = 1 << (40 - k)
    x, y = int(rng.integers(m)), int(rng.integers(n))
    if "negative" in kind:
        # one entry becomes -2^-k, the excess goes to another entry (total stays 1) unless the total is to be off as well
        old = num[x][y]
        num[x][y] = -d
        if m * n > 1 and "sum" not in kind:
            x2, y2 = [(a, b) for a in range(m) for b in range(n) if (a, b) != (x, y)][int(rng.integers(m * n - 1))]
            num[x2][y2] += old + d
    elif "sum" in kind:
        num[x][y] += d if rng.integers(2) else -min(d, num[x][y])
    if kind == "boundary" and tol is not None and tol > 0:
        # total exactly 1 + tol: not MORE than tol away, hence accepted
        num[x][y] += int(tol * scale)
    if "shape" in kind:
        shape = [[m, n + 1], [m + 1, n], [n, m] if m != n else [m + 1, n + 1]][int(rng.integers(3))]
    return {"kind": "init", "label": kind, "m": m, "n": n, "num": num, "e": 40, "pred_shape": shape, "tol": tol}


def bell_corpus():
    z = [0.0, 0.0]
    pm = [1.0, -1.0]
    return [
        {"kind": "bell", "label": "chsh", "J": [[1.0, 1.0], [1.0, -1.0]], "a": z, "b": z, "aval": pm, "bval": pm, "solver": "SCS"},
        {"kind": "bell", "label": "ch", "J": [[1.0, 1.0], [1.0, -1.0]], "a": [-1.0, 0.0], "b": [-1.0, 0.0], "aval": [0.0, 1.0], "bval": [0.0, 1.0], "solver": "SCS"},
        {"kind": "bell", "label": "chsh-asym", "J": [[2.0, -2.0], [-3.0, -1.0]], "a": z, "b": z, "aval": pm, "bval": [-1.0, 1.0], "solver": "SCS"},
        {"kind": "bell", "label": "marg-det", "J": [[-2.0, -3.0], [-1.0, 2.0]], "a": [2.0, -1.0], "b": [1.0, -1.0], "aval": pm, "bval": pm, "solver": "SCS"},
        {"kind": "bell", "label": "tilted-chsh", "J": [[1.0, 1.0], [1.0, -1.0]], "a": [0.5, 0.0], "b": z, "aval": pm, "bval": pm, "solver": "SCS"},
        {"kind": "bell", "label": "rank-one", "J": [[3.0, -2.0], [3.0, -2.0]], "a": z, "b": z, "aval": pm, "bval": pm, "solver": "SCS"},
    ]


# ------------------------------------------------------------------------------------------------
# helpers (worker side)


def _fr(x) -> Fr:
    return Fr(float(x))


def _fj(q):
    return frac_json(Fr(q))


def _from_j(p) -> Fr:
    return Fr(int(p[0]), int(p[1]))


def _is_dyadic_small(q: Fr, bits=20):
    d = q.denominator
    return d & (d - 1) == 0 and d <= (1 << bits)


def _ref_solve(prob):
    import cvxpy as cp
    last = None
    for kw in (dict(solver=cp.CLARABEL), dict(solver=cp.CVXOPT, abstol=1e-9, reltol=1e-9, feastol=1e-9), dict(solver=cp.SCS, eps=1e-9, max_iters=50000)):
        try:
            prob.solve(**kw)
            if prob.status in ("optimal", "optimal_inaccurate") and all(v.value is not None for v in prob.variables()):
                return
        except Exception as e:  # noqa: BLE001
            last = e
    raise RuntimeError(f"reference solve failed: {last}")


def _dyadic(x, bits=40):
    return int(round(float(x) * (1 << bits)))


def certify_xor(drv, m, n, D):
    """D: m x n list of Fractions.  Returns (lo, hi, why): Fractions or None, from the verified checkers."""
    import cvxpy as cp
    Df = np.array([[float(D[x][y]) for y in range(n)] for x in range(m)])
    N = m + n
    Dj = [_fj(D[x][y]) for x in range(m) for y in range(n)]
    lo = hi = None
    why = []
    # ---- primal: Gram matrix
    try:
        G = cp.Variable((N, N), symmetric=True)
        pr = cp.Problem(cp.Maximize(cp.sum(cp.multiply(Df, G[:m, m:]))), [G >> 0, cp.diag(G) == 1])
        _ref_solve(pr)
        Gf = np.array(G.value, dtype=float)
        Gf = (Gf + Gf.T) / 2
        bits = 40
        one = 1 << bits
        shrink = (1 << EPS_BITS) - 1  # (1 - 2^-EPS) on the off-diagonal part, exact unit diagonal
        re = np.zeros((N, N), dtype=object)
        for i in range(N):
            for j in range(N):
                if i == j:
                    re[i, j] = one << EPS_BITS
                elif i < j:
                    re[i, j] = _dyadic(min(1.0, max(-1.0, Gf[i, j])), bits) * shrink
                else:
                    re[i, j] = re[j, i]
        im = np.zeros((N, N), dtype=object)
        im[...] = 0
        Gd = DM(re, im, bits + EPS_BITS)
        L = chol_factor(Gd.to_float())
        if L is None:
            why.append("primal:cholesky")
        else:
            r = drv.ask("c08_primal", {"m": m, "n": n, "k": N, "D": Dj, "G": Gd.json(), "L": L.json()})
            if "ok" in r:
                lo = _from_j(r["ok"])
            else:
                why.append("primal:" + r["reject"])
    except RuntimeError as e:
        why.append("primal:ref-solve")
    # ---- dual
    try:
        a = cp.Variable(m)
        b = cp.Variable(n)
        Z = cp.bmat([[cp.diag(a), -Df], [-Df.T, cp.diag(b)]])
        pd = cp.Problem(cp.Minimize((cp.sum(a) + cp.sum(b)) / 2), [Z >> 0])
        _ref_solve(pd)
        bits = 40
        marg = 1 << (bits - EPS_BITS)
        ad = [_dyadic(x, bits) + marg for x in np.atleast_1d(a.value)]
        bd = [_dyadic(x, bits) + marg for x in np.atleast_1d(b.value)]
        Zf = np.block([[np.diag([x / (1 << bits) for x in ad]), -Df], [-Df.T, np.diag([x / (1 << bits) for x in bd])]])
        L = chol_factor(Zf)
        if L is None:
            why.append("dual:cholesky")
        else:
            r = drv.ask("c08_dual", {"m": m, "n": n, "k": N, "D": Dj, "a": [[x, 1 << bits] for x in ad], "b": [[x, 1 << bits] for x in bd], "L": L.json()})
            if "ok" in r:
                hi = _from_j(r["ok"])
            else:
                why.append("dual:" + r["reject"])
    except RuntimeError as e:
        why.append("dual:ref-solve")
    return lo, hi, why


def _capture_check(problem, m, n, D, drv, rng):
    """informational: the program toqito hands to the solver, evaluated at an integer point, against the model's block matrix"""
    import cvxpy as cp
    try:
        if not isinstance(problem.objective, cp.Minimize) or len(problem.constraints) != 1:
            return "unrecognised"
        vs = problem.variables()
        if len(vs) != 2:
            return "unrecognised"
        con = problem.constraints[0]
        if type(con).__name__ != "PSD":
            return "unrecognised"
        av = [int(x) for x in rng.integers(-5, 6, size=m)]
        bv = [int(x) for x in rng.integers(-5, 6, size=n)]
        r = drv.ask("c08_dual_mat", {"m": m, "n": n, "D": [_fj(D[x][y]) for x in range(m) for y in range(n)], "a": av, "b": bv})
        Zm = [_from_j(p) for p in r["Z"]]
        for order in ((0, 1), (1, 0)):
            va, vb = vs[order[0]], vs[order[1]]
            if va.shape != (m,) or vb.shape != (n,):
                continue
            va.value = np.array(av, dtype=float)
            vb.value = np.array(bv, dtype=float)
            Zf = np.array(con.args[0].value, dtype=float)
            obj = float(problem.objective.args[0].value)
            if Zf.shape == (m + n, m + n) and all(Fr(float(Zf[i, j])) == Zm[i * (m + n) + j] for i in range(m + n) for j in range(m + n)) and obj == sum(av) + sum(bv):
                return "match"
        return "mismatch"
    except Exception as e:  # noqa: BLE001
        return "unrecognised"


def _exact_classical_reps2(P, pred, m, n):
    """exact classical value of the 2-fold parallel repetition of the converted game (harness-side brute force:
    for every answer function of Bob the best response of Alice per question pair)"""
    qa = [(x1, x2) for x1 in range(m) for x2 in range(m)]
    qb = [(y1, y2) for y1 in range(n) for y2 in range(n)]
    ans = [(a1, a2) for a1 in range(2) for a2 in range(2)]
    best = Fr(-1)
    for bs in itertools.product(range(4), repeat=len(qb)):
        tot = Fr(0)
        for (x1, x2) in qa:
            bestx = None
            for (a1, a2) in ans:
                s = Fr(0)
                for iy, (y1, y2) in enumerate(qb):
                    b1, b2 = ans[bs[iy]]
                    if (a1 ^ b1) == pred[x1][y1] and (a2 ^ b2) == pred[x2][y2]:
                        s += P[x1][y1] * P[x2][y2]
                if bestx is None or s > bestx:
                    bestx = s
            tot += bestx
        if tot > best:
            best = tot
    return best


def _bucket(dev):
    """histogram key for the distance of an implementation value from the certified interval"""
    if dev <= 0:
        return "inside"
    return "<=1e%d" % math.ceil(math.log10(dev))


def _desc(task, call):
    d = {k: task[k] for k in task if k != "calls"}
    d["call"] = call
    return d


# ------------------------------------------------------------------------------------------------
# worker: one XOR game


def work_game(task, res: Result):
    import cvxpy
    from toqito.nonlocal_games.nonlocal_game import NonlocalGame
    from toqito.nonlocal_games.xor_game import XORGame
    warnings.filterwarnings("ignore")
    drv = worker_driver()
    m, n, reps, tol = task["m"], task["n"], task["reps"], task["tol"]
    prob = np.array(task["prob"], dtype=float)
    pred_i = np.array(task["pred"], dtype=int)
    pred = pred_i.astype({"int": int, "float": float, "bool": bool}[task["pred_dtype"]])
    P = [[_fr(prob[x, y]) for y in range(n)] for x in range(m)]
    pj = [_fj(P[x][y]) for x in range(m) for y in range(n)]
    fj = [int(pred_i[x, y]) for x in range(m) for y in range(n)]
    exact_dyadic = all(_is_dyadic_small(P[x][y]) for x in range(m) for y in range(n))
    lrng = np.random.default_rng(zlib.crc32(str(pj).encode()))
    pres = task.get("pres")
    guards = []  # (Pure guard, text) of every pair of arrays handed to a game constructor in this task (the objects stay referenced by the games)
    # ---- model: cost matrix, exact classical value
    Dl = [_from_j(p) for p in drv.ask("c08_dmat", {"m": m, "n": n, "prob": pj, "pred": fj})["D"]]
    D = [[Dl[x * n + y] for y in range(n)] for x in range(m)]
    cl = drv.ask("c08_classical", {"m": m, "n": n, "prob": pj, "pred": fj})
    c_exact, bias_c, total = _from_j(cl["value"]), _from_j(cl["bias"]), _from_j(cl["total"])
    # ---- certified interval for the quantum bias
    lo, hi, why = certify_xor(drv, m, n, D)
    certified = lo is not None and hi is not None and float(hi - lo) <= WIDTH_OK
    if not certified:
        res.count("uncertified/" + ";".join(why)[:60] if why else "uncertified/wide")
    kw = {} if tol is None else {"tol": tol}
    branch_base = f"{task['pred_dtype']}/tol={'default' if tol is None else 'given'}"
    res.count(f"size/{m}x{n}")
    nontriv = certified and float(lo - bias_c) >= 1e-2

    def vbounds(r):
        vl = _from_j(drv.ask("c08_value", {"s": _fj(2 * lo), "reps": r})["value"])
        vh = _from_j(drv.ask("c08_value", {"s": _fj(2 * hi), "reps": r})["value"])
        return float(vl), float(vh)

    def make(r, key=""):
        # the same values in a presentation drawn for this construction; the game keeps references to the objects handed over
        prng = call_rng(pres, "make", key, r)
        a_prob = present_nd(prng, prob.copy())
        a_pred = present_nd(prng, pred.copy(), allow_dtype=False)
        guards.append((Pure(a_prob, a_pred), describe([a_prob, a_pred])))
        return XORGame(a_prob, a_pred, reps=r, **kw)

    def fail(call, what, extra):
        info = {"function": "XORGame." + call, "args": _desc(task, call)}
        info.update(extra)
        res.violation(what, info)

    def purity(call):
        for g in list(guards):
            why = g[0].modified()
            if why is not None:
                guards.remove(g)
                fail(call, f"XORGame.{call}: caller's arguments were modified ({why}; arg0 = prob_mat, arg1 = pred_mat)", {"modified": why, "presentation": g[1], "check": "purity", "impl": "mutation"})

    def guarded(call, fn):
        try:
            out = fn()
            purity(call)
            return True, out
        except cvxpy.error.SolverError as e:
            res.case(_desc(task, call), False, f"{call}/solver-numerical-failure")
            return False, None
        except Exception as e:  # noqa: BLE001
            res.case(_desc(task, call), True, f"{call}/raise")
            fail(call, f"XORGame.{call} raises {type(e).__name__}: {str(e)[:160]} on a valid game ({task['label']}, {m}x{n}, pred dtype {task['pred_dtype']})",
                 {"exception": f"{type(e).__name__}: {str(e)[:300]}"})
            return False, None

    # ---- sanity of the certified data against cited facts (never blames toqito)
    if certified:
        if float(bias_c) > float(hi) + 1e-12:
            res.violation("harness: exact classical bias above the certified dual bound (contradicts xor_classical_le_quantum)", {"function": "harness", "args": _desc(task, "sanity"), "bias_c": float(bias_c), "hi": float(hi)})
        if float(lo) > K_G * float(bias_c) + 1e-9:
            res.violation("harness: certified quantum bias exceeds the Grothendieck bound K_G * classical bias (cited inequality or certificate wrong)", {"function": "harness", "args": _desc(task, "sanity"), "bias_c": float(bias_c), "lo": float(lo)})
        if task["label"].startswith("odd-cycle-"):
            nq = int(task["label"].split("-")[-1])
            cf = math.cos(math.pi / (4 * nq)) ** 2
            res.count("closed-form/odd-cycle")
            if not (0.5 + 0.5 * float(lo) - 1e-6 <= cf <= 0.5 + 0.5 * float(hi) + 1e-6):
                res.violation("harness: certified interval misses the closed form cos^2(pi/4n) of the odd-cycle game", {"function": "harness", "args": _desc(task, "sanity"), "closed_form": cf, "certified_bias": [float(lo), float(hi)]})
        if task["label"].startswith("chsh") and task["label"] != "chsh-tol":
            cf = math.cos(math.pi / 8) ** 2
            res.count("closed-form/chsh")
            if not (0.5 + 0.5 * float(lo) - 1e-6 <= cf <= 0.5 + 0.5 * float(hi) + 1e-6):
                res.violation("harness: certified interval misses cos^2(pi/8) for CHSH", {"function": "harness", "args": _desc(task, "sanity"), "closed_form": cf, "certified_bias": [float(lo), float(hi)]})

    g1 = None
    c_impl = None
    # ---- quantum value (with repetitions)
    if "q" in task["calls"]:
        captured = []
        orig = cvxpy.Problem.solve

        def rec(self, *a, **k):
            captured.append(self)
            return orig(self, *a, **k)

        q_again = []

        def call_q():
            g = make(reps, "q")
            cvxpy.Problem.solve = rec
            try:
                v = float(g.quantum_value())
            finally:
                cvxpy.Problem.solve = orig
            prq = call_rng(pres, "q-again")
            if prq is not None and int(prq.integers(3)) == 0:
                purity("quantum_value")
                q_again.append(float(g.quantum_value()))   # the SAME game object again
            return v

        ok, q = guarded("quantum_value", call_q)
        if ok and q_again:
            res.count("repeat-call/quantum_value")
            if abs(q_again[0] - q) > 2 * TAU:
                fail("quantum_value", f"XORGame.quantum_value: a second call on the same game returns {q_again[0]:.8f}, the first returned {q:.8f}", {"values": [q, q_again[0]], "check": "repeat"})
        if ok:
            res.case(_desc(task, "quantum_value"), nontriv, f"quantum_value/reps={reps}/" + branch_base)
            if captured:
                res.count("sdp-capture/" + _capture_check(captured[-1], m, n, D, drv, lrng))
            if certified:
                vl, vh = vbounds(reps)
                if not (vl - TAU <= q <= vh + TAU):
                    fail("quantum_value", f"XORGame.quantum_value (reps={reps}) = {q:.8f} outside the certified value interval [{vl:.8f}, {vh:.8f}] (bias in [{float(lo):.8f}, {float(hi):.8f}])",
                         {"impl": q, "certified_value": [vl, vh], "certified_bias": [float(lo), float(hi)], "tau": TAU, "theorem": "checkXorPrimal_sound / checkXorDual_sound / xor_value_bounds"})
                else:
                    res.count("deviation/quantum_value/" + _bucket(max(vl - q, q - vh, 0.0)))
                # classical <= quantum <= min(1, Grothendieck)
                cap = min(1.0, (0.5 + 0.5 * K_G * float(bias_c)) ** reps)
                if q > cap + TAU:
                    fail("quantum_value", f"XORGame.quantum_value (reps={reps}) = {q:.8f} exceeds min(1, Grothendieck bound) = {cap:.8f}", {"impl": q, "cap": cap, "theorem": "Grothendieck (cited)"})
                if q < float(c_exact) ** reps - TAU:
                    fail("quantum_value", f"XORGame.quantum_value (reps={reps}) = {q:.8f} below the classical value power {float(c_exact) ** reps:.8f}", {"impl": q, "classical": float(c_exact), "theorem": "xor_classical_le_quantum"})
    # ---- classical value (single shot): exact
    if "c" in task["calls"]:
        c_again = []

        def call_c():
            nonlocal g1
            g1 = make(1, "c")
            v = g1.classical_value()
            purity("classical_value")
            c_again.append(g1.classical_value())   # the SAME game object again
            return v

        ok, c = guarded("classical_value", call_c)
        if ok and float(c_again[0]) != float(c):
            fail("classical_value", f"XORGame.classical_value: a second call on the same game returns {float(c_again[0])!r}, the first returned {float(c)!r}", {"values": [float(c), float(c_again[0])], "check": "repeat"})
        if ok:
            c_impl = float(c)
            res.case(_desc(task, "classical_value"), nontriv, "classical_value/" + branch_base + ("/exact" if exact_dyadic else "/1e-12"))
            diff = abs(Fr(c_impl) - c_exact)
            if (exact_dyadic and diff != 0) or diff > Fr(1, 10 ** 12):
                fail("classical_value", f"XORGame.classical_value = {c_impl!r} differs from the exact maximum over sign assignments {float(c_exact)!r} = 1/2*{float(total)} + 1/2*{float(bias_c)}",
                     {"impl": c_impl, "model": str(c_exact), "bias": str(bias_c), "theorem": "xor_classical_value_is_max / xor_classical_value_formula"})
            if not (np.array_equal(g1.prob_mat, prob) and np.array_equal(np.asarray(g1.pred_mat), pred)):
                fail("classical_value", "XORGame.classical_value: caller's arguments were modified (the matrices held by the game differ from the values handed over)", {"impl": "mutation", "check": "purity"})
    # ---- conversion
    nlg = None
    if "conv" in task["calls"]:
        def call_conv():
            return make(1, "conv").to_nonlocal_game()

        ok, nlg = guarded("to_nonlocal_game", call_conv)
        if ok:
            res.case(_desc(task, "to_nonlocal_game"), nontriv, "to_nonlocal_game/" + branch_base)
            want = [int(_from_j(p)) for p in drv.ask("c08_nlg_pred", {"m": m, "n": n, "pred": fj})["pred"]]
            got_arr = np.asarray(nlg.pred_mat)
            good = got_arr.shape == (2, 2, m, n) and [float(v) for v in got_arr.reshape(-1)] == [float(v) for v in want]
            if not good or not np.array_equal(np.asarray(nlg.prob_mat), prob):
                fail("to_nonlocal_game", "converted game differs from V(a,b|x,y) = [f(x,y) = a xor b] with the same distribution",
                     {"impl": {"shape": list(got_arr.shape), "pred": got_arr.reshape(-1).tolist()}, "model": want, "theorem": "xor_conversion"})
            else:
                okc, c2v = guarded("to_nonlocal_game().classical_value", lambda: float(nlg.classical_value()))
                if okc:
                    okc2, c2w = guarded("to_nonlocal_game().classical_value", lambda: float(nlg.classical_value()))   # the SAME converted game again
                    if okc2 and c2w != c2v:
                        fail("to_nonlocal_game", f"classical value of the converted game: a second call on the same object returns {c2w!r}, the first returned {c2v!r}", {"values": [c2v, c2w], "check": "repeat"})
                if okc:
                    diff = abs(Fr(c2v) - c_exact)
                    if (exact_dyadic and diff != 0) or diff > Fr(1, 10 ** 12) or (c_impl is not None and c2v != c_impl):
                        fail("to_nonlocal_game", f"classical value of the converted game {c2v!r} differs from the XOR classical value {c_impl!r} / exact {float(c_exact)!r}",
                             {"impl": c2v, "xor": c_impl, "model": str(c_exact), "theorem": "xor_conversion / xor_classical_value_formula"})
    # ---- level-1 NPA bound of the converted game
    if "npa" in task["calls"] and nlg is not None:
        ok, v = guarded("to_nonlocal_game().commuting_measurement_value_upper_bound", lambda: float(nlg.commuting_measurement_value_upper_bound(k=1)))
        if ok:
            res.case(_desc(task, "npa1"), nontriv, "npa1")
            if certified:
                vl, vh = vbounds(1)
                res.count("deviation/npa1/" + _bucket(max(vl - v, v - vh, 0.0)))
                if not (vl - TAU <= v <= vh + TAU):
                    fail("to_nonlocal_game", f"level-1 NPA bound of the converted game = {v:.8f} outside the certified XOR quantum value interval [{vl:.8f}, {vh:.8f}]",
                         {"impl": v, "certified_value": [vl, vh], "tau": TAU, "theorem": "checkXorPrimal_sound / checkXorDual_sound / xor_win_eq_bias"})
    # ---- non-signalling values of both formulations
    if "ns" in task["calls"]:
        ok, v1 = guarded("nonsignaling_value", lambda: float(make(1, "ns").nonsignaling_value()))
        if ok:
            res.case(_desc(task, "nonsignaling_value"), nontriv, "nonsignaling_value")
            res.count("deviation/nonsignaling_value/" + _bucket(abs(v1 - float(total))))
            if abs(v1 - float(total)) > TAU:
                fail("nonsignaling_value", f"XORGame.nonsignaling_value = {v1:.8f}, but every XOR game has non-signalling value {float(total)} (PR-box-like behaviour)", {"impl": v1, "model": float(total), "theorem": "xor_ns_value_eq_one"})
            if nlg is not None:
                ok2, v2 = guarded("to_nonlocal_game().nonsignaling_value", lambda: float(nlg.nonsignaling_value()))
                if ok2 and abs(v2 - v1) > TAU:
                    fail("nonsignaling_value", f"non-signalling values of the two formulations differ: XOR {v1:.8f}, converted {v2:.8f}", {"impl": [v1, v2], "theorem": "xor_ns_value_eq_one"})
    # ---- classical value of two repetitions (small games): exact product-game value, between c^2 and q^2
    if "c2" in task["calls"] and m <= 2 and n <= 2:
        ok, c2 = guarded("classical_value(reps=2)", lambda: float(make(2, "c2").classical_value()))
        if ok:
            res.case(_desc(task, "classical_value_reps2"), nontriv, "classical_value/reps=2")
            ex = _exact_classical_reps2(P, pred_i.tolist(), m, n)
            if abs(Fr(c2) - ex) > Fr(1, 10 ** 12):
                fail("classical_value", f"XORGame(reps=2).classical_value = {c2!r} differs from the exact classical value of the 2-fold game {float(ex)!r}", {"impl": c2, "model": str(ex), "theorem": "definition (harness brute force)"})
            if total == 1 and (ex < c_exact * c_exact or (certified and float(ex) > vbounds(2)[1] + 1e-9)):
                res.violation("harness: 2-fold classical value outside [c^2, q^2]", {"function": "harness", "args": _desc(task, "sanity"), "c2": float(ex), "c": float(c_exact)})
            pv = drv.ask("c08_classical_path", {"m": m, "n": n, "reps": 2, "prob": pj, "pred": fj})["value"]
            if pv is None or _from_j(pv) != ex:
                res.violation("harness: the Lean mirror of the classical_value code path (reps=2) differs from the harness brute force over the 2-fold game",
                              {"function": "harness", "args": _desc(task, "sanity"), "model_path": pv, "brute_force": str(ex)})
    # ---- classical value with the task's repetitions: XORGame(reps=r).classical_value() = NonlocalGame(prob, V, reps=r).classical_value();
    #      oracle: the Lean mirror of exactly this code path (xorClassicalCall; theorem xor_classical_path: it is the classical value of the product game)
    if "cr" in task["calls"] and reps >= 2:
        ok, cr = guarded(f"classical_value(reps={reps})", lambda: float(make(reps, "cr").classical_value()))
        if ok:
            res.case(_desc(task, f"classical_value_reps{reps}"), nontriv, f"classical_value/reps={reps}/code-path")
            pv = drv.ask("c08_classical_path", {"m": m, "n": n, "reps": reps, "prob": pj, "pred": fj})["value"]
            exr = None if pv is None else _from_j(pv)
            diff = None if exr is None else abs(Fr(cr) - exr)
            if exr is None or (exact_dyadic and diff != 0) or diff > Fr(1, 10 ** 12):
                fail("classical_value", f"XORGame(reps={reps}).classical_value = {cr!r} differs from the classical value of the {reps}-fold product game {None if exr is None else float(exr)!r} (Lean mirror of to_nonlocal_game().classical_value())",
                     {"impl": cr, "model": None if exr is None else str(exr), "theorem": "xor_classical_path"})
            elif total == 1 and exact_dyadic:
                # sanity of the model against proved / cited facts: c^r <= classical value of the r-fold game <= q^r
                if exr < c_exact ** reps or (certified and float(exr) > vbounds(reps)[1] + 1e-9):
                    res.violation(f"harness: {reps}-fold classical value outside [c^r, q^r]", {"function": "harness", "args": _desc(task, "sanity"), "cr": float(exr), "c": float(c_exact)})


# ------------------------------------------------------------------------------------------------
# worker: one Bell expression


def _obs(theta):
    return np.array([[math.cos(theta), math.sin(theta)], [math.sin(theta), -math.cos(theta)]])


def _bell_op(J, a, b, A, B):
    I2 = np.eye(2)
    op = sum(J[x][y] * np.kron(A[x], B[y]) for x in range(2) for y in range(2))
    op = op + sum(a[x] * np.kron(A[x], I2) for x in range(2)) + sum(b[y] * np.kron(I2, B[y]) for y in range(2))
    return op


def _rational_obs(theta):
    """Hermitian involution [[c, s], [s, -c]] with rational c, s close to (cos, sin)(theta): integers over a common denominator"""
    theta = math.atan2(math.sin(theta), math.cos(theta))
    t = math.tan(theta / 2) if abs(abs(theta) - math.pi) > 1e-9 else float("inf")
    Q = 1 << 12
    if abs(t) <= 1:
        q, p = Q, int(round(t * Q))
    elif math.isinf(t):
        q, p = 0, 1
    else:
        p = Q if t > 0 else -Q
        q = int(round(p / t))
    den = p * p + q * q
    c, s = q * q - p * p, 2 * p * q
    return den, [[c, s], [s, -c]]


def _kron_int(A, B):
    return [[A[i // 2][j // 2] * B[i % 2][j % 2] for j in range(4)] for i in range(4)]


def certify_bell(drv, Jp, ap, bp, rng):
    """Jp, ap, bp: Fractions (+-1 labels).  Returns (lo, hi, det, why)."""
    import cvxpy as cp
    from scipy.optimize import minimize
    Jf = [[float(v) for v in row] for row in Jp]
    af = [float(v) for v in ap]
    bf = [float(v) for v in bp]
    Jj = [_fj(Jp[x][y]) for x in range(2) for y in range(2)]
    aj = [_fj(v) for v in ap]
    bj = [_fj(v) for v in bp]
    why = []
    det = _from_j(drv.ask("c08_bell_det", {"m": 2, "n": 2, "J": Jj, "a": aj, "b": bj})["value"])
    # ---- lower bound: explicit qubit strategy
    lo = None

    def neg_val(p):
        A = [_obs(p[0]), _obs(p[1])]
        B = [_obs(p[2]), _obs(p[3])]
        return -float(np.linalg.eigvalsh(_bell_op(Jf, af, bf, A, B))[-1])

    best_p, best_v = None, None
    starts = [rng.uniform(0, 2 * math.pi, 4) for _ in range(10)] + [np.array(s, dtype=float) * math.pi for s in itertools.product([0, 1], repeat=4)][:8]
    for s0 in starts:
        r = minimize(neg_val, s0, method="BFGS")
        if best_v is None or -r.fun > best_v:
            best_v, best_p = -r.fun, r.x
    dens, mats = zip(*[_rational_obs(th) for th in best_p])
    I2 = [[1, 0], [0, 1]]
    A_int = [(dens[x], _kron_int(mats[x], I2)) for x in range(2)]
    B_int = [(dens[2 + y], _kron_int(I2, mats[2 + y])) for y in range(2)]
    Aq = [np.array(M, dtype=float) / d for d, M in [(dens[0], mats[0]), (dens[1], mats[1])]]
    Bq = [np.array(M, dtype=float) / d for d, M in [(dens[2], mats[2]), (dens[3], mats[3])]]
    w, V = np.linalg.eigh(_bell_op(Jf, af, bf, Aq, Bq))
    psi = V[:, -1]
    eps = 2.0 ** -20
    rho_f = (1 - eps) * np.outer(psi, psi) + eps * np.eye(4) / 4
    rho = DM.from_float(rho_f, 40).herm_part()
    tr = sum(int(rho.re[i, i]) for i in range(4))
    rho.re[0, 0] = int(rho.re[0, 0]) + ((1 << rho.e) - tr)
    L = chol_factor(rho.to_float(), delta=2.0 ** -26)
    if L is None:
        why.append("strategy:cholesky")
    else:
        def mj(d, M):
            return {"den": d, "re": [int(v) for row in M for v in row]}
        r = drv.ask("c08_bell_strategy", {"m": 2, "n": 2, "N": 4, "k": 4, "J": Jj, "a": aj, "b": bj, "rho": rho.json(), "Lrho": L.json(),
                                          "A": [mj(d, M) for d, M in A_int], "B": [mj(d, M) for d, M in B_int]})
        if "ok" in r:
            lo = _from_j(r["ok"])
        else:
            why.append("strategy:" + r["reject"])
    # ---- upper bound: Tsirelson dual of the extended coefficient matrix [[t, b^T], [a, J]]
    hi = None
    try:
        t = cp.Variable()
        u = cp.Variable(3)
        v = cp.Variable(3)
        D0 = np.zeros((3, 3))
        D0[0, 1:] = bf
        D0[1:, 0] = af
        D0[1:, 1:] = np.array(Jf)
        E = np.zeros((3, 3))
        E[0, 0] = 1.0
        Dt = D0 + t * E
        Z = cp.bmat([[cp.diag(u), -Dt], [-Dt.T, cp.diag(v)]])
        # the multiplier t of <A_* B_*> = 1 is capped: the infimum over t need not be attained (t -> infinity when the
        # deterministic value is optimal), and a moderate t already gives the bound up to ~1e-3 of the scale
        S = float(np.abs(D0).sum())
        pd = cp.Problem(cp.Minimize((cp.sum(u) + cp.sum(v)) / 2 - t), [Z >> 0, t <= 2 * S + 2])
        _ref_solve(pd)
        bits = 40
        marg = int(max(1.0, S) * (1 << (bits - EPS_BITS)))
        td = _dyadic(t.value, bits)
        ud = [_dyadic(x, bits) + marg for x in u.value]
        vd = [_dyadic(x, bits) + marg for x in v.value]
        Dtf = D0 + (td / (1 << bits)) * E
        Zf = np.block([[np.diag([x / (1 << bits) for x in ud]), -Dtf], [-Dtf.T, np.diag([x / (1 << bits) for x in vd])]])
        L = chol_factor(Zf)
        if L is None:
            why.append("dual:cholesky")
        else:
            r = drv.ask("c08_bell_dual", {"m": 2, "n": 2, "k": 6, "J": Jj, "a": aj, "b": bj, "t": [td, 1 << bits], "u": [[x, 1 << bits] for x in ud],
                                          "v": [[x, 1 << bits] for x in vd], "L": L.json()})
            if "ok" in r:
                hi = _from_j(r["ok"])
            else:
                why.append("dual:" + r["reject"])
    except RuntimeError:
        why.append("dual:ref-solve")
    return lo, hi, det, why


# ------------------------------------------------------------------------------------------------
# feasibility embedding into the program that bell_inequality_max builds (scheme B, second device)


class _Captured(Exception):
    pass


def _capture_problem(fn):
    """runs fn() with cvxpy.Problem.solve replaced (this process only, restored afterwards) by a recorder that keeps the Problem and aborts"""
    import cvxpy
    got = []
    orig = cvxpy.Problem.solve

    def fake(self, *a, **k):
        got.append(self)
        raise _Captured()

    cvxpy.Problem.solve = fake
    try:
        try:
            fn()
        except _Captured:
            pass
    finally:
        cvxpy.Problem.solve = orig
    return got


def _proj_frac(p, q):
    """rank-one real projector onto (p, q) and the +-1 observable 2P - 1, exact"""
    d = p * p + q * q
    P = [[Fr(p * p, d), Fr(p * q, d)], [Fr(p * q, d), Fr(q * q, d)]]
    S_int = [[p * p - q * q, 2 * p * q], [2 * p * q, q * q - p * p]]
    return P, (d, S_int)


def _rand_qubit_strategy(rng):
    """exact real two-qubit strategy: full-rank rational density matrix, rank-one projective measurements; the SECOND setting of either
    party is the computational-basis measurement (the program fixes it through `aux_mat`)"""
    while True:
        vs = [[int(t) for t in rng.integers(-3, 4, size=4)] for _ in range(int(rng.integers(1, 4)))]
        vs = [v for v in vs if any(v)]
        if vs:
            break
    ws = [int(rng.integers(1, 5)) for _ in vs]
    tot = sum(ws) + 1
    rho = [[Fr(1, 4 * tot) if i == j else Fr(0) for j in range(4)] for i in range(4)]      # weight 1/tot on the maximally mixed state: full rank
    for w, v in zip(ws, vs):
        nn = sum(t * t for t in v)
        for i in range(4):
            for j in range(4):
                rho[i][j] += Fr(w * v[i] * v[j], tot * nn)
    while True:
        pa, qa, pb, qb = (int(t) for t in rng.integers(-4, 5, size=4))
        if (pa or qa) and (pb or qb):
            break
    return rho, (pa, qa), (pb, qb)


def _embed_bell(task, res, drv, bargs_of, Jp, ap, bp, const, scale, rng):
    """W = rho (x) phi (x) psi for exact real qubit strategies: every captured constraint must accept it and the captured objective must be the
    Bell value of the strategy (computed by the verified checker `checkBellStrategy` on the exact data)"""
    from toqito.state_opt import bell_inequality_max
    desc = {k: v for k, v in task.items() if k != "pres"}
    probs = _capture_problem(lambda: bell_inequality_max(*bargs_of(), solver_name=task.get("solver", "SCS")))
    if len(probs) != 1:
        raise CorrespondenceBroken(f"expected one cvxpy problem from bell_inequality_max, captured {len(probs)}")
    P = probs[0]
    vs = P.variables()
    if len(vs) != 1 or tuple(vs[0].shape) != (16, 16):
        raise CorrespondenceBroken(f"bell_inequality_max (two settings): expected one 16x16 variable, found {[tuple(v.shape) for v in vs]}")
    W = vs[0]
    Jj = [_fj(Jp[x][y]) for x in range(2) for y in range(2)]
    aj = [_fj(v) for v in ap]
    bj = [_fj(v) for v in bp]
    Z = (1, [[1, 0], [0, -1]])
    I2 = [[1, 0], [0, 1]]
    P0 = [[Fr(1), Fr(0)], [Fr(0), Fr(0)]]
    for it in range(3):
        rho, (pa, qa), (pb, qb) = _rand_qubit_strategy(rng)
        phi, SA = _proj_frac(pa, qa)
        psi, SB = _proj_frac(pb, qb)
        den = 1
        for row in rho:
            for v in row:
                den = den * v.denominator // math.gcd(den, v.denominator)
        rho_f = np.array([[float(v) for v in row] for row in rho])
        L = chol_factor(rho_f, delta=2.0 ** -30)
        if L is None:
            res.count("bell-embed/skipped:cholesky")
            continue
        r = drv.ask("c08_bell_strategy", {"m": 2, "n": 2, "N": 4, "k": 4, "J": Jj, "a": aj, "b": bj,
                                          "rho": {"den": den, "re": [int(v * den) for row in rho for v in row]}, "Lrho": L.json(),
                                          "A": [{"den": d, "re": [int(v) for row in _kron_int(M, I2) for v in row]} for d, M in (SA, Z)],
                                          "B": [{"den": d, "re": [int(v) for row in _kron_int(I2, M) for v in row]} for d, M in (SB, Z)]})
        if "ok" not in r:
            res.count("bell-embed/skipped:" + r["reject"][:40])
            continue
        exact = const + _from_j(r["ok"])
        Wv = np.kron(np.kron(rho_f, np.array([[float(v) for v in row] for row in phi])), np.array([[float(v) for v in row] for row in psi]))
        W.save_value(Wv)
        bad = []
        for idx, c in enumerate(P.constraints):
            v = c.violation()
            rr = float(np.max(np.abs(v))) if np.size(v) else 0.0
            if not np.isfinite(rr) or rr > 1e-9:
                bad.append([idx, type(c).__name__, rr, str(c)[:160]])
        obj = float(P.objective.args[0].value)
        sdesc = dict(desc, strategy={"rho": [[str(v) for v in row] for row in rho], "alice_setting_1": [pa, qa], "bob_setting_1": [pb, qb]})
        res.case(sdesc, True, "bell-embed/" + task["label"])
        if bad:
            res.violation(f"bell_inequality_max: the program it builds rejects a real two-qubit strategy with rank-one projective measurements (W = rho x phi x psi violates "
                          f"{len(bad)} of {len(P.constraints)} constraints, e.g. {bad[0]}): the relaxation cuts off a quantum strategy, its optimum is not the quantum maximum",
                          {"function": "bell_inequality_max (constraints)", "args": sdesc, "violated": bad[:5], "theorem": "checkBellStrategy_sound (the strategy is a quantum strategy)"})
        if abs(obj - float(exact)) > 1e-9 * scale:
            res.violation(f"bell_inequality_max: the objective it hands to the solver evaluates to {obj!r} at the embedding of a two-qubit strategy whose Bell value is {float(exact)!r} "
                          f"(coefficients J={task['J']}, a={task['a']}, b={task['b']}, labels {task['aval']}, {task['bval']})",
                          {"function": "bell_inequality_max (objective)", "args": sdesc, "impl": obj, "model": str(exact), "theorem": "checkBellStrategy_sound / bell_affine_change"})
        else:
            res.count("bell-embed/objective-exact")
        if it == 0:
            W.save_value(2 * Wv)   # negative control: trace 2
            if not any(float(np.max(np.abs(c.violation()))) > 1e-9 for c in P.constraints):
                raise InfraError("negative control: W with trace 2 passed every captured constraint of bell_inequality_max")
            res.count("bell-embed/negative-control-detected")


def work_bell(task, res: Result):
    import cvxpy
    from toqito.state_opt import bell_inequality_max
    warnings.filterwarnings("ignore")
    drv = worker_driver()
    J = np.array(task["J"], dtype=float)
    a = np.array(task["a"], dtype=float)
    b = np.array(task["b"], dtype=float)
    aval = np.array(task["aval"], dtype=float)
    bval = np.array(task["bval"], dtype=float)
    lrng = np.random.default_rng(zlib.crc32(str(sorted((k, v) for k, v in task.items() if k != "pres")).encode()))
    aff = drv.ask("c08_bell_affine", {"m": 2, "n": 2, "J": [_fj(_fr(J[x, y])) for x in range(2) for y in range(2)], "a": [_fj(_fr(v)) for v in a],
                                      "b": [_fj(_fr(v)) for v in b], "aval": [_fj(_fr(v)) for v in aval], "bval": [_fj(_fr(v)) for v in bval]})
    Jl = [_from_j(p) for p in aff["J"]]
    Jp = [[Jl[0], Jl[1]], [Jl[2], Jl[3]]]
    ap = [_from_j(p) for p in aff["a"]]
    bp = [_from_j(p) for p in aff["b"]]
    const = _from_j(aff["const"])
    lo, hi, det, why = certify_bell(drv, Jp, ap, bp, lrng)
    has_marg = any(v != 0 for v in ap) or any(v != 0 for v in bp)
    scale = max(1.0, float(sum(abs(v) for row in Jp for v in row) + sum(abs(v) for v in ap) + sum(abs(v) for v in bp)) + abs(float(const)))
    tau = TAU * scale
    if lo is None or hi is None or (not has_marg and float(hi - lo) > WIDTH_OK * scale):
        res.count("uncertified/bell:" + ";".join(why)[:60])
    desc = dict(task)
    nontriv = lo is not None and float(lo - det) >= 1e-2 and (has_marg or (hi is not None and float(hi - lo) <= WIDTH_OK * scale))
    # the same values in a presentation drawn for this call (layout; integer-valued coefficients / labels also as int64)
    prng = call_rng(task.get("pres"), "bell")
    bargs = [present_nd(prng, x.copy()) for x in (J, a, b, aval, bval)]
    guard = Pure(*bargs)
    try:
        bm = float(bell_inequality_max(*bargs, solver_name=task.get("solver", "SCS")))
        why_mod = guard.modified()
        bm2 = None
        if why_mod is None and prng is not None and int(prng.integers(4)) == 0:
            bm2 = float(bell_inequality_max(*bargs, solver_name=task.get("solver", "SCS")))   # the SAME objects again
            why_mod = guard.modified()
    except cvxpy.error.SolverError:
        res.case(desc, False, "bell/solver-numerical-failure")
        return
    except Exception as e:  # noqa: BLE001
        res.case(desc, True, "bell/raise")
        res.violation(f"bell_inequality_max raises {type(e).__name__}: {str(e)[:160]} on a valid two-setting inequality",
                      {"function": "bell_inequality_max", "args": desc, "exception": f"{type(e).__name__}: {str(e)[:300]}", "presentation": describe(bargs)})
        return
    res.case(desc, nontriv, f"bell/{task['label']}/{'marg' if has_marg else 'corr'}/{'pm1' if sorted(task['aval']) == [-1.0, 1.0] and sorted(task['bval']) == [-1.0, 1.0] else 'labels'}")
    if why_mod is not None:
        res.violation(f"bell_inequality_max: caller's arguments were modified ({why_mod}; arguments in the order joint_coe, a_coe, b_coe, a_val, b_val)",
                      {"function": "bell_inequality_max", "args": desc, "modified": why_mod, "presentation": describe(bargs), "check": "purity"})
    elif bm2 is not None:
        res.count("repeat-call/bell")
        if abs(bm2 - bm) > 2 * tau:
            res.violation(f"bell_inequality_max: a second call on the same objects returns {bm2:.8f}, the first returned {bm:.8f}",
                          {"function": "bell_inequality_max", "args": desc, "values": [bm, bm2], "presentation": describe(bargs), "check": "repeat"})
    _embed_bell(task, res, drv, lambda: [x.copy() for x in (J, a, b, aval, bval)], Jp, ap, bp, const, scale, lrng)
    info = {"function": "bell_inequality_max", "args": desc, "impl": bm, "presentation": describe(bargs), "pm1_form": {"J": [[str(v) for v in r] for r in Jp], "a": [str(v) for v in ap], "b": [str(v) for v in bp], "const": str(const)}, "tau": tau}
    dmax = float(const + det)
    if bm < dmax - tau:
        res.violation(f"bell_inequality_max = {bm:.8f} is below the best deterministic assignment {dmax:.8f}", dict(info, deterministic=dmax, theorem="bell_det_le_opt"))
        return
    if lo is not None and bm < float(const + lo) - tau:
        res.violation(f"bell_inequality_max = {bm:.8f} is below the value {float(const + lo):.8f} of an explicit (verified) qubit strategy", dict(info, certified_lower=float(const + lo), theorem="checkBellStrategy_sound"))
        return
    if hi is not None and bm > float(const + hi) + tau:
        res.violation(f"bell_inequality_max = {bm:.8f} exceeds the certified upper bound {float(const + hi):.8f} of the quantum maximum", dict(info, certified_upper=float(const + hi), theorem="checkBellDual_sound"))
        return
    if lo is not None and hi is not None:
        if float(lo) > float(hi) + 1e-12 or float(det) > float(hi) + 1e-12:
            res.violation("harness: certified lower bound above certified upper bound (contradicts bell_lo_le_hi)", {"function": "harness", "args": desc, "lo": float(lo), "hi": float(hi), "det": float(det)})
        if not has_marg:
            res.count("deviation/bell/" + _bucket(max(float(const + lo) - bm, bm - float(const + hi), 0.0) / scale))


# ------------------------------------------------------------------------------------------------



# ------------------------------------------------------------------------------------------------
# worker: the constructor's guards


_INIT_MSG = {"size": "must be matrices of the same size", "negative": "must be non-negative", "sum": "must sum to 1"}


def work_init(task, res: Result):
    from toqito.nonlocal_games.xor_game import XORGame
    drv = worker_driver()
    m, n, e = task["m"], task["n"], task["e"]
    prob = np.array([[v / (1 << e) for v in row] for row in task["num"]], dtype=float)
    assert all(Fr(float(prob[x, y])) == Fr(task["num"][x][y], 1 << e) for x in range(m) for y in range(n))
    pred = np.zeros(tuple(task["pred_shape"]), dtype=int)
    tol = task["tol"]
    r = drv.ask("c08_init", {"q0": m, "q1": n, "p0": task["pred_shape"][0], "p1": task["pred_shape"][1],
                             "prob": [[int(task["num"][x][y]), 1 << e] for x in range(m) for y in range(n)], "tol": None if tol is None else _fj(_fr(tol))})
    want = r["status"]
    kw = {} if tol is None else {"tol": tol}
    try:
        g = XORGame(prob, pred, **kw)
        got = "ok"
        got_tol = Fr(float(g.tol))
    except ValueError as ex:
        got = next((k for k, v in _INIT_MSG.items() if v in str(ex)), "other:" + str(ex)[:80])
        got_tol = None
    desc = {k: task[k] for k in task if k != "pres"}
    res.case(desc, want != "ok", f"init/{task['label']}/model={want}/tol={'default' if tol is None else 'given'}")
    if want == "ok" and got != "ok":
        # an XOR game valid within the stated tolerance must be constructible (theorem xor_init_accepts)
        res.violation(f"XORGame(...) raises ({got}) on a game that is valid within the tolerance: {m}x{n}, tol={tol!r}, label {task['label']}",
                      {"function": "XORGame.__init__", "args": desc, "impl": got, "model": want, "theorem": "xor_init_accepts"})
    elif want == "ok" and got_tol != _from_j(r["tol"]):
        # the value of the default tolerance is not part of the property: recorded, never a violation
        res.count("init-guard/tol-differs-from-model")
    else:
        # rejections are outside the property's quantifier (it speaks of XOR games): agreement of the guard logic is recorded as evidence only
        res.count("init-guard/" + ("agree" if want == got else f"differ/model={want}/impl={got}"))


def work(task, res: Result):
    if task["kind"] == "game":
        work_game(task, res)
    elif task["kind"] == "init":
        work_init(task, res)
    else:
        work_bell(task, res)


BIG_POOL_GAMES = ((10, 10), (10, 11))   # the enumerated player has 2^10 > 1000 strategies: multiprocessing branch of NonlocalGame.classical_value (oracle: one-sided enumeration, theorem xor_classical_one_sided)

# ------------------------------------------------------------------------------------------------
# strict-fp stream: XORGame.__init__ / to_nonlocal_game / classical_value must not depend on NumPy's global floating-point error state


def strict_fp_games(rng):
    out = [g for g in corpus() if g["m"] * g["n"] <= 16]
    out += [
        _game("all-one-pred", [[0.25, 0.25], [0.25, 0.25]], [[1, 1], [1, 1]], "bool"),
        _game("point-mass", [[0.0, 0.0, 0.0], [0.0, 1.0, 0.0]], [[0, 1, 0], [1, 1, 0]], "float"),
        _game("zero-column", [[0.5, 0.0], [0.25, 0.0], [0.25, 0.0]], [[0, 1], [1, 0], [0, 0]]),
        _game("zero-row-and-column", [[0.0, 0.0, 0.0], [0.0, 0.5, 0.25], [0.0, 0.25, 0.0]], [[1, 0, 1], [0, 0, 1], [1, 1, 0]], "float", tol=1e-9),
        _game("1x1-zero-pred", [[1.0]], [[0]], reps=2),
    ]
    for i in range(12):
        m, n = int(rng.integers(1, 5)), int(rng.integers(1, 5))
        kind = ("zero-row-col", "sparse", "uniform")[i % 3]
        out.append(_game(f"rand-{kind}", _dyadic_dist(rng, m, n, 6, kind), rng.integers(0, 2, size=(m, n)), ("int", "float", "bool")[int(rng.integers(3))],
                         None if rng.integers(2) else 1e-6, 2 if (m <= 2 and n <= 2 and rng.integers(2)) else 1))
    return out


def strict_fp_case(ctx, task):
    from toqito.nonlocal_games.xor_game import XORGame
    m, n, tol = task["m"], task["n"], task["tol"]
    reps = task["reps"] if (m <= 2 and n <= 2 and task["reps"] <= 2) else 1
    prob = np.array(task["prob"], dtype=float)
    pred_i = np.array(task["pred"], dtype=int)
    pred = pred_i.astype({"int": int, "float": float, "bool": bool}[task["pred_dtype"]])
    kw = {} if tol is None else {"tol": tol}
    base = dict(task, kind="strict_fp", reps=reps)
    base.pop("calls", None)

    def f():
        g = XORGame(prob.copy(), pred.copy(), reps, **kw)
        nl = g.to_nonlocal_game()
        return float(g.tol), np.array(nl.prob_mat), np.array(nl.pred_mat), float(g.classical_value())

    const = bool(np.all(pred_i == pred_i.flat[0]))
    zeros = bool(np.any(prob.sum(axis=0) == 0) or np.any(prob.sum(axis=1) == 0))
    ctx.case(dict(base, fn="strict_fp"), bool(m >= 2 and n >= 2 and not const), f"strict-fp/reps{reps}/{'const-pred' if const else ('zero-row-col' if zeros else 'plain')}")
    fn = f"XORGame(prob, pred, {reps}" + ("" if tol is None else f", tol={tol!r}") + ") / to_nonlocal_game / classical_value"
    info = {"function": "XORGame.classical_value", "args": base, "theorem": "xor_classical_path (the value is a function of the arguments; the mirror model has no global state)"}
    with warnings.catch_warnings():
        warnings.simplefilter("ignore")
        try:
            dv = ("ok", f())
        except Exception as e:  # noqa: BLE001
            dv = ("raise", f"{type(e).__name__}: {str(e)[:200]}")
        sv = strict_fp_call(f)
    if dv[0] == "ok" and sv[0] == "raise":
        ctx.violation(f"{fn}: value depends on NumPy's floating-point error state (default state: a value; invalid/divide/overflow set to 'raise': {sv[1]}) on the {m} x {n} game '{task['label']}'",
                      dict(info, impl=sv[1], model=dv[1][3]))
        return
    if dv[0] == "raise":
        ctx.violation(f"{fn} raises {dv[1]} on the valid {m} x {n} game '{task['label']}'", dict(info, exception=dv[1]))
        return
    (t0, p0, q0, v0), (t1, p1, q1, v1) = dv[1], sv[1]
    if t0 != t1 or p0.dtype != p1.dtype or q0.dtype != q1.dtype or not np.array_equal(p0, p1) or not np.array_equal(q0, q1):
        ctx.violation(f"{fn}: tol / converted arrays under the strict floating-point error state differ from those of the default state", dict(info, impl=[t1, str(q1.dtype)], model=[t0, str(q0.dtype)]))
        return
    if not abs(v0 - v1) <= 1e-12:
        ctx.violation(f"{fn}: classical value {v1!r} under the strict floating-point error state differs from the default-state value {v0!r}", dict(info, impl=v1, model=v0))
        return
    ctx.count("strict-fp/agree")


def strict_fp_stream(ctx):
    srng = ctx.rng.spawn(1)[0]
    for t in strict_fp_games(srng):
        strict_fp_case(ctx, t)


def run(ctx, model_ok=True):
    rng = ctx.rng
    quick = ctx.tier == "quick"
    tasks = corpus() + bell_corpus()
    n_games = 110 if quick else 2400
    n_bell = 70 if quick else 1200
    if not quick:
        p7, f7 = _odd_cycle(7)
        tasks.append(_game("odd-cycle-7", p7, f7, calls=("q", "c", "conv")))
    games = [gen_game(rng, quick, i) for i in range(n_games)]
    bells = [gen_bell(rng, quick, i) for i in range(n_bell)]
    inits = [gen_init(rng, i) for i in range(60 if quick else 600)]
    # interleave so that the pool is evenly loaded
    k = 0
    while games or bells:
        if games:
            tasks.append(games.pop())
        if bells and k % 2 == 0:
            tasks.append(bells.pop())
        k += 1
    tasks += inits
    prs = rng.spawn(1)[0]   # presentation stream: a child of the seeded generator (spawning does not consume the parent's draws)
    for t in tasks:
        t["pres"] = int(prs.integers(1, 2 ** 31))
    run_pool(ctx, work, tasks)
    # games with >= 10 questions on both sides: the enumerated player has 2^10 > 1000 strategies, so NonlocalGame.classical_value goes through its
    # multiprocessing branch.  They run in this (non-daemonic) process, one after the other: pool workers cannot start a pool of their own.
    import harness.pool as _pool
    brng = np.random.default_rng(20240929)
    for (bm, bn) in BIG_POOL_GAMES:
        w = np.ones(bm * bn, dtype=int)
        w[brng.choice(bm * bn, size=128 - bm * bn, replace=False)] += 1      # entries 1/128 or 2/128, summing to 1
        big = _game(f"pool-{bm}x{bn}", (w / 128.0).reshape(bm, bn), brng.integers(0, 2, size=(bm, bn)), calls=("c", "conv"))
        big["pres"] = int(prs.integers(1, 2 ** 31))
        bres = Result()
        work(big, bres)
        fold(ctx, bres)
    if _pool._driver is not None:
        _pool._driver.close()
        _pool._driver = None
    ctx.extra["tolerances"] = {"scs": TAU, "classical": "exact (1e-12 for non-dyadic distributions)", "bell": "1e-3 * coefficient scale"}
    ctx.extra["certified_interval_width_bound"] = WIDTH_OK
    ctx.extra["grothendieck_constant_used"] = K_G
    # strict floating-point error state (in-process; a fresh child of the seeded generator, spawned last so that no other stream shifts)
    strict_fp_stream(ctx)


def replay(ctx, rec):
    task = rec["args"]
    task = {k: v for k, v in task.items() if k not in ("call", "strategy")}
    if task.get("kind") == "strict_fp":
        strict_fp_case(ctx, {k: v for k, v in task.items() if k != "fn"})
        return
    if task.get("kind") == "game" and "calls" not in task:
        mm, nn, rr = task.get("m", 9), task.get("n", 9), task.get("reps", 1)
        task["calls"] = ["q", "c", "conv", "npa", "ns"] + (["c2"] if mm <= 2 and nn <= 2 else [])
        if min(mm, nn) >= 10:
            task["calls"] = ["c", "conv"]      # the games of BIG_POOL_GAMES (multiprocessing branch of classical_value)
        if rr >= 2 and (2 ** rr) ** (min(mm, nn) ** rr) <= 256 and max(mm, nn) ** rr <= 27:
            task["calls"].append("cr")
    res = Result()
    work(task, res)
    fold(ctx, res)
